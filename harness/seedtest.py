#!/venv/bin/python
"""Run the registered checks against the seeded property-breaking changes kept under /verif/seeded/<id>/.

  seedtest.py [--tier quick|thorough] [--suite] [--only ID[,ID..]] [--props C07,C08]

For every seeded/<id>/ (patch.diff, demo.py, meta.json) a scratch worktree of /repo's HEAD is created OUTSIDE /repo and
/verif (under $VERIF_SCRATCH or /tmp/verif-seed), the two sim extension .so files are copied in (they are git-ignored),
and then:
  1. demo on the clean worktree must PASS (exit 0); patch applied -> demo must FAIL (exit != 0)
  2. optionally (--suite) the 302-test baseline must still pass with the patch
  3. `check.py <property> --tier <tier>` with VERIF_REPO=<worktree> must exit 1 with a VIOLATION line
The worktree is removed afterwards.  Results go to seeded/<id>/result.json (which check caught which change).
This is development tooling of the lead: it is not one of the registered commands.
"""
import argparse
import glob
import json
import os
import shutil
import subprocess
import sys
import time

HERE = os.path.dirname(os.path.abspath(__file__))
VERIF = os.path.dirname(HERE)
REPO = "/repo"
PY = "/venv/bin/python"
SCRATCH = os.environ.get("VERIF_SCRATCH", "/tmp/verif-seed")


def sh(cmd, cwd=None, env=None, timeout=3600):
    e = dict(os.environ)
    if env:
        e.update(env)
    r = subprocess.run(cmd, shell=True, cwd=cwd, env=e, capture_output=True, text=True, timeout=timeout)
    return r.returncode, r.stdout + r.stderr


def baseline_ids():
    return set(json.load(open("/root/.vp/BASELINE.json"))["stable_pass"])


def suite_ok(wt, log):
    xml = os.path.join(wt, "_suite.xml")
    rc, out = sh("%s -m pytest -q -p no:cacheprovider --timeout=900 --continue-on-collection-errors --junitxml=%s" % (PY, xml), cwd=wt, timeout=3000)
    open(log, "w").write(out)
    import xml.etree.ElementTree as ET

    passed = set()
    for tc in ET.parse(xml).getroot().iter("testcase"):
        bad = any(ch.tag in ("failure", "error", "skipped") for ch in tc)
        if not bad:
            passed.add("%s::%s" % (tc.get("classname"), tc.get("name")))
    missing = sorted(baseline_ids() - passed)
    return missing


def main():
    ap = argparse.ArgumentParser()
    ap.add_argument("--tier", default="quick")
    ap.add_argument("--suite", action="store_true")
    ap.add_argument("--only", default="")
    ap.add_argument("--props", default="")
    ap.add_argument("--seed", default="0")
    ap.add_argument("--check", default="", help="also run these other properties' checks against the change (sibling catch)")
    a = ap.parse_args()
    only = set(x for x in a.only.split(",") if x)
    props = set(x for x in a.props.split(",") if x)
    ready = [l.strip() for l in open(os.path.join(HERE, "ready.txt")) if l.strip() and not l.startswith("#")]
    results = {}
    os.makedirs(SCRATCH, exist_ok=True)
    # a private copy of the committed /verif (plus the Lean build output) so that mutated Gen/*.lean, evidence and replays
    # never touch /verif while other work goes on there
    vcopy = os.path.join(SCRATCH, "verif")
    shutil.rmtree(vcopy, ignore_errors=True)
    os.makedirs(vcopy)
    sh("git -C %s archive HEAD | tar -x -C %s" % (VERIF, vcopy))
    sh("cp -a %s %s" % (os.path.join(VERIF, "lean", ".lake"), os.path.join(vcopy, "lean", ".lake")))
    sh("cp -a %s %s" % (os.path.join(VERIF, ".build"), os.path.join(vcopy, ".build")))
    for d in sorted(glob.glob(os.path.join(VERIF, "seeded", "*", ""))):
        sid = os.path.basename(os.path.dirname(d))
        if only and sid not in only:
            continue
        meta = json.load(open(os.path.join(d, "meta.json")))
        pid = meta["property"]
        if props and pid not in props:
            continue
        wt = os.path.join(SCRATCH, sid)
        sh("git -C %s worktree remove --force %s" % (REPO, wt))
        shutil.rmtree(wt, ignore_errors=True)
        rc, out = sh("git -C %s worktree add --detach %s HEAD" % (REPO, wt))
        if rc != 0:
            print(sid, "worktree failed", out)
            continue
        try:
            for sub, pat in (("wntr/sim/aml", "_evaluator*.so"), ("wntr/sim/network_isolation", "_network_isolation*.so")):
                for f in glob.glob(os.path.join(REPO, sub, pat)):
                    shutil.copy(f, os.path.join(wt, sub))
            res = {"property": pid, "summary": meta.get("summary", ""), "tier": a.tier}
            demo = os.path.join(d, "demo.py")
            rc0, o0 = sh("%s %s" % (PY, demo), cwd=wt, timeout=600)
            res["demo_clean_rc"] = rc0
            rc, out = sh("git apply %s" % os.path.join(d, "patch.diff"), cwd=wt)
            if rc != 0:
                res["error"] = "patch does not apply: " + out[-400:]
                results[sid] = res
                print(sid, res["error"])
                continue
            if any(f.endswith(".cpp") or f.endswith(".hpp") for f in meta.get("files", [])):
                sh("%s setup.py build_ext --inplace" % PY, cwd=wt, timeout=1200)
            rc1, o1 = sh("%s %s" % (PY, demo), cwd=wt, timeout=600)
            res["demo_patched_rc"] = rc1
            if a.suite:
                miss = suite_ok(wt, os.path.join(SCRATCH, sid + ".suite.log"))
                res["suite_missing_from_baseline"] = miss
            if pid in ready:
                t0 = time.time()
                rc, out = sh("%s harness/check.py %s --tier %s --seed %s" % (PY, pid, a.tier, a.seed), cwd=vcopy, env={"VERIF_REPO": wt}, timeout=7200)
                vio = [l for l in out.splitlines() if l.startswith("VIOLATION")]
                res["check_rc"] = rc
                res["violation_lines"] = vio[:5]
                res["caught"] = rc == 1 and bool(vio)
                res["no_failing_input_found"] = bool(vio) and all("no-failing-input-found" in l for l in vio)
                res["wall_s"] = round(time.time() - t0, 1)
                if rc not in (0, 1):
                    res["check_tail"] = out[-1500:]
            else:
                res["caught"] = None
                res["note"] = "property not registered yet"
            for pid2 in [x for x in a.check.split(",") if x and x != pid]:
                rc, out = sh("%s harness/check.py %s --tier %s --seed %s" % (PY, pid2, a.tier, a.seed), cwd=vcopy, env={"VERIF_REPO": wt}, timeout=7200)
                vio = [l for l in out.splitlines() if l.startswith("VIOLATION")]
                res.setdefault("sibling", {})[pid2] = {"check_rc": rc, "violation_lines": vio[:3]}
                print(sid, "sibling", pid2, "rc=%s" % rc, vio[:1])
            results[sid] = res
            print(sid, pid, "demo clean/patched rc=%s/%s" % (rc0, rc1), "caught=%s" % res.get("caught"), res.get("violation_lines", [])[:1],
                  ("suite missing: %s" % res["suite_missing_from_baseline"]) if a.suite else "")
        finally:
            sh("git -C %s worktree remove --force %s" % (REPO, wt))
            shutil.rmtree(wt, ignore_errors=True)
            sh("git -C %s worktree prune" % REPO)
        if sid in results:
            rp = os.path.join(d, "result.json")
            old = json.load(open(rp)) if os.path.exists(rp) else {}
            if "suite_missing_from_baseline" in old and "suite_missing_from_baseline" not in results[sid]:
                results[sid]["suite_missing_from_baseline"] = old["suite_missing_from_baseline"]
            json.dump(results[sid], open(rp, "w"), indent=1, sort_keys=True)
    shutil.rmtree(vcopy, ignore_errors=True)


if __name__ == "__main__":
    main()
