#!/venv/bin/python
"""Entry point: check.py Cxx [--tier quick|thorough] [--seed N] [--replay file]"""
import importlib
import os
import sys

HERE = os.path.dirname(os.path.abspath(__file__))
sys.path.insert(0, HERE)
sys.path.insert(0, os.path.join(HERE, "props"))
import vlib


def main():
    # Python randomises string hashing per process; anything that iterates over a set of strings (in a generator, in WNTR,
    # in networkx) would make a run depend on the process. Pin it so that a (seed, tier) pair always explores the same inputs.
    if os.environ.get("PYTHONHASHSEED") is None:
        os.environ["PYTHONHASHSEED"] = "0"
        os.execv(sys.executable, [sys.executable] + sys.argv)
    if len(sys.argv) < 2:
        print("usage: check.py Cxx [--tier quick|thorough] [--seed N] [--replay file]")
        sys.exit(2)
    pid = sys.argv[1].upper()
    # EPANET's toolkit (and a few WNTR writers) drop temporary files ("enXXXXXX", temp.inp ...) into the current directory
    # and leave them there when a run is cut short: run from a private scratch directory that is removed at exit.
    import atexit, shutil, tempfile
    argv = sys.argv[2:]
    for i, a in enumerate(argv):
        if a == "--replay" and i + 1 < len(argv):
            argv[i + 1] = os.path.abspath(argv[i + 1])
    os.makedirs(os.path.join(vlib.BUILD, "cwd"), exist_ok=True)
    cwd = tempfile.mkdtemp(prefix=pid + "-", dir=os.path.join(vlib.BUILD, "cwd"))
    atexit.register(shutil.rmtree, cwd, True)
    os.chdir(cwd)
    mod = importlib.import_module(pid.lower())
    vlib.run_check(getattr(mod, pid), argv)


if __name__ == "__main__":
    main()
