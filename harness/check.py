#!/venv/bin/python
"""Entry point: check.py Cxx [--tier quick|thorough] [--seed N] [--replay file]"""
import importlib
import os
import sys

HERE = os.path.dirname(os.path.abspath(__file__))
sys.path.insert(0, HERE)
sys.path.insert(0, os.path.join(HERE, "props"))
import vlib


def main():
    # Python randomises string hashing per process; anything that iterates over a set of strings (in a generator, in WNTR,
    # in networkx) would make a run depend on the process. Pin it so that a (seed, tier) pair always explores the same inputs.
    if os.environ.get("PYTHONHASHSEED") is None:
        os.environ["PYTHONHASHSEED"] = "0"
        os.execv(sys.executable, [sys.executable] + sys.argv)
    if len(sys.argv) < 2:
        print("usage: check.py Cxx [--tier quick|thorough] [--seed N] [--replay file]")
        sys.exit(2)
    pid = sys.argv[1].upper()
    mod = importlib.import_module(pid.lower())
    vlib.run_check(getattr(mod, pid), sys.argv[2:])


if __name__ == "__main__":
    main()
