#!/venv/bin/python
"""Confirms that the seeded changes still pass the 302-test baseline, cheaply: changes touching disjoint files are applied
TOGETHER in one scratch worktree and the suite is run once per group (a test broken by one change is not repaired by another,
so a passing group means every member passes; a failing group is re-run member by member).  Records
`suite_missing_from_baseline` in seeded/<id>/result.json.   seedsuite.py [--jobs N] [--only id,id]"""
import argparse
import concurrent.futures
import glob
import json
import os
import shutil
import sys

HERE = os.path.dirname(os.path.abspath(__file__))
sys.path.insert(0, HERE)
import seedtest
from seedtest import sh, REPO, VERIF, PY

SCRATCH = os.environ.get("VERIF_SCRATCH", "/tmp/verif-seedsuite")


def files_of(patch):
    return set(l.split(" b/")[-1].strip() for l in open(patch) if l.startswith("diff --git"))


def run_group(gi, members):
    wt = os.path.join(SCRATCH, "g%d" % gi)
    sh("git -C %s worktree remove --force %s" % (REPO, wt))
    shutil.rmtree(wt, ignore_errors=True)
    rc, out = sh("git -C %s worktree add --detach %s HEAD" % (REPO, wt))
    try:
        for sub, pat in (("wntr/sim/aml", "_evaluator*.so"), ("wntr/sim/network_isolation", "_network_isolation*.so")):
            for f in glob.glob(os.path.join(REPO, sub, pat)):
                shutil.copy(f, os.path.join(wt, sub))
        cpp = False
        for sid in members:
            rc, out = sh("git apply %s" % os.path.join(VERIF, "seeded", sid, "patch.diff"), cwd=wt)
            if rc != 0:
                return members, ["patch %s does not apply: %s" % (sid, out[-200:])]
            cpp = cpp or any(f.endswith((".cpp", ".hpp")) for f in files_of(os.path.join(VERIF, "seeded", sid, "patch.diff")))
        if cpp:
            sh("%s setup.py build_ext --inplace" % PY, cwd=wt, timeout=1800)
        miss = seedtest.suite_ok(wt, os.path.join(SCRATCH, "g%d.suite.log" % gi))
        return members, miss
    finally:
        sh("git -C %s worktree remove --force %s" % (REPO, wt))
        shutil.rmtree(wt, ignore_errors=True)
        sh("git -C %s worktree prune" % REPO)


def main():
    ap = argparse.ArgumentParser()
    ap.add_argument("--jobs", type=int, default=3)
    ap.add_argument("--only", default="")
    ap.add_argument("--redo", action="store_true")
    a = ap.parse_args()
    only = set(x for x in a.only.split(",") if x)
    os.makedirs(SCRATCH, exist_ok=True)
    todo = []
    for d in sorted(glob.glob(os.path.join(VERIF, "seeded", "*", ""))):
        sid = os.path.basename(os.path.dirname(d))
        if only and sid not in only:
            continue
        rp = os.path.join(d, "result.json")
        r = json.load(open(rp)) if os.path.exists(rp) else {}
        if "suite_missing_from_baseline" in r and not a.redo and not only:
            continue
        todo.append(sid)
    groups = []
    for sid in todo:
        fs = files_of(os.path.join(VERIF, "seeded", sid, "patch.diff"))
        for g in groups:
            if not (g["files"] & fs) and len(g["members"]) < 6:
                g["members"].append(sid)
                g["files"] |= fs
                break
        else:
            groups.append({"members": [sid], "files": set(fs)})
    print("groups:", [g["members"] for g in groups])
    pending = [(i, g["members"]) for i, g in enumerate(groups)]
    gi = len(groups)
    while pending:
        with concurrent.futures.ThreadPoolExecutor(a.jobs) as ex:
            results = list(ex.map(lambda p: run_group(*p), pending))
        pending = []
        for members, miss in results:
            if miss and len(members) > 1:
                print("group", members, "misses", miss[:5], "-> re-running members one by one")
                for m in members:
                    pending.append((gi, [m]))
                    gi += 1
                continue
            for sid in members:
                rp = os.path.join(VERIF, "seeded", sid, "result.json")
                r = json.load(open(rp)) if os.path.exists(rp) else {}
                r["suite_missing_from_baseline"] = miss
                json.dump(r, open(rp, "w"), indent=1, sort_keys=True)
                print(sid, "suite ok" if not miss else "SUITE MISSES %s" % miss[:5])


if __name__ == "__main__":
    main()
