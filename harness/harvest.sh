#!/bin/sh
# harvest.sh Cxx : copy the sub-agent's deliverables /tmp/mut/Cxx/_mut/k/ into /verif/seeded/Cxx-k/
p=$1
for k in 1 2 3; do
  d=/tmp/mut/$p/_mut/$k
  [ -f $d/patch.diff ] || continue
  mkdir -p /verif/seeded/$p-$k
  cp $d/patch.diff $d/demo.py $d/meta.json /verif/seeded/$p-$k/
done
ls /verif/seeded | grep "^$p-"
