#!/bin/sh
# harvest.sh Cxx [round] : copy a sub-agent's deliverables into /verif/seeded/Cxx-k/
#   round 1: /tmp/mut/Cxx/_mut/{1,2}  -> Cxx-1, Cxx-2 ;  round 2: /tmp/mut2/Cxx/_mut/{1,2} -> Cxx-3, Cxx-4 ; round r: /tmp/mut<r>/...
p=$1; r=${2:-1}
if [ -n "$MUT_BASE" ]; then base=$MUT_BASE; elif [ "$r" = 1 ]; then base=/tmp/mut; else base=/tmp/mut$r; fi
off=$(( (r-1)*2 ))
for k in 1 2 3; do
  d=$base/$p/_mut/$k
  [ -f $d/patch.diff ] || continue
  t=/verif/seeded/$p-$((k+off))
  mkdir -p $t
  cp $d/patch.diff $d/demo.py $d/meta.json $t/
  echo $p-$((k+off))
done
