"""Shared machinery of the /verif checks.

Every check goes through `run_check(CheckClass)`:
  1. fresh C++ extensions from /repo's working tree (content-hash cached),
  2. translators -> lean/WntrModel/Gen/*.lean (written only when content changes),
  3. `lake build` of the property's theorem modules,
  4. audit (`#print axioms` of every theorem, grep for sorry/axiom/native_decide ...),
  5. corpus + seeded correspondence (model's executable definitions vs implementation),
  6. the property oracle evaluated on what the implementation produced,
  7. outcome: exit 0 | KNOWN-FINDING lines | VIOLATION line + replay (exit 1) | exit 2 (infrastructure).
A broken proof / translator / correspondence is never a violation by itself: it triggers the
failing-input search on the real implementation; only then is it reported, with the replay
naming the failing input or, when none is found, the theorem/correspondence that no longer checks.
"""
import contextlib
import fcntl
import hashlib
import importlib
import importlib.abc
import importlib.machinery
import importlib.util
import json
import os
import random
import re
import subprocess
import sys
import time
import traceback
import warnings

VERIF = os.path.dirname(os.path.dirname(os.path.abspath(__file__)))
REPO = os.environ.get("VERIF_REPO", "/repo")
LEAN = os.path.join(VERIF, "lean")
GEN = os.path.join(LEAN, "WntrModel", "Gen")
BUILD = os.path.join(VERIF, ".build")
EVIDENCE = os.path.join(VERIF, "evidence")
REPLAYS = os.path.join(VERIF, "replays")
CORPUS = os.path.join(VERIF, "corpus")
ALLOWED_AXIOMS = {"propext", "Classical.choice", "Quot.sound"}
FORBIDDEN_RE = re.compile(
    r"\bsorry\b|\badmit\b|^\s*axiom\s|native_decide|bv_decide|implemented_by|\bunsafe\s|maxHeartbeats\s+0\b"
)

os.makedirs(BUILD, exist_ok=True)


class Infra(Exception):
    """Infrastructure problem (exit 2) -- never reported as a violation."""


class BrokenTie(Exception):
    """A translator could not read the edited source, or the generated model does not fit."""


# ----------------------------------------------------------------------------- extensions

_EXT_SPECS = {
    "wntr.sim.aml._evaluator": ("wntr/sim/aml", ["evaluator.cpp", "evaluator_wrap.cpp"], ["evaluator.hpp"]),
    "wntr.sim.network_isolation._network_isolation": (
        "wntr/sim/network_isolation",
        ["network_isolation.cpp", "network_isolation_wrap.cpp"],
        ["network_isolation.hpp"],
    ),
}


def _ext_build(modname):
    import sysconfig
    import numpy

    sub, srcs, hdrs = _EXT_SPECS[modname]
    d = os.path.join(REPO, sub)
    h = hashlib.sha256()
    for f in srcs + hdrs:
        with open(os.path.join(d, f), "rb") as fh:
            h.update(fh.read())
    h.update(sys.version.encode())
    key = h.hexdigest()[:20]
    outdir = os.path.join(BUILD, "ext", key)
    so = os.path.join(outdir, modname.split(".")[-1] + sysconfig.get_config_var("EXT_SUFFIX"))
    if os.path.exists(so):
        return so
    os.makedirs(outdir, exist_ok=True)
    lock = open(os.path.join(BUILD, "ext.lock"), "w")
    fcntl.flock(lock, fcntl.LOCK_EX)
    try:
        if os.path.exists(so):
            return so
        inc = sysconfig.get_paths()["include"]
        cmd = (
            ["g++", "-O2", "-shared", "-fPIC", "-std=c++11", "-I", inc, "-I", numpy.get_include(), "-I", d]
            + [os.path.join(d, f) for f in srcs]
            + ["-o", so + ".tmp"]
        )
        r = subprocess.run(cmd, capture_output=True, text=True)
        if r.returncode != 0:
            raise BrokenTie("C++ extension %s does not compile from the working tree:\n%s" % (modname, r.stderr[-2000:]))
        os.replace(so + ".tmp", so)
        return so
    finally:
        fcntl.flock(lock, fcntl.LOCK_UN)
        lock.close()


class _ExtFinder(importlib.abc.MetaPathFinder):
    def find_spec(self, fullname, path, target=None):
        if fullname in _EXT_SPECS:
            so = _ext_build(fullname)
            loader = importlib.machinery.ExtensionFileLoader(fullname, so)
            return importlib.util.spec_from_file_location(fullname, so, loader=loader)
        return None


_ext_installed = False


def ensure_ext():
    """Make `import wntr` use extensions compiled from /repo's current C++ sources."""
    global _ext_installed
    if _ext_installed:
        return
    if "wntr" in sys.modules:
        raise Infra("ensure_ext() must be called before wntr is imported")
    sys.meta_path.insert(0, _ExtFinder())
    if REPO not in sys.path:
        sys.path.insert(0, REPO)
    _ext_installed = True


def import_wntr():
    ensure_ext()
    warnings.filterwarnings("ignore")
    import wntr  # noqa

    exp = os.path.realpath(REPO)
    got = os.path.realpath(os.path.dirname(os.path.dirname(wntr.__file__)))
    if got != exp:
        raise Infra("wntr imported from %s, expected %s" % (got, exp))
    return wntr


# ----------------------------------------------------------------------------- lean


@contextlib.contextmanager
def lake_lock():
    os.makedirs(os.path.join(LEAN, ".lake"), exist_ok=True)
    f = open(os.path.join(LEAN, ".lake", "verif.lock"), "w")
    fcntl.flock(f, fcntl.LOCK_EX)
    try:
        yield
    finally:
        fcntl.flock(f, fcntl.LOCK_UN)
        f.close()


def write_if_changed(path, text):
    os.makedirs(os.path.dirname(path), exist_ok=True)
    try:
        with open(path) as f:
            if f.read() == text:
                return False
    except FileNotFoundError:
        pass
    with open(path + ".tmp", "w") as f:
        f.write(text)
    os.replace(path + ".tmp", path)
    return True


def lake_build(targets, timeout=3000):
    """Returns (ok, log). Serialised through a lock file."""
    with lake_lock():
        t0 = time.time()
        r = subprocess.run(
            ["lake", "build"] + list(targets), cwd=LEAN, capture_output=True, text=True, timeout=timeout
        )
        log = r.stdout + r.stderr
        return r.returncode == 0, log, time.time() - t0


def lean_run(relfile, stdin_text, timeout=3000, args=()):
    """Run `lake env lean --run <file>` with stdin; returns stdout lines."""
    r = subprocess.run(
        ["lake", "env", "lean", "--run", relfile] + list(args),
        cwd=LEAN,
        input=stdin_text,
        capture_output=True,
        text=True,
        timeout=timeout,
    )
    if r.returncode != 0:
        raise Infra("lean driver %s failed (rc=%s):\n%s\n%s" % (relfile, r.returncode, r.stdout[-3000:], r.stderr[-3000:]))
    return r.stdout.splitlines()


def lean_file_output(relfile, timeout=3000):
    r = subprocess.run(["lake", "env", "lean", relfile], cwd=LEAN, capture_output=True, text=True, timeout=timeout)
    return r.returncode, r.stdout + r.stderr


_THM_RE = re.compile(r"^\s*(?:@\[[^\]]*\]\s*)?(?:private\s+|protected\s+)?theorem\s+([A-Za-z_][A-Za-z0-9_.'!?]*)", re.M)
_NS_RE = re.compile(r"^\s*(namespace|end)\s+([A-Za-z_][A-Za-z0-9_.']*)\s*$")


def strip_comments(src):
    out = []
    i = 0
    depth = 0
    n = len(src)
    while i < n:
        if src.startswith("/-", i):
            depth += 1
            i += 2
            continue
        if depth and src.startswith("-/", i):
            depth -= 1
            i += 2
            continue
        if depth:
            if src[i] == "\n":
                out.append("\n")
            i += 1
            continue
        if src.startswith("--", i):
            j = src.find("\n", i)
            i = n if j < 0 else j
            continue
        out.append(src[i])
        i += 1
    return "".join(out)


def theorems_in(path):
    """Fully-qualified theorem names declared in a Lean file (namespace-aware, comments ignored)."""
    src = strip_comments(open(path).read())
    ns = []
    names = []
    for line in src.splitlines():
        m = _NS_RE.match(line)
        if m:
            if m.group(1) == "namespace":
                ns.append(m.group(2))
            elif ns and ns[-1] == m.group(2):
                ns.pop()
            continue
        m = _THM_RE.match(line)
        if m:
            names.append(".".join(ns + [m.group(1)]))
    return names


def audit(prop_modules, extra_scan_dirs=()):
    """#print axioms for every theorem of the given Props modules + forbidden-token grep.
    Returns dict(theorems={name: [axioms]}, problems=[...])."""
    problems = []
    thms = []
    for mod in prop_modules:
        path = os.path.join(LEAN, mod.replace(".", "/") + ".lean")
        thms += [(mod, t) for t in theorems_in(path)]
    # forbidden tokens anywhere in the lean project sources
    for root, _, files in os.walk(os.path.join(LEAN, "WntrModel")):
        for fn in files:
            if fn.endswith(".lean"):
                p = os.path.join(root, fn)
                for ln, line in enumerate(strip_comments(open(p).read()).splitlines(), 1):
                    if FORBIDDEN_RE.search(line):
                        problems.append("%s:%d forbidden token: %s" % (os.path.relpath(p, LEAN), ln, line.strip()[:80]))
    mods = sorted(set(m for m, _ in thms))
    src = "".join("import %s\n" % m for m in mods) + "".join("#print axioms %s\n" % t for _, t in thms)
    tag = hashlib.sha256(src.encode()).hexdigest()[:12]
    os.makedirs(os.path.join(LEAN, ".lake", "audit"), exist_ok=True)
    rel = os.path.join(".lake", "audit", "Audit_%s.lean" % tag)
    with open(os.path.join(LEAN, rel), "w") as f:
        f.write(src)
    rc, out = lean_file_output(rel)
    result = {}
    if rc != 0:
        problems.append("audit file does not elaborate: " + out[-1500:])
    cur = None
    buf = ""
    for line in out.splitlines():
        m = re.match(r"^'([^']+)' (depends on axioms: \[(.*)|does not depend on any axioms)", line)
        if m:
            cur = m.group(1)
            if m.group(2).startswith("does not"):
                result[cur] = []
                cur = None
            else:
                buf = m.group(3)
                if "]" in buf:
                    result[cur] = [a.strip() for a in buf.split("]")[0].split(",") if a.strip()]
                    cur = None
        elif cur is not None:
            buf += " " + line.strip()
            if "]" in buf:
                result[cur] = [a.strip() for a in buf.split("]")[0].split(",") if a.strip()]
                cur = None
    for _, t in thms:
        if t not in result:
            problems.append("no axiom report for theorem %s" % t)
        else:
            bad = [a for a in result[t] if a not in ALLOWED_AXIOMS]
            if bad:
                problems.append("theorem %s depends on non-standard axioms %s" % (t, bad))
    return {"theorems": result, "problems": problems, "names": [t for _, t in thms]}


# ----------------------------------------------------------------------------- findings


def load_known_findings():
    """known_findings.json plus known_findings.d/*.json (one file per property, same format)."""
    out = {"findings": [], "fixed": []}
    paths = [os.path.join(VERIF, "known_findings.json")]
    d = os.path.join(VERIF, "known_findings.d")
    if os.path.isdir(d):
        paths += [os.path.join(d, f) for f in sorted(os.listdir(d)) if f.endswith(".json")]
    for p in paths:
        try:
            with open(p) as f:
                j = json.load(f)
        except FileNotFoundError:
            continue
        out["findings"] += j.get("findings", [])
        out["fixed"] += j.get("fixed", [])
    return out


class Failure:
    """A concrete input on which the REAL implementation violates the property."""

    def __init__(self, key, what, replay):
        self.key = key  # stable identifier of call site + input class (matched against known_findings)
        self.what = what
        self.replay = replay  # JSON-serialisable: input, observed, expected, how to rerun

    def __repr__(self):
        return "Failure(%s: %s)" % (self.key, self.what)


class Broken:
    """A proof obligation, translator or correspondence that no longer checks."""

    def __init__(self, kind, name, detail):
        self.kind, self.name, self.detail = kind, name, detail

    def as_dict(self):
        return {"kind": self.kind, "name": self.name, "detail": self.detail[-4000:]}


# ----------------------------------------------------------------------------- check base


class Ctx:
    def __init__(self, pid, tier, seed):
        self.pid, self.tier, self.seed = pid, tier, seed
        self.rng = random.Random(seed * 7919 + sum(map(ord, pid)))
        self.quick = tier == "quick"
        self.cov = {}  # extra coverage keys
        self.samples = []
        self.evaluations = 0
        self.distinct = set()
        self.hist = {}
        self.t0 = time.time()

    def count(self, key, n=1):
        self.hist[key] = self.hist.get(key, 0) + n

    def case(self, sig, nontrivial=True):
        self.evaluations += 1
        if nontrivial:
            self.distinct.add(sig if isinstance(sig, (str, int, tuple)) else json.dumps(sig, sort_keys=True, default=str))

    def sample(self, s, cap=6):
        if len(self.samples) < cap:
            self.samples.append(s)


class Check:
    pid = "C00"
    level = "proof"
    prop_modules = []  # e.g. ["WntrModel.Props.C17"]
    extra_targets = []  # additional lake targets (drivers' imports)
    rule = ""
    trusted_base = []
    assumptions = []
    manifest = None  # dict(category, text, design_ref, note, technique) -> picked up by mkmanifest.py

    def translate(self, ctx):
        """regenerate Gen/*.lean; raise BrokenTie when the source can no longer be read"""

    def correspondence(self, ctx):
        """returns (failures, broken) -- failures: list[Failure] on the real code; broken: list[Broken]"""
        return [], []

    def search(self, ctx, broken):
        """wider failing-input search on the implementation after something broke; returns list[Failure]"""
        return []


def _match_known(f, known):
    for k in known.get("findings", []):
        if k.get("property") == f.pid_ and k.get("key") == f.key:
            return k
    return None


def run_check(cls, argv=None):
    import argparse

    ap = argparse.ArgumentParser()
    ap.add_argument("--tier", default=os.environ.get("VERIF_TIER", "quick"), choices=["quick", "thorough"])
    ap.add_argument("--seed", type=int, default=int(os.environ.get("VERIF_SEED", "0") or 0))
    ap.add_argument("--replay", default=None)
    ap.add_argument("--no-lean", action="store_true", help="development only: skip lake build/audit")
    a = ap.parse_args(argv)
    chk = cls()
    ctx = Ctx(chk.pid, a.tier, a.seed)
    t0 = time.time()
    try:
        rc = _run(chk, ctx, a)
    except Infra as e:
        print("INFRA-ERROR %s: %s" % (chk.pid, e))
        traceback.print_exc()
        rc = 2
    except subprocess.TimeoutExpired as e:
        print("INFRA-TIMEOUT %s: %s" % (chk.pid, e))
        rc = 2
    print("check %s tier=%s seed=%d rc=%d wall=%.1fs" % (chk.pid, a.tier, a.seed, rc, time.time() - t0))
    sys.exit(rc)


def _run(chk, ctx, a):
    pid = chk.pid
    broken = []
    failures = []
    obligations = []
    discharged = []
    axioms = {}
    lean_log = ""
    if a.replay:
        return chk.replay(ctx, a.replay)
    # 1-2 translators
    try:
        chk.translate(ctx)
    except BrokenTie as e:
        broken.append(Broken("translator", type(chk).__name__ + ".translate", str(e)))
    except Infra:
        raise
    except Exception as e:  # the edited source made the translator crash: a broken tie
        broken.append(Broken("translator", type(chk).__name__ + ".translate", traceback.format_exc()))
    # 3 build
    if not a.no_lean and chk.prop_modules:
        for mod in chk.prop_modules:
            path = os.path.join(LEAN, mod.replace(".", "/") + ".lean")
            obligations += theorems_in(path)
        ok, log, secs = lake_build(list(chk.prop_modules) + list(chk.extra_targets))
        lean_log = log
        ctx.cov["lake_build_s"] = round(secs, 1)
        if not ok:
            errs = [l for l in log.splitlines() if "error" in l.lower()][:20]
            broken.append(Broken("proof", "lake build " + " ".join(chk.prop_modules), "\n".join(errs) + "\n" + log[-3000:]))
        else:
            au = audit(chk.prop_modules)
            axioms = au["theorems"]
            if au["problems"]:
                # an unsound proof base is an infrastructure failure of the checker, not a violation
                raise Infra("audit failed: " + "; ".join(au["problems"][:5]))
            discharged = [t for t in obligations if t in axioms]
            if a.tier == "thorough":
                # independent re-check of the compiled .olean files of the property modules
                t1 = time.time()
                r = subprocess.run(["lake", "env", "leanchecker"] + list(chk.prop_modules), cwd=LEAN, capture_output=True, text=True, timeout=3000)
                ctx.cov["leanchecker_s"] = round(time.time() - t1, 1)
                ctx.cov["leanchecker_rc"] = r.returncode
                if r.returncode != 0:
                    broken.append(Broken("proof", "leanchecker " + " ".join(chk.prop_modules), (r.stdout + r.stderr)[-3000:]))
                    discharged = []
    # 4-6 correspondence + oracle
    try:
        fs, bs = chk.correspondence(ctx)
        failures += fs
        broken += bs
    except BrokenTie as e:
        broken.append(Broken("correspondence", type(chk).__name__ + ".correspondence", str(e)))
    except (Infra, subprocess.TimeoutExpired):
        raise
    except Exception:
        # the harness itself fell over while driving the (possibly edited) implementation: the tie no longer checks;
        # the failing-input search below decides whether a concrete violation can be shown
        broken.append(Broken("correspondence", type(chk).__name__ + ".correspondence (harness exception)", traceback.format_exc()))
    # 7 search when something broke and no concrete failure yet
    known0 = load_known_findings()
    unknown = []
    for f in failures:
        f.pid_ = pid
        if _match_known(f, known0) is None:
            unknown.append(f)
    if broken and not unknown:
        try:
            failures += chk.search(ctx, broken)
        except (Infra, subprocess.TimeoutExpired):
            raise
        except Exception:
            broken.append(Broken("correspondence", type(chk).__name__ + ".search (harness exception)", traceback.format_exc()))
    return finish(chk, ctx, failures, broken, obligations, discharged, axioms)


def finish(chk, ctx, failures, broken, obligations, discharged, axioms):
    pid = chk.pid
    known = load_known_findings()
    kf_lines = []
    new = []
    seen_keys = set()
    for f in failures:
        f.pid_ = pid
        k = _match_known(f, known)
        if k is not None:
            if f.key not in seen_keys:
                kf_lines.append("KNOWN-FINDING: property=%s %s" % (pid, k.get("what", f.what)))
            seen_keys.add(f.key)
        else:
            new.append(f)
    for l in kf_lines:
        print(l)
    rc = 0
    nviol = 0
    os.makedirs(REPLAYS, exist_ok=True)
    if new:
        # one replay file per distinct key (first = smallest found)
        byk = {}
        for f in new:
            byk.setdefault(f.key, f)
        for key, f in byk.items():
            rp = os.path.join("replays", "%s-%s-seed%d.json" % (pid, re.sub(r"[^A-Za-z0-9_.-]", "_", key)[:60], ctx.seed))
            with open(os.path.join(VERIF, rp), "w") as fh:
                json.dump(
                    {
                        "property": pid,
                        "key": key,
                        "what": f.what,
                        "replay": f.replay,
                        "broken": [b.as_dict() for b in broken],
                        "how": "/venv/bin/python harness/check.py %s --replay %s" % (pid, rp),
                    },
                    fh,
                    indent=1,
                    default=str,
                )
            print("VIOLATION property=%s replay=%s" % (pid, rp))
            print("  " + f.what[:300])
            nviol += 1
        rc = 1
    elif broken:
        rp = os.path.join("replays", "%s-broken-seed%d.json" % (pid, ctx.seed))
        with open(os.path.join(VERIF, rp), "w") as fh:
            json.dump(
                {
                    "property": pid,
                    "no_failing_input_found": True,
                    "no_longer_checks": [b.as_dict() for b in broken],
                    "note": "the property is no longer shown to hold: the named theorem / translator / correspondence "
                    "does not check against the current source; the failing-input search on the implementation found nothing",
                },
                fh,
                indent=1,
                default=str,
            )
        for b in broken:
            print("BROKEN %s %s" % (b.kind, b.name))
            print("  " + b.detail[:1500].replace("\n", "\n  "))
        print("VIOLATION property=%s replay=%s no-failing-input-found" % (pid, rp))
        nviol = 1
        rc = 1
    write_evidence(chk, ctx, obligations, discharged, axioms, nviol, kf_lines, broken)
    return rc


def write_evidence(chk, ctx, obligations, discharged, axioms, nviol, kf_lines, broken):
    cov = {
        "obligations": len(obligations),
        "discharged": len(discharged),
        "checker_cmd": "cd lean && lake build %s  (then `#print axioms` audit of each theorem; thorough: lake env leanchecker)"
        % " ".join(chk.prop_modules),
        "trusted_base": [
            "Lean 4.33.0 kernel + lake",
            "axioms allowed: propext, Classical.choice, Quot.sound (audited per theorem on this run)",
            "Mathlib v4.33.0 single modules in Lemmas/Props only",
        ]
        + list(chk.trusted_base),
        "theorems": {t: axioms.get(t, None) for t in obligations},
        "evaluations": ctx.evaluations,
        "distinct_nontrivial": len(ctx.distinct),
        "rule": chk.rule,
        "samples": ctx.samples if ctx.samples else ["(no correspondence sample recorded)"],
        "histogram": ctx.hist,
        "known_findings_printed": kf_lines,
        "no_longer_checks": [b.as_dict() for b in broken],
    }
    cov.update(ctx.cov)
    ev = {
        "property_id": chk.pid,
        "tier": ctx.tier,
        "seed": ctx.seed,
        "level": chk.level,
        "coverage": cov,
        "assumptions": list(chk.assumptions),
        "wall_s": round(time.time() - ctx.t0, 2),
        "violations": nviol,
    }
    if chk.level == "other":
        cov.setdefault("explanation", chk.rule)
    os.makedirs(EVIDENCE, exist_ok=True)
    p = os.path.join(EVIDENCE, chk.pid + ".json")
    with open(p + ".tmp", "w") as f:
        json.dump(ev, f, indent=1, default=str)
    os.replace(p + ".tmp", p)


# ----------------------------------------------------------------------------- helpers


def frac_str(x):
    """exact rational text p/q of a python float / Fraction / int"""
    from fractions import Fraction

    fr = Fraction(x)
    return "%d/%d" % (fr.numerator, fr.denominator)


def lean_rat(x):
    """Lean term of type Rat for an exact rational"""
    from fractions import Fraction

    fr = Fraction(x)
    if fr.denominator == 1:
        return "(%d : Rat)" % fr.numerator
    return "((%d : Rat) / %d)" % (fr.numerator, fr.denominator)


def corpus_items(pid):
    d = os.path.join(CORPUS, pid)
    out = []
    if os.path.isdir(d):
        for fn in sorted(os.listdir(d)):
            if fn.endswith(".json"):
                with open(os.path.join(d, fn)) as f:
                    out.append((fn, json.load(f)))
    return out
