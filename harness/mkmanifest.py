#!/venv/bin/python
"""Writes /verif/MANIFEST.json from the per-property table below (single source, always schema-valid)."""
import json
import os
import sys

HERE = os.path.dirname(os.path.abspath(__file__))
VERIF = os.path.dirname(HERE)
PY = "/venv/bin/python"

sys.path.insert(0, HERE)
sys.path.insert(0, os.path.join(HERE, "props"))


def load_checks():
    import importlib

    out = {}
    for fn in sorted(os.listdir(os.path.join(HERE, "props"))):
        m = __import__("re").match(r"^(c\d\d)\.py$", fn)
        if not m:
            continue
        mod = importlib.import_module(m.group(1))
        cls = getattr(mod, m.group(1).upper())
        if cls.manifest:
            out[cls.pid] = cls.manifest
    return out


# properties whose check is complete and quiet on the unchanged tree (the lead adds an id here after running it on several seeds)
READY = [l.strip() for l in open(os.path.join(HERE, 'ready.txt')) if l.strip() and not l.startswith('#')]
CHECKS = {k: v for k, v in load_checks().items() if k in READY}

NOT_APPLICABLE = {}

PENDING_REASON = "not claimed yet: the Lean model and check for this property are still being built (see DESIGN.md §9)"


def main():
    props = [json.loads(l)["id"] for l in open(os.path.join(VERIF, "properties.jsonl"))]
    checks = []
    for pid in props:
        if pid not in CHECKS:
            continue
        c = CHECKS[pid]
        checks.append(
            {
                "property_id": pid,
                "quick_cmd": "%s harness/check.py %s --tier quick" % (PY, pid),
                "thorough_cmd": "%s harness/check.py %s --tier thorough" % (PY, pid),
                "evidence_file": "/verif/evidence/%s.json" % pid,
                "replay_cmd_template": "%s harness/check.py %s --replay {path}" % (PY, pid),
                "engine": "lean4-wntrmodel",
                "level_claimed": {"category": c["category"], "text": c["text"], "design_ref": c["design_ref"]},
                "level_note": c["note"],
                "technique": c["technique"],
            }
        )
    na = []
    for pid in props:
        if pid in CHECKS:
            continue
        na.append({"property_id": pid, "reason": NOT_APPLICABLE.get(pid, PENDING_REASON)})
    man = {
        "version": 1,
        "setup_cmd": "%s harness/setup.py" % PY,
        "hooks": {
            "guard": "WNTR_VERIF",
            "enable": "none needed: the harness wraps Python callables in-process and compiles the C++ extensions from /repo's "
            "working tree into /verif/.build; no guarded source change exists in /repo",
            "baseline_off_cmd": "cd /repo && /venv/bin/python -m pytest -ra -q -p no:cacheprovider --timeout=900 --continue-on-collection-errors",
            "source_commits": [],
            "add_only": True,
        },
        "engines": [
            {
                "name": "lean4-wntrmodel",
                "path": "lean/",
                "serves_properties": [c["property_id"] for c in checks],
                "kind_free_text": "Lean 4.33 lake library WntrModel (models, generated definitions, theorems) + Python harness "
                "(translators, correspondence through line-protocol drivers, failing-input search)",
            }
        ],
        "checks": checks,
        "notes": "Every check: translators regenerate lean/WntrModel/Gen, lake build re-checks the theorems, #print axioms audit, "
        "correspondence + property oracle on the real implementation. A broken proof/tie alone is reported only after the failing-input search.",
        "not_applicable": na,
    }
    with open(os.path.join(VERIF, "MANIFEST.json"), "w") as f:
        json.dump(man, f, indent=1)
    try:
        import jsonschema

        jsonschema.validate(man, json.load(open("/root/.vp/MANIFEST.schema.json")))
        print("MANIFEST.json valid; %d checks, %d not claimed" % (len(checks), len(na)))
    except ImportError:
        print("MANIFEST.json written (jsonschema not available here)")


if __name__ == "__main__":
    main()
