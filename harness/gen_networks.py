"""Seeded random water networks as JSON-able specs + builder (reusable by any check).

    spec = random_network(rng, quick=True)      # a plain dict: nodes, links, patterns, curves, options
    wn   = build_wn(wntr, spec)                 # a fresh WaterNetworkModel

The spec is the replayable artefact: `build_wn` is deterministic.  The generator aims at the targets of
DESIGN.md appendix B: 2-25 nodes, loops, parallel links, several sources, pumps / valves next to tanks,
multi-category demands with patterns, leaks on junctions and tanks, DD and PDD, both HW approximations,
random hydraulic / pattern / report steps, pattern_start and demand multiplier, 1-/2-/3-point pump curves,
power pumps, check valves, every supported valve type in every initial status.
"""
import math

VALVE_TYPES = ["PRV", "PSV", "FCV", "TCV"]


def _r(rng, lo, hi, nd=4):
    return round(rng.uniform(lo, hi), nd)


def random_pump_curve(rng, npts=None, zero_start=None):
    """1-, 2-, 3- or multi-point (4-6) head curve (flow m3/s, head m).  3+-point curves follow a power law H = h0 - b*Q^c
    (multi-point ones optionally with noise, so that the fit is a genuine least-squares fit); their FIRST point is at zero
    flow (EPANET style) or, `zero_start=False`, at a positive flow."""
    if npts is None:
        npts = rng.choice([1, 2, 3, 3, 4, 5, 6])
    h0 = _r(rng, 25, 70, 2)
    q1 = _r(rng, 0.01, 0.08, 4)
    if npts == 1:
        return [(q1, _r(rng, 15, 50, 2))]
    if npts == 2:
        q0 = 0.0 if rng.random() < 0.6 else _r(rng, 0.002, 0.01, 4)
        return [(q0, h0), (round(q0 + q1, 4), round(h0 * rng.uniform(0.3, 0.8), 2))]
    # three or more points, decreasing; concave (C > 1) mostly, convex (C < 1) sometimes
    qmax = round(q1 * rng.uniform(1.6, 2.4), 4)
    if rng.random() < 0.75:
        c = rng.uniform(1.3, 2.6)
    else:
        c = rng.uniform(0.6, 0.95)
    b = h0 * rng.uniform(0.5, 0.9) / (qmax ** c)
    if zero_start is None:
        zero_start = rng.random() < 0.6
    for _ in range(20):
        qa = 0.0 if zero_start else round(rng.uniform(0.08, 0.35) * qmax, 4)
        if npts == 3:
            qs = [qa, round(max(q1, qa + 0.15 * qmax), 4) if q1 < qmax * 0.9 else round((qa + qmax) / 2, 4), qmax]
            noise = 0.0
        else:
            qs = sorted([qa] + [round(rng.uniform(qa + 0.08 * qmax, 0.95 * qmax), 4) for _ in range(npts - 2)] + [qmax])
            noise = rng.choice([0.0, 0.0, 0.2])
        pts = [(q, round(h0 - b * q ** c + rng.uniform(-noise, noise), 3)) for q in qs]
        if all(pts[i + 1][0] - pts[i][0] >= 0.04 * qmax and pts[i][1] - pts[i + 1][1] >= 0.3 for i in range(len(pts) - 1)) and pts[-1][1] > 0.5:
            return pts
    return [(0.0, h0), (round(qmax / 2, 4), round(h0 - b * (qmax / 2) ** c, 3)), (qmax, round(h0 - b * qmax ** c, 3))]


def random_network(rng, quick=True, force=None):
    """force: optional dict of feature switches, e.g. {"demand_model": "PDD", "valve": "TCV"}"""
    force = force or {}
    n = force.get("n_nodes") or rng.choice([2, 3, 4, 5, 6, 8, 10, 12, 15, 18, 22, 25] if not quick else [2, 3, 4, 5, 6, 7, 8, 10, 12, 15, 20, 25])
    n_src = 1 if n < 3 else rng.choice([1, 1, 2, 2, 3])
    n_src = min(n_src, n - 1)
    nodes, links, patterns, curves = [], [], {}, {}
    hyd = rng.choice([600, 900, 1800, 3600])
    pat_step = rng.choice([900, 1800, 3600, 7200])
    nsteps = rng.randint(2, 6 if quick else 12)
    rep = rng.choice([hyd, hyd, 2 * hyd, "ALL"])
    opts = {
        "demand_model": force.get("demand_model") or ("PDD" if rng.random() < 0.35 else "DD"),
        "hydraulic_timestep": hyd,
        "pattern_timestep": pat_step,
        "report_timestep": rep,
        "pattern_start": rng.choice([0, 0, pat_step, 2 * pat_step, pat_step // 2, 3 * pat_step + hyd]),
        "pattern_interpolation": rng.random() < 0.15,
        "demand_multiplier": rng.choice([1.0, 1.0, 0.5, 1.3, 2.0]),
        "duration": hyd * nsteps,
        "required_pressure": _r(rng, 10, 30, 2),
        "minimum_pressure": rng.choice([0.0, 0.0, _r(rng, 0.5, 5, 2)]),
        "pressure_exponent": 0.5,
    }
    hw_approx = force.get("hw_approx") or rng.choice(["default", "default", "piecewise"])
    # patterns
    for i in range(rng.randint(1, 3)):
        k = rng.choice([1, 2, 3, 4, 6, 24])
        mults = [_r(rng, 0.2, 2.0, 3) for _ in range(k)]
        if rng.random() < 0.25:
            mults[rng.randrange(k)] = 0.0
        if rng.random() < 0.15:
            mults[rng.randrange(k)] = -_r(rng, 0.2, 1.0, 3)  # a junction that injects for one period: flow reversals
        patterns["pat%d" % i] = mults
    pnames = sorted(patterns)
    # sources
    base_head = _r(rng, 60, 110, 2)
    for i in range(n_src):
        if i == 0 or rng.random() < 0.5:
            if i > 0 and rng.random() < 0.7 or (i == 0 and rng.random() < 0.35 and n >= 3):
                elev = _r(rng, base_head - 25, base_head - 5, 2)
                nodes.append({"name": "T%d" % i, "type": "tank", "elevation": elev, "init_level": _r(rng, 3, 8, 2),
                              "min_level": 0.0, "max_level": _r(rng, 9, 15, 2), "diameter": _r(rng, 5, 20, 2)})
            else:
                nodes.append({"name": "R%d" % i, "type": "reservoir", "head": _r(rng, base_head - 5, base_head + 10, 2),
                              "head_pattern": (rng.choice(pnames) if rng.random() < 0.1 else None)})
        else:
            elev = _r(rng, base_head - 25, base_head - 5, 2)
            nodes.append({"name": "T%d" % i, "type": "tank", "elevation": elev, "init_level": _r(rng, 3, 8, 2),
                          "min_level": 0.0, "max_level": _r(rng, 9, 15, 2), "diameter": _r(rng, 5, 20, 2)})
    if all(nd["type"] == "tank" for nd in nodes) and rng.random() < 0.7:
        nd = nodes[0]
        nodes[0] = {"name": "R0", "type": "reservoir", "head": _r(rng, base_head - 5, base_head + 10, 2), "head_pattern": None}
    for i in range(n - n_src):
        dem = []
        r = rng.random()
        ncat = 0 if r < 0.12 else (1 if r < 0.65 else rng.choice([2, 2, 3]))
        for c in range(ncat):
            dem.append({"base": _r(rng, 0.0002, 0.006, 5) if rng.random() < 0.93 else 0.0,
                        "pattern": (rng.choice(pnames) if rng.random() < 0.7 else None),
                        "category": (None if rng.random() < 0.5 else "cat%d" % c)})
        nodes.append({"name": "J%d" % i, "type": "junction", "elevation": _r(rng, 0, 45, 2), "demands": dem})
    names = [nd["name"] for nd in nodes]
    srcs = [nd["name"] for nd in nodes if nd["type"] != "junction"]
    juncs = [nd["name"] for nd in nodes if nd["type"] == "junction"]
    kind = {nd["name"]: nd["type"] for nd in nodes}
    lid = [0]

    def lname(p):
        lid[0] += 1
        return "%s%d" % (p, lid[0])

    def pipe(a, b, cv=False, status="OPEN"):
        return {"name": lname("P"), "type": "pipe", "start": a, "end": b, "length": _r(rng, 30, 900, 1),
                "diameter": rng.choice([0.1, 0.15, 0.2, 0.25, 0.3, 0.4, 0.5]), "roughness": float(rng.choice([70, 90, 100, 110, 130, 140])),
                "minor_loss": (0.0 if rng.random() < 0.6 else _r(rng, 0.1, 8, 2)), "check_valve": cv, "initial_status": status}

    def pump(a, b):
        if rng.random() < 0.8:
            cn = "curve%d" % (len(curves) + 1)
            curves[cn] = random_pump_curve(rng, force.get("curve_points"))
            return {"name": lname("PU"), "type": "pump", "start": a, "end": b, "pump_type": "HEAD", "curve": cn,
                    "initial_status": "OPEN" if rng.random() < 0.92 else "CLOSED"}
        d = {"name": lname("PW"), "type": "pump", "start": a, "end": b, "pump_type": "POWER", "power": _r(rng, 500, 15000, 1),
             "initial_status": "OPEN" if rng.random() < 0.92 else "CLOSED"}
        if rng.random() < 0.5:   # power pumps accept a speed; their law is the FIXED power whatever the speed
            d["speed"] = rng.choice([0.8, 1.2, 1.5])
        return d

    def valve(a, b, vt=None):
        vt = vt or force.get("valve") or rng.choice(VALVE_TYPES)
        elev = {nd["name"]: nd.get("elevation", 0.0) for nd in nodes}
        if vt == "PRV":  # below the unregulated downstream pressure most of the time, so that the valve throttles
            setting = round(max(2.0, (base_head - elev.get(b, 0.0)) * rng.uniform(0.3, 1.0)), 2)
        elif vt == "PSV":  # around the unregulated upstream pressure
            setting = round(max(2.0, (base_head - elev.get(a, 0.0)) * rng.uniform(0.6, 1.05)), 2)
        elif vt == "FCV":
            setting = _r(rng, 0.0005, 0.02, 5)
        else:
            setting = _r(rng, 0.5, 80, 2)
        return {"name": lname("V"), "type": "valve", "start": a, "end": b, "valve_type": vt, "diameter": rng.choice([0.1, 0.2, 0.3]),
                "minor_loss": (0.0 if rng.random() < 0.4 else _r(rng, 0.1, 10, 2)), "setting": setting,
                "initial_status": rng.choice(["ACTIVE", "ACTIVE", "ACTIVE", "OPEN", "CLOSED"])}

    # spanning tree: each new node attaches to an earlier one (sources first so that everything hangs off a source)
    order = srcs + rng.sample(juncs, len(juncs))
    feat = {"loop": False, "parallel": False, "pump_tank": False, "valve_tank": False}
    # sources other than the first are attached to junctions only (never source-source pipes without a junction)
    placed = [order[0]]
    for nm in order[1:]:
        cands = [p for p in placed if not (kind[p] != "junction" and kind[nm] != "junction")]
        if not cands:
            # second source before any junction: postpone by attaching later
            placed.append(nm)
            continue
        other = rng.choice(cands)
        a, b = (other, nm) if rng.random() < 0.7 else (nm, other)
        r = rng.random()
        if kind[nm] == "junction" and kind[other] != "junction" and r < 0.3:
            links.append(pump(other, nm))  # pump out of a source
            if kind[other] == "tank":
                feat["pump_tank"] = True
        elif kind[nm] == "junction" and kind[other] == "junction" and r < 0.12:
            links.append(valve(a, b))
        elif r < 0.2:
            links.append(pipe(a, b, cv=True))
        else:
            links.append(pipe(a, b))
        placed.append(nm)
    # sources that could not be attached (placed before a junction existed)
    attached = set()
    for l in links:
        attached.add(l["start"]); attached.add(l["end"])
    for s in srcs:
        if s not in attached and juncs:
            j = rng.choice(juncs)
            links.append(pipe(s, j) if rng.random() < 0.6 else pipe(j, s))
    # extras
    n_extra = rng.randint(0, max(1, n // 3))
    for _ in range(n_extra):
        r = rng.random()
        if r < 0.3 and len(links) > 0:
            l = rng.choice(links)
            a, b = (l["start"], l["end"]) if rng.random() < 0.6 else (l["end"], l["start"])
            if kind[a] != "junction" and kind[b] != "junction":
                continue
            rr = rng.random()
            if rr < 0.6:
                links.append(pipe(a, b, cv=rng.random() < 0.2))
            elif rr < 0.8 and kind[b] == "junction":
                links.append(pump(a, b))
            elif kind[a] == "junction" and kind[b] == "junction":
                links.append(valve(a, b))
            else:
                links.append(pipe(a, b))
            feat["parallel"] = True
        elif len(names) >= 3:
            a, b = rng.sample(names, 2)
            if kind[a] != "junction" and kind[b] != "junction":
                continue
            rr = rng.random()
            if rr < 0.7:
                links.append(pipe(a, b, cv=rng.random() < 0.15, status=("CLOSED" if rng.random() < 0.08 else "OPEN")))
            elif rr < 0.85 and kind[b] == "junction":
                links.append(pump(a, b))
            elif kind[a] == "junction" and kind[b] == "junction":
                links.append(valve(a, b))
            else:
                links.append(pipe(a, b))
            feat["loop"] = True
    # a link whose TWO ends are sources (tank-tank, reservoir-reservoir, reservoir-tank): pipe, TCV or pump
    if len(srcs) >= 2 and rng.random() < 0.45:
        a, b = rng.sample(srcs, 2)
        same = [(x, y) for x in srcs for y in srcs if x != y and kind[x] == kind[y]]
        if same and rng.random() < 0.7:
            a, b = rng.choice(same)
        r = rng.random()
        if r < 0.6:
            links.append(pipe(a, b, cv=rng.random() < 0.15))
        elif r < 0.8:
            links.append(valve(a, b, vt="TCV"))
        else:
            links.append(pump(a, b))
        feat["source_source"] = True
    # a valve / pump next to a tank now and then (valves only on junction-junction links inside WNTR's supported set;
    # next to a tank = sharing a junction with a tank pipe, or directly out of the tank for pumps)
    tanks = [nd["name"] for nd in nodes if nd["type"] == "tank"]
    if tanks and juncs and rng.random() < 0.8:
        t = rng.choice(tanks)
        j = rng.choice(juncs)
        r = rng.random()
        if r < 0.4:
            links.append(pump(t, j)); feat["pump_tank"] = True
        elif r < 0.6:
            # only TCVs may touch a tank directly (add_valve refuses PRV/PSV/FCV there)
            links.append(valve(t, j, vt="TCV") if rng.random() < 0.5 else valve(j, t, vt="TCV")); feat["valve_tank"] = True
        else:
            # any valve type one pipe away from the tank
            nb = [l for l in links if l["type"] == "pipe" and t in (l["start"], l["end"])]
            if nb:
                l = rng.choice(nb)
                ja = l["end"] if l["start"] == t else l["start"]
                others = [x for x in juncs if x != ja]
                if kind[ja] == "junction" and others:
                    jb = rng.choice(others)
                    links.append(valve(ja, jb) if rng.random() < 0.5 else valve(jb, ja)); feat["valve_tank"] = True
    # a volume curve on some tanks (level -> volume, wider towards the top): only the level update uses it, the tank's reported
    # demand must still be its net inflow
    for nd in nodes:
        if nd["type"] == "tank" and rng.random() < 0.3:
            a0 = math.pi * nd["diameter"] ** 2 / 4.0
            top = nd["max_level"] + 2.0
            nd["vol_curve"] = [(0.0, 0.0), (round(top / 2, 2), round(a0 * top / 2 * 0.8, 2)), (round(top, 2), round(a0 * top * 1.1, 2))]
    # leaks
    for nd in nodes:
        if nd["type"] in ("junction", "tank") and rng.random() < (0.12 if nd["type"] == "junction" else 0.3):
            st = rng.choice([0, 0, hyd, 2 * hyd])
            nd["leak"] = {"area": _r(rng, 1e-5, 4e-4, 6), "cd": rng.choice([0.75, 0.6, 1.0]), "start": st,
                          "end": rng.choice([None, None, st + 2 * hyd])}
    if opts["demand_model"] == "PDD":
        for nd in nodes:
            if nd["type"] == "junction" and rng.random() < 0.2:
                nd["required_pressure"] = _r(rng, 8, 35, 2)
                nd["minimum_pressure"] = _r(rng, 0, 3, 2)
    spec = {"nodes": nodes, "links": links, "patterns": patterns, "curves": curves, "options": opts,
            "hw_approx": hw_approx, "features": feat}
    if any(l["type"] == "valve" for l in links) and rng.random() < 0.5:
        add_setting_controls(rng, spec, p=0.7)
    if rng.random() < 0.35:
        add_name_collisions(rng, spec)
    if rng.random() < 0.3:
        add_pattern_inplace(rng, spec)
    if rng.random() < 0.35:
        add_pattern_objects(rng, spec)
    if rng.random() < 0.35:
        add_refused_calls(rng, spec)
    return spec


def build_wn(wntr, spec):
    wn = wntr.network.WaterNetworkModel()
    o = spec["options"]
    wn.options.time.hydraulic_timestep = o["hydraulic_timestep"]
    wn.options.time.pattern_timestep = o["pattern_timestep"]
    wn.options.time.report_timestep = o["report_timestep"]
    wn.options.time.pattern_start = o["pattern_start"]
    wn.options.time.pattern_interpolation = bool(o.get("pattern_interpolation", False))
    wn.options.time.duration = o["duration"]
    wn.options.hydraulic.demand_model = o["demand_model"]
    wn.options.hydraulic.demand_multiplier = o["demand_multiplier"]
    wn.options.hydraulic.required_pressure = o["required_pressure"]
    wn.options.hydraulic.minimum_pressure = o["minimum_pressure"]
    wn.options.hydraulic.pressure_exponent = o["pressure_exponent"]
    if o.get("trials") is not None:
        wn.options.hydraulic.trials = o["trials"]
    if o.get("unbalanced") is not None:
        wn.options.hydraulic.unbalanced = o["unbalanced"]
    for pn, mults in spec["patterns"].items():
        po = spec.get("pattern_objects", {}).get(pn)
        if po is not None:   # a Pattern OBJECT that carries foreign time options (start, step): the model must re-bind it to ITS clock
            from wntr.network.elements import Pattern

            wn.add_pattern(pn, Pattern(pn, multipliers=list(mults), time_options=(int(po[0]), int(po[1]))))
        else:
            wn.add_pattern(pn, list(mults))
    for e in spec.get("pattern_inplace", []):   # element-wise edits through the array `Pattern.multipliers` returns
        apply_pattern_inplace(wn.get_pattern(e["name"]).multipliers, e)
    for cn, pts in spec["curves"].items():
        wn.add_curve(cn, "HEAD", [tuple(p) for p in pts])
    for nm in spec.get("extra_patterns", []):    # names colliding with link / node names
        if nm not in spec["patterns"]:
            wn.add_pattern(nm, [1.0, 2.0])
    for nm in spec.get("extra_curves", []):
        if nm not in spec["curves"]:
            wn.add_curve(nm, "HEAD", [(0.01, 10.0)])
    for nd in spec["nodes"]:
        if nd["type"] == "junction":
            dem = nd.get("demands", [])
            if dem:
                d0 = dem[0]
                wn.add_junction(nd["name"], base_demand=d0["base"], demand_pattern=d0["pattern"], elevation=nd["elevation"],
                                demand_category=d0["category"])
                j = wn.get_node(nd["name"])
                for d in dem[1:]:
                    j.add_demand(d["base"], d["pattern"], d["category"])
            else:
                wn.add_junction(nd["name"], base_demand=0.0, elevation=nd["elevation"])
                j = wn.get_node(nd["name"])
                if nd.get("no_demand_entry"):
                    del j.demand_timeseries_list[:]
            if "required_pressure" in nd:
                j.required_pressure = nd["required_pressure"]
                j.minimum_pressure = nd["minimum_pressure"]
        elif nd["type"] == "tank":
            vc = None
            if nd.get("vol_curve"):
                vc = "vc_" + nd["name"]
                wn.add_curve(vc, "VOLUME", [tuple(p) for p in nd["vol_curve"]])
            wn.add_tank(nd["name"], elevation=nd["elevation"], init_level=nd["init_level"], min_level=nd["min_level"],
                        max_level=nd["max_level"], diameter=nd["diameter"], vol_curve=vc)
        else:
            wn.add_reservoir(nd["name"], base_head=nd["head"], head_pattern=nd.get("head_pattern"))
    for l in spec["links"]:
        if l["type"] == "pipe":
            wn.add_pipe(l["name"], l["start"], l["end"], length=l["length"], diameter=l["diameter"], roughness=l["roughness"],
                        minor_loss=l["minor_loss"], initial_status=l.get("initial_status", "OPEN"), check_valve=l.get("check_valve", False))
        elif l["type"] == "pump":
            if l["pump_type"] == "HEAD":
                wn.add_pump(l["name"], l["start"], l["end"], "HEAD", l["curve"], initial_status=l.get("initial_status", "OPEN"))
            else:
                wn.add_pump(l["name"], l["start"], l["end"], "POWER", l["power"], speed=l.get("speed", 1.0), initial_status=l.get("initial_status", "OPEN"))
        else:
            wn.add_valve(l["name"], l["start"], l["end"], diameter=l["diameter"], valve_type=l["valve_type"], minor_loss=l["minor_loss"],
                         initial_setting=l["setting"], initial_status=l.get("initial_status", "ACTIVE"))
    # construction calls that the model must REFUSE without touching what exists (duplicate names, unknown nodes); errors are caught
    for rc in spec.get("refused_calls", []):
        try:
            if rc["kind"] == "pipe":
                wn.add_pipe(rc["name"], rc["start"], rc["end"], length=10.0, diameter=0.1, roughness=100.0)
            elif rc["kind"] == "pump":
                wn.add_pump(rc["name"], rc["start"], rc["end"], "POWER", 100.0)
            elif rc["kind"] == "valve":
                wn.add_valve(rc["name"], rc["start"], rc["end"], diameter=0.1, valve_type="TCV", minor_loss=0.0, initial_setting=1.0)
            elif rc["kind"] == "junction":
                wn.add_junction(rc["name"], base_demand=0.5, elevation=0.0)
        except Exception:
            pass
    for nd in spec["nodes"]:
        lk = nd.get("leak")
        if lk:
            wn.get_node(nd["name"]).add_leak(wn, area=lk["area"], discharge_coeff=lk["cd"], start_time=lk["start"], end_time=lk["end"])
    for sc in spec.get("sources", []):   # water-quality sources (ignored by the hydraulics), possibly NAMED LIKE A LINK at the same node
        wn.add_source(sc["name"], sc["node"], "CONCEN", 1.0)
    # time controls / rules that change a valve's SETTING during the run (TCV loss coefficient, PRV / PSV pressure, FCV flow)
    if spec.get("controls"):
        import wntr.network.controls as CT

        for i, c in enumerate(spec["controls"]):
            link = wn.get_link(c["link"])
            if c.get("attr") == "base_speed":
                act = CT.ControlAction(link, "base_speed", c["value"])
            elif c.get("attr", "setting") == "status":
                act = CT.ControlAction(link, "status", {"CLOSED": wntr.network.LinkStatus.Closed, "OPEN": wntr.network.LinkStatus.Open}[c["value"]])
            else:
                act = CT.ControlAction(link, "setting", c["value"])
            cd = c.get("cond")
            if cd is None:
                cond = CT.SimTimeCondition(wn, "=", int(c["time"]))
            elif "other" in cd:   # post-solve: one junction's pressure against another's
                cond = CT.RelativeCondition(wn.get_node(cd["node"]), "pressure", cd["rel"], wn.get_node(cd["other"]), "pressure")
            else:                 # post-solve: a junction's pressure against a threshold
                cond = CT.ValueCondition(wn.get_node(cd["node"]), "pressure", cd["rel"], cd["thr"])
            if c.get("kind") == "rule":
                wn.add_control("setrule%d" % i, CT.Rule(cond, [act], name="setrule%d" % i))
            else:
                wn.add_control("setctl%d" % i, CT.Control(cond, act, name="setctl%d" % i))
    # post-construction edits of the topology (C01 reversal family): wntr.morph.link.reverse_link and the end-node setters
    for e in spec.get("edits", []):
        if e["op"] == "reverse":
            wntr.morph.link.reverse_link(wn, e["link"], return_copy=False)
        elif e["op"] == "set_end":
            wn.get_link(e["link"]).end_node = wn.get_node(e["node"])
        elif e["op"] == "set_start":
            wn.get_link(e["link"]).start_node = wn.get_node(e["node"])
        else:
            raise ValueError("unknown edit %r" % (e,))
    # add_valve stores `initial_status` only; the documented way to make a model ready to (re)run
    wn.reset_initial_values()
    return wn


def add_setting_controls(rng, spec, p=1.0):
    """give (with probability p each) every valve a time control or rule that changes its setting at a later hydraulic step"""
    o = spec["options"]
    hyd, dur = o["hydraulic_timestep"], o["duration"]
    if dur < hyd:
        return spec
    ctl = spec.setdefault("controls", [])
    for l in spec["links"]:
        if l["type"] != "valve" or rng.random() > p:
            continue
        vt, s0 = l["valve_type"], l["setting"]
        if vt == "TCV":
            new = round(s0 * rng.choice([10.0, 0.1, 3.0]) + rng.choice([0.0, 5.0]), 3)
        elif vt == "FCV":
            new = round(s0 * rng.uniform(0.4, 1.4), 6)
        else:
            new = round(s0 * rng.uniform(0.6, 1.08), 2)
        k = rng.randint(1, max(1, dur // hyd))
        ctl.append({"link": l["name"], "value": new, "time": k * hyd, "kind": rng.choice(["control", "control", "rule"])})
        if rng.random() < 0.4 and (k + 1) * hyd <= dur:
            ctl.append({"link": l["name"], "value": s0, "time": (k + 1) * hyd, "kind": "control"})
    spec.setdefault("features", {})["setting_controls"] = bool(ctl)
    return spec


def apply_pattern_inplace(arr, e):
    """the same element-wise operation on a numpy array (the real pattern) or a list (the spec)"""
    if "scale" in e:
        if isinstance(arr, list):
            arr[:] = [m * e["scale"] for m in arr]
        else:
            arr *= e["scale"]
    else:
        arr[e["index"] % len(arr)] = e["value"]


def effective_patterns(spec):
    """pattern multipliers after the spec's in-place element edits"""
    pats = {k: list(v) for k, v in spec["patterns"].items()}
    for e in spec.get("pattern_inplace", []):
        apply_pattern_inplace(pats[e["name"]], e)
    return pats


def add_refused_calls(rng, spec):
    """add_* calls that must be refused: an EXISTING link's name with one of its own end nodes (and another node), every link kind; an unknown
    node; an existing node's name"""
    links = effective_links(spec)
    names = [n["name"] for n in spec["nodes"]]
    calls = []
    for l in rng.sample(links, min(len(links), rng.randint(1, 3))):
        other = rng.choice([n for n in names if n != l["start"]] or names)
        calls.append({"kind": rng.choice(["pipe", "pump", "valve"]), "name": l["name"], "start": l["start"], "end": other})
        calls.append({"kind": "pipe", "name": l["name"], "start": other, "end": l["end"]})
    calls.append({"kind": "pipe", "name": "Pnew_unknown", "start": names[0], "end": "NO_SUCH_NODE"})
    calls.append({"kind": "junction", "name": rng.choice(names)})
    spec["refused_calls"] = calls
    spec.setdefault("features", {})["refused_calls"] = True
    return spec


def add_pattern_objects(rng, spec):
    """demand / head patterns added as Pattern objects with foreign time options (start, step) different from the model's"""
    o = spec["options"]
    spec["pattern_objects"] = {pn: [rng.choice([0, 1800, 7200]), rng.choice([x for x in (900, 1800, 3600, 7200, 5400) if x != o["pattern_timestep"]])]
                               for pn in sorted(spec["patterns"]) if rng.random() < 0.7}
    spec.setdefault("features", {})["pattern_objects"] = bool(spec["pattern_objects"])
    return spec


def add_name_collisions(rng, spec):
    """names colliding ACROSS element kinds: sources named like a link that touches their node (and like the node itself), unused patterns
    named like links, unused curves named like nodes"""
    links = effective_links(spec)
    srcs = []
    for l in rng.sample(links, min(len(links), rng.randint(1, 3))):
        node = rng.choice([l["start"], l["end"]])
        if not any(s["name"] == l["name"] for s in srcs):
            srcs.append({"name": l["name"], "node": node})
    nd = rng.choice(spec["nodes"])["name"]
    if not any(s["name"] == nd for s in srcs):
        srcs.append({"name": nd, "node": nd})
    spec["sources"] = srcs
    spec["extra_patterns"] = [rng.choice(links)["name"], rng.choice(spec["nodes"])["name"]]
    spec["extra_curves"] = [rng.choice(spec["nodes"])["name"], rng.choice(links)["name"]]
    spec.setdefault("features", {})["name_collisions"] = True
    return spec


def add_pattern_inplace(rng, spec):
    """element-wise edits of pattern multipliers BEFORE the first run"""
    eds = spec.setdefault("pattern_inplace", [])
    for pn in sorted(spec["patterns"]):
        if len(spec["patterns"][pn]) >= 1 and rng.random() < 0.7:
            if rng.random() < 0.5:
                eds.append({"name": pn, "index": rng.randrange(len(spec["patterns"][pn])), "value": _r(rng, 0.3, 2.6, 3)})
            else:
                eds.append({"name": pn, "scale": rng.choice([1.5, 0.5, 1.25])})
    spec.setdefault("features", {})["pattern_inplace"] = bool(eds)
    return spec


def apply_second_edits(wntr, wn, spec):
    """edit the DEFINITION of an already simulated network through public setters (spec['second']['edits']) and return the spec that
    describes the network as it is THEN (what the oracles of the second run must use)"""
    import copy

    sp = copy.deepcopy(spec)
    sec = sp.pop("second")
    links = {l["name"]: l for l in sp["links"]}
    nodes = {n["name"]: n for n in sp["nodes"]}
    for e in sec["edits"]:
        op = e["op"]
        if op == "curve_points":
            wn.get_curve(e["curve"]).points = [tuple(p) for p in e["points"]]
            sp["curves"][e["curve"]] = [list(p) for p in e["points"]]
        elif op == "pump_curve":
            wn.get_link(e["link"]).pump_curve_name = e["curve"]
            links[e["link"]]["curve"] = e["curve"]
        elif op == "link_attr":   # roughness, diameter, length, minor_loss, power
            setattr(wn.get_link(e["link"]), e["attr"], e["value"])
            links[e["link"]][e["attr"]] = e["value"]
        elif op == "valve_initial_setting":
            wn.get_link(e["link"]).initial_setting = e["value"]
            links[e["link"]]["setting"] = e["value"]
        elif op == "pattern":
            wn.get_pattern(e["name"]).multipliers = list(e["mults"])
            sp["patterns"][e["name"]] = list(e["mults"])
            sp["pattern_inplace"] = [x for x in sp.get("pattern_inplace", []) if x["name"] != e["name"]]
        elif op == "pattern_inplace":
            apply_pattern_inplace(wn.get_pattern(e["name"]).multipliers, e)
            sp.setdefault("pattern_inplace", []).append({k: v for k, v in e.items() if k != "op"})
        elif op == "base_demand":
            wn.get_node(e["node"]).demand_timeseries_list[e["index"]].base_value = e["value"]
            nodes[e["node"]]["demands"][e["index"]]["base"] = e["value"]
        elif op == "demand_multiplier":
            wn.options.hydraulic.demand_multiplier = e["value"]
            sp["options"]["demand_multiplier"] = e["value"]
        elif op == "hw_approx":
            sp["hw_approx"] = e["value"]
        else:
            raise ValueError("unknown second-run edit %r" % (e,))
    if sec.get("reset"):
        wn.reset_initial_values()
        sp["controls"] = sp.get("controls", [])
    else:
        wn.options.time.duration = sp["options"]["duration"] + sec.get("extend", 2) * sp["options"]["hydraulic_timestep"]
        sp["options"]["duration"] = wn.options.time.duration
    return sp, sec


def add_second_run(rng, spec):
    """attach a run -> edit -> run plan: 1-4 edits of the definition applicable to this network"""
    edits = []
    heads = [l for l in spec["links"] if l["type"] == "pump" and l["pump_type"] == "HEAD"]
    pipes = [l for l in spec["links"] if l["type"] == "pipe"]
    valves = [l for l in spec["links"] if l["type"] == "valve"]
    powers = [l for l in spec["links"] if l["type"] == "pump" and l["pump_type"] == "POWER"]
    reset = rng.random() < 0.5
    for l in heads:
        pts = spec["curves"][l["curve"]]
        if rng.random() < 0.75:   # same number of points, a different pump
            f = rng.uniform(0.6, 0.85)
            edits.append({"op": "curve_points", "curve": l["curve"], "points": [[p[0], round(p[1] * f, 3)] for p in pts]})
        elif len(heads) == 1:
            cn = "curveX"
            spec["curves"][cn] = random_pump_curve(rng)
            edits.append({"op": "pump_curve", "link": l["name"], "curve": cn})
    for l in rng.sample(pipes, min(len(pipes), 2)):
        attr = rng.choice(["roughness", "diameter", "length", "minor_loss"])
        val = {"roughness": float(rng.choice([60, 80, 120, 150])), "diameter": rng.choice([0.12, 0.18, 0.35]), "length": _r(rng, 50, 1200, 1),
               "minor_loss": _r(rng, 0.5, 12, 2)}[attr]
        edits.append({"op": "link_attr", "link": l["name"], "attr": attr, "value": val})
    for l in powers[:1]:
        edits.append({"op": "link_attr", "link": l["name"], "attr": "power", "value": _r(rng, 500, 15000, 1)})
    if valves and reset:
        l = rng.choice(valves)
        new = round(l["setting"] * (5.0 if l["valve_type"] == "TCV" else 0.8), 6)
        edits.append({"op": "valve_initial_setting", "link": l["name"], "value": new})
    if spec["patterns"] and rng.random() < 0.8:
        pn = rng.choice(sorted(spec["patterns"]))
        r = rng.random()
        if r < 0.4:
            edits.append({"op": "pattern", "name": pn, "mults": [round(abs(m) * rng.uniform(0.5, 1.5) + 0.05, 3) for m in spec["patterns"][pn]]})
        elif r < 0.7:
            edits.append({"op": "pattern_inplace", "name": pn, "index": rng.randrange(len(spec["patterns"][pn])), "value": _r(rng, 0.3, 2.6, 3)})
        else:
            edits.append({"op": "pattern_inplace", "name": pn, "scale": rng.choice([1.5, 0.6])})
    js = [n for n in spec["nodes"] if n["type"] == "junction" and n.get("demands")]
    if js and rng.random() < 0.7:
        n = rng.choice(js)
        edits.append({"op": "base_demand", "node": n["name"], "index": len(n["demands"]) - 1, "value": _r(rng, 0.0005, 0.008, 5)})
    if rng.random() < 0.3:
        edits.append({"op": "demand_multiplier", "value": rng.choice([0.7, 1.5])})
    if rng.random() < 0.3:
        edits.append({"op": "hw_approx", "value": "piecewise" if spec.get("hw_approx") != "piecewise" else "default"})
    spec["second"] = {"edits": edits, "reset": reset, "new_sim": rng.random() < 0.5, "extend": rng.randint(1, 3)}
    spec.setdefault("features", {})["edit_between_runs"] = True
    return spec


def effective_links(spec):
    """the link dicts with the start / end nodes they have AFTER spec['edits'] (what the oracles must use)"""
    links = [dict(l) for l in spec["links"]]
    by = {l["name"]: l for l in links}
    for e in spec.get("edits", []):
        l = by[e["link"]]
        if e["op"] == "reverse":
            l["start"], l["end"] = l["end"], l["start"]
        elif e["op"] == "set_end":
            l["end"] = e["node"]
        elif e["op"] == "set_start":
            l["start"] = e["node"]
    return links


def add_reversal_edits(rng, spec):
    """reverse 1-3 links in place (pipes, CV pipes, TCVs, sometimes a pump) and, half of the time, re-assign one end of a pipe
    to another node -- preferably a tank -- keeping every node attached to at least one link"""
    kind = {nd["name"]: nd["type"] for nd in spec["nodes"]}
    edits = []
    cand = [l for l in spec["links"] if l["type"] == "pipe" or (l["type"] == "valve" and l["valve_type"] == "TCV")
            or (l["type"] == "pump" and rng.random() < 0.2 and kind[l["start"]] == "junction")]
    rng.shuffle(cand)
    for l in cand[: rng.randint(1, 3)]:
        edits.append({"op": "reverse", "link": l["name"]})
    spec["edits"] = edits
    if rng.random() < 0.6:
        links = effective_links(spec)
        deg = {}
        for l in links:
            deg[l["start"]] = deg.get(l["start"], 0) + 1
            deg[l["end"]] = deg.get(l["end"], 0) + 1
        tanks = [n for n, k in kind.items() if k == "tank"]
        pipes = [l for l in links if l["type"] == "pipe"]
        rng.shuffle(pipes)
        for l in pipes:
            which = rng.choice(["end", "start"])
            old, other = l[which], l["start" if which == "end" else "end"]
            if deg.get(old, 0) < 2 or kind[other] != "junction":
                continue
            targets = [t for t in tanks if t not in (old, other)] if (tanks and rng.random() < 0.7) else \
                      [n for n, k in kind.items() if k == "junction" and n not in (old, other)]
            if not targets:
                continue
            edits.append({"op": "set_" + which, "link": l["name"], "node": rng.choice(targets)})
            if rng.random() < 0.5:  # and reverse the re-assigned link as well
                edits.append({"op": "reverse", "link": l["name"]})
            break
    spec.setdefault("features", {})["reversal_family"] = True
    return spec


def spec_signature(spec):
    """coarse structural signature (for evidence 'distinct' counts)"""
    kinds = sorted((l["type"], l.get("pump_type") or l.get("valve_type") or ("cv" if l.get("check_valve") else "")) for l in spec["links"])
    return (len(spec["nodes"]), len(spec["links"]), tuple(kinds), spec["options"]["demand_model"], spec["hw_approx"],
            spec["options"]["hydraulic_timestep"], spec["options"]["pattern_timestep"], spec["options"]["pattern_start"])


# ----------------------------------------------------------------------------- directed scenarios

SCENARIOS = ["psv", "prv", "fcv", "tcv", "pump_shutoff", "cv_reverse", "power_pump", "pump_curves", "cv_htol", "pump_points", "tank_tank", "cutset", "cv_cascade", "tank_limit", "head_pattern"]


def _opts(rng, **kw):
    hyd = rng.choice([900, 1800, 3600])
    o = {"demand_model": "DD", "hydraulic_timestep": hyd, "pattern_timestep": rng.choice([1800, 3600]),
         "report_timestep": hyd, "pattern_start": rng.choice([0, 3600]), "pattern_interpolation": False,
         "demand_multiplier": 1.0, "duration": hyd * rng.randint(2, 4), "required_pressure": 20.0,
         "minimum_pressure": 0.0, "pressure_exponent": 0.5}
    o.update(kw)
    return o


def _pipe(name, a, b, L=200.0, d=0.3, C=100.0, K=0.0, cv=False, status="OPEN"):
    return {"name": name, "type": "pipe", "start": a, "end": b, "length": L, "diameter": d, "roughness": C,
            "minor_loss": K, "check_valve": cv, "initial_status": status}


def _junc(name, elev, base=0.0, pattern=None):
    return {"name": name, "type": "junction", "elevation": elev,
            "demands": ([{"base": base, "pattern": pattern, "category": None}] if base or pattern else [])}


def scenario_network(rng, name, variant=0):
    """small directed networks that put one element into the state the random generator rarely reaches;
    `variant` cycles the valve's initial status (0: ACTIVE, 1: CLOSED, 2: OPEN, 3: ACTIVE)"""
    pats = {"pat0": [1.0, _r(rng, 0.3, 0.8, 2), _r(rng, 1.2, 1.9, 2), 1.0]}
    curves = {}
    H = _r(rng, 90, 110, 1)
    approx = rng.choice(["default", "piecewise"])
    opts = _opts(rng, demand_model=rng.choice(["DD", "DD", "PDD"]))
    if name in ("psv", "prv", "fcv", "tcv"):
        ea, eb = _r(rng, 5, 15, 1), _r(rng, 0, 10, 1)
        d1, d2 = _r(rng, 0.002, 0.01, 4), _r(rng, 0.005, 0.03, 4)
        nodes = [{"name": "R0", "type": "reservoir", "head": H, "head_pattern": None},
                 {"name": "R1", "type": "reservoir", "head": round(H - rng.uniform(25, 45), 1), "head_pattern": None},
                 _junc("JA", ea, d1, "pat0"), _junc("JB", eb, d2, "pat0"), _junc("JC", eb, d2 / 2)]
        links = [_pipe("P1", "R0", "JA", L=_r(rng, 300, 1500, 0), d=(rng.choice([0.1, 0.15]) if name == "psv" else rng.choice([0.15, 0.2, 0.25]))),
                 _pipe("P2", "JB", "JC", L=150.0, d=0.2),
                 _pipe("P3", "R1", "JC", L=_r(rng, 300, 900, 0), d=0.2, cv=True)]
        vt = name.upper()
        if vt == "PSV":
            setting = round((H - ea) * rng.uniform(0.9, 0.995), 2)
        elif vt == "PRV":
            setting = round((H - eb) * rng.uniform(0.3, 0.8), 2)
        elif vt == "FCV":
            setting = round((d2 * 1.5) * rng.uniform(0.2, 0.9), 5)
        else:
            setting = _r(rng, 1, 200, 1)
        links.append({"name": "V1", "type": "valve", "start": "JA", "end": "JB", "valve_type": vt, "diameter": 0.2,
                      "minor_loss": rng.choice([0.0, 2.5]), "setting": setting,
                      "initial_status": ["ACTIVE", "CLOSED", "OPEN", "ACTIVE"][variant % 4]})
    elif name == "pump_shutoff":
        # R0 -pump-> J -pipe-> R1 with R1 around the pump's shut-off head
        npts = rng.choice([1, 2, 3])
        curves["c1"] = random_pump_curve(rng, npts, zero_start=True)
        h0 = curves["c1"][0][1] * (4.0 / 3.0 if npts == 1 else 1.0)  # shut-off head (2-point: of the straight line if q0 = 0)
        off = rng.choice([0.0000762, -0.0000762, 0.00014, -0.5, -3.0, 0.5, 2.0, -0.01])
        nodes = [{"name": "R0", "type": "reservoir", "head": 20.0, "head_pattern": None},
                 {"name": "R1", "type": "reservoir", "head": 20.0 + h0 + off, "head_pattern": None},
                 _junc("J0", 5.0, rng.choice([0.0, 0.0, 0.001]))]
        links = [{"name": "PU1", "type": "pump", "start": "R0", "end": "J0", "pump_type": "HEAD", "curve": "c1", "initial_status": "OPEN"},
                 _pipe("P1", "J0", "R1", L=100.0, d=0.3)]
    elif name == "pump_points":
        # R0 -pump-> J0 -pipe-> J1: the demand visits the flow of every curve point (and flows between them), so the reported
        # (flow, head gain) of the open pump must BE the curve points; 3-point and multi-point curves, first point at Q > 0 mostly
        npts = [3, 4, 3, 5, 6, 3][variant % 6] if variant else rng.choice([3, 3, 4, 5])
        pts = random_pump_curve(rng, npts, zero_start=(rng.random() < 0.25))
        curves["c1"] = pts
        qs = [q for q, h in pts if q > 0]
        qs += [round((a + b) / 2, 5) for a, b in zip(qs, qs[1:])]
        base = qs[0]
        pats["dq"] = [round(q / base, 9) for q in qs]
        opts = _opts(rng, demand_model="DD")
        opts.update({"hydraulic_timestep": 3600, "pattern_timestep": 3600, "report_timestep": 3600, "pattern_start": 0,
                     "duration": 3600 * (len(qs) - 1)})
        nodes = [{"name": "R0", "type": "reservoir", "head": _r(rng, 5, 30, 1), "head_pattern": None},
                 _junc("J0", 0.0, base, "dq"), _junc("J1", 0.0)]
        links = [{"name": "PU1", "type": "pump", "start": "R0", "end": "J0", "pump_type": "HEAD", "curve": "c1", "initial_status": "OPEN"},
                 _pipe("P1", "J0", "J1", L=10.0, d=0.3)]
    elif name == "tank_tank":
        # links whose two ends are both tanks / both reservoirs (pipe, TCV, pump), carrying flow; leak on the END tank or not
        lk = [None, {"area": _r(rng, 5e-5, 4e-4, 6), "cd": 0.75, "start": 0, "end": None}][variant % 2 if variant else rng.randrange(2)]
        t1 = {"name": "T1", "type": "tank", "elevation": _r(rng, 30, 40, 1), "init_level": _r(rng, 2, 5, 1), "min_level": 0.0, "max_level": 15.0, "diameter": _r(rng, 6, 12, 1)}
        if lk:
            t1["leak"] = lk
        nodes = [{"name": "R0", "type": "reservoir", "head": _r(rng, 70, 80, 1), "head_pattern": None},
                 {"name": "R1", "type": "reservoir", "head": _r(rng, 55, 65, 1), "head_pattern": None},
                 {"name": "T0", "type": "tank", "elevation": _r(rng, 45, 55, 1), "init_level": _r(rng, 4, 8, 1), "min_level": 0.0, "max_level": 15.0, "diameter": _r(rng, 6, 12, 1)},
                 t1, _junc("J0", 5.0, _r(rng, 0.002, 0.01, 4), "pat0"), _junc("J1", 8.0, _r(rng, 0.002, 0.01, 4))]
        links = [_pipe("P1", "R0", "J0", L=300.0, d=0.3), _pipe("P2", "J0", "T0", L=200.0, d=0.25), _pipe("P3", "T1", "J1", L=150.0, d=0.2),
                 _pipe("P4", "J1", "R1", L=400.0, d=0.2),
                 _pipe("PTT", "T0", "T1", L=_r(rng, 100, 400, 0), d=rng.choice([0.1, 0.15, 0.2])),
                 _pipe("PTTr", "T1", "T0", L=_r(rng, 100, 400, 0), d=0.1),
                 {"name": "VTT", "type": "valve", "start": "T0", "end": "T1", "valve_type": "TCV", "diameter": 0.1, "minor_loss": 1.0,
                  "setting": _r(rng, 5, 60, 1), "initial_status": "ACTIVE"},
                 _pipe("PRR", "R0", "R1", L=_r(rng, 500, 1500, 0), d=rng.choice([0.1, 0.15]), K=2.0),
                 _pipe("PRRr", "R1", "R0", L=800.0, d=0.1)]
        if rng.random() < 0.6:
            curves["c1"] = [(0.02, _r(rng, 8, 20, 1))]
            links.append({"name": "PUTT", "type": "pump", "start": "T1", "end": "T0", "pump_type": "HEAD", "curve": "c1", "initial_status": "OPEN"})
        opts = _opts(rng, demand_model=["DD", "PDD"][(variant // 2) % 2 if variant else rng.randrange(2)])
    elif name == "cutset":
        # (anti-)parallel pairs that are CUT SETS: R0 =(PA, PB)= J0 =(P2, P2b)= J1 - J2.  One member of a pair closed (initially / by a
        # time control / reopened later) must NOT cut anything off; both members closed cuts J1, J2 off while J1's leak is on.
        v = variant % 6
        anti1, anti2 = (v % 2 == 0), (v % 3 != 1)
        opts = _opts(rng, demand_model=("PDD" if v in (1, 3) else "DD"))
        hyd = opts["hydraulic_timestep"]
        opts["duration"] = 5 * hyd
        nodes = [{"name": "R0", "type": "reservoir", "head": _r(rng, 50, 70, 1), "head_pattern": None},
                 _junc("J0", 5.0, _r(rng, 0.002, 0.008, 4), "pat0"), _junc("J1", 8.0, _r(rng, 0.002, 0.008, 4)), _junc("J2", 6.0, _r(rng, 0.001, 0.004, 4), "pat0")]
        nodes[2]["leak"] = {"area": _r(rng, 5e-5, 3e-4, 6), "cd": 0.75, "start": 0, "end": None}
        if rng.random() < 0.5:
            nodes[3]["leak"] = {"area": 1e-4, "cd": 0.6, "start": hyd, "end": 4 * hyd}
        first_closed = (v % 3 == 0)
        links = [_pipe("PA", "R0", "J0", L=200.0, d=0.25, status="CLOSED" if first_closed else "OPEN"),
                 _pipe("PB", *(("J0", "R0") if anti1 else ("R0", "J0")), L=250.0, d=0.25),
                 _pipe("P2", "J0", "J1", L=150.0, d=0.2),
                 _pipe("P2b", *(("J1", "J0") if anti2 else ("J0", "J1")), L=180.0, d=0.2),
                 _pipe("P3", "J1", "J2", L=100.0, d=0.15)]
        ctl = []
        if not first_closed:
            ctl += [{"link": "PA", "attr": "status", "value": "CLOSED", "time": hyd, "kind": "control"}]
            if rng.random() < 0.6:
                ctl += [{"link": "PA", "attr": "status", "value": "OPEN", "time": 3 * hyd, "kind": "control"}]
        m2 = v % 3
        if m2 == 0:    # only the first-defined member of the second pair closes, later reopens
            ctl += [{"link": "P2", "attr": "status", "value": "CLOSED", "time": 2 * hyd, "kind": "control"},
                    {"link": "P2", "attr": "status", "value": "OPEN", "time": 4 * hyd, "kind": "rule"}]
        elif m2 == 1:  # both members close: J1, J2 are really cut off (leak on J1 still switched on), then reconnected
            ctl += [{"link": "P2", "attr": "status", "value": "CLOSED", "time": 2 * hyd, "kind": "control"},
                    {"link": "P2b", "attr": "status", "value": "CLOSED", "time": 2 * hyd, "kind": "control"},
                    {"link": "P2b", "attr": "status", "value": "OPEN", "time": 4 * hyd, "kind": "control"}]
        else:          # the downstream pipe closes: J2 alone is cut off
            ctl += [{"link": "P3", "attr": "status", "value": "CLOSED", "time": hyd, "kind": "control"},
                    {"link": "P2b", "attr": "status", "value": "CLOSED", "time": 3 * hyd, "kind": "control"}]
        curves = {}
    elif name == "cv_cascade":
        # a chain of check-valve pipes fed from R0 towards R1 whose head pattern steps ABOVE R0's: the CVs close one after the other
        # (each closing changes the heads that decide the next one), so the status iteration of that step needs several trials
        pats["up"] = [1.0, 1.0, _r(rng, 1.15, 1.3, 2), _r(rng, 1.15, 1.3, 2), 1.0]
        n_cv = rng.choice([2, 3, 3, 4])
        opts = _opts(rng, demand_model="DD")
        opts.update({"hydraulic_timestep": 3600, "pattern_timestep": 3600, "report_timestep": 3600, "pattern_start": 0, "duration": 4 * 3600})
        nodes = [{"name": "R0", "type": "reservoir", "head": 60.0, "head_pattern": None},
                 {"name": "R1", "type": "reservoir", "head": 55.0, "head_pattern": "up"}]
        links, prev = [], "R0"
        for i in range(n_cv):
            nodes.append(_junc("J%d" % i, 5.0, _r(rng, 0.001, 0.004, 4)))
            links.append(_pipe("CV%d" % i, prev, "J%d" % i, L=_r(rng, 100, 300, 0), d=0.2, cv=True))
            if i > 0 and rng.random() < 0.5:   # a side feed from the high reservoir keeps the downstream junctions supplied
                links.append(_pipe("S%d" % i, "J%d" % i, "R1", L=_r(rng, 200, 500, 0), d=0.15))
            prev = "J%d" % i
        links.append(_pipe("PL", prev, "R1", L=200.0, d=0.2))
    elif name == "tank_limit":
        # a tank that reaches its MAX level and one that reaches its MIN level within the run: the simulator closes the adjacent pipes
        # through `_internal_status` (the user status stays Open); piecewise and default Hazen-Williams alternate
        approx = ["piecewise", "default"][variant % 2]
        opts = _opts(rng, demand_model="DD")
        opts.update({"hydraulic_timestep": 1800, "pattern_timestep": 3600, "report_timestep": 1800, "pattern_start": 0, "duration": 5 * 1800})
        nodes = [{"name": "R0", "type": "reservoir", "head": _r(rng, 68, 75, 1), "head_pattern": None},
                 {"name": "T0", "type": "tank", "elevation": 50.0, "init_level": 4.7, "min_level": 0.0, "max_level": 5.0, "diameter": _r(rng, 2.5, 4, 1)},
                 {"name": "T1", "type": "tank", "elevation": 60.0, "init_level": 0.5, "min_level": 0.3, "max_level": 6.0, "diameter": _r(rng, 2.5, 4, 1)},
                 _junc("J0", 5.0, 0.002, "pat0"), _junc("J1", 8.0, _r(rng, 0.004, 0.008, 4))]
        links = [_pipe("P1", "R0", "J0", L=200.0, d=0.25), _pipe("P2", "J0", "T0", L=100.0, d=0.2), _pipe("P2b", "T0", "J0", L=150.0, d=0.15, cv=True),
                 _pipe("P3", "T1", "J1", L=100.0, d=0.2), _pipe("P4", "J0", "J1", L=800.0, d=0.1)]
    elif name == "head_pattern":
        # reservoirs whose head follows a pattern with pairwise different multipliers, on a non-zero pattern_start that is not a multiple of
        # the pattern's period; plain open pipes: the REPORTED reservoir head must be the head the step was solved with
        pats["hp"] = [1.0, 1.06, 0.93, 1.11, 0.97]
        pats["hq"] = [1.0, 0.9, 1.05]
        opts = _opts(rng, demand_model=["DD", "PDD"][variant % 2])
        step = opts["pattern_timestep"]
        opts.update({"hydraulic_timestep": step, "report_timestep": step, "pattern_start": step * rng.choice([1, 2, 3]), "duration": 4 * step})
        nodes = [{"name": "R0", "type": "reservoir", "head": _r(rng, 55, 70, 1), "head_pattern": "hp"},
                 {"name": "R1", "type": "reservoir", "head": _r(rng, 40, 50, 1), "head_pattern": "hq"},
                 _junc("J0", 5.0, _r(rng, 0.002, 0.008, 4), "pat0"), _junc("J1", 8.0, _r(rng, 0.002, 0.006, 4))]
        links = [_pipe("P1", "R0", "J0", L=300.0, d=0.25), _pipe("P2", "J0", "J1", L=200.0, d=0.2), _pipe("P3", "J1", "R1", L=400.0, d=0.2)]
    elif name == "cv_htol":
        # R0 -CV pipe-> J0 -pipe-> R1 with R1 within / just outside the head tolerance above R0: only the FLOW test can close the CV
        off = rng.choice([0.0001, 0.00005, 0.00014, 0.00016, 0.001, -0.0001, 0.00012])
        nodes = [{"name": "R0", "type": "reservoir", "head": 50.0, "head_pattern": None},
                 {"name": "R1", "type": "reservoir", "head": 50.0 + off, "head_pattern": None},
                 _junc("J0", 5.0, rng.choice([0.0, 0.0, 0.0002]))]
        links = [_pipe("P1", "R0", "J0", L=_r(rng, 50, 150, 0), d=rng.choice([0.3, 0.4]), cv=True), _pipe("P2", "J0", "R1", L=100.0, d=0.3)]
    elif name == "cv_reverse":
        # the reservoir's head pattern runs on a NON-ZERO pattern_start on every seed (reported head = head the solve used)
        opts["pattern_start"] = opts["pattern_timestep"] * (1 + variant % 2)
        pats["hp"] = [1.0, _r(rng, 0.5, 0.8, 2), _r(rng, 1.1, 1.3, 2), 1.0]
        nodes = [{"name": "R0", "type": "reservoir", "head": 60.0, "head_pattern": "hp"},
                 {"name": "R1", "type": "reservoir", "head": 58.0, "head_pattern": None},
                 {"name": "T0", "type": "tank", "elevation": 50.0, "init_level": 6.0, "min_level": 0.0, "max_level": 14.0, "diameter": 6.0},
                 _junc("J0", 5.0, 0.004, "pat0"), _junc("J1", 8.0, 0.002)]
        links = [_pipe("P1", "R0", "J0", cv=True), _pipe("P2", "J0", "J1"), _pipe("P3", "J1", "R1", cv=True),
                 _pipe("P4", "T0", "J1", L=80.0, d=0.2), _pipe("P5", "J0", "R1", L=500.0, d=0.15, cv=rng.random() < 0.5)]
    elif name == "power_pump":
        nodes = [{"name": "R0", "type": "reservoir", "head": _r(rng, 10, 30, 1), "head_pattern": None},
                 {"name": "T0", "type": "tank", "elevation": _r(rng, 30, 60, 1), "init_level": 3.0, "min_level": 0.0, "max_level": 12.0, "diameter": 10.0},
                 _junc("J0", 5.0, 0.003, "pat0"), _junc("J1", 10.0, 0.002)]
        links = [{"name": "PW1", "type": "pump", "start": "R0", "end": "J0", "pump_type": "POWER", "power": _r(rng, 2000, 20000, 0), "initial_status": "OPEN"},
                 _pipe("P1", "J0", "J1"), _pipe("P2", "J1", "T0", L=300.0),
                 {"name": "PW2", "type": "pump", "start": "T0", "end": "J1", "pump_type": "POWER", "power": _r(rng, 500, 3000, 0), "initial_status": rng.choice(["OPEN", "CLOSED"])}]
    else:  # pump_curves: three head pumps with 1-, 2-, 3-point curves in parallel / series
        for i, npts in enumerate([1, 2, rng.choice([3, 3, 4, 5])]):
            curves["c%d" % i] = random_pump_curve(rng, npts)
        nodes = [{"name": "R0", "type": "reservoir", "head": 20.0, "head_pattern": None},
                 {"name": "T0", "type": "tank", "elevation": 45.0, "init_level": 4.0, "min_level": 0.0, "max_level": 12.0, "diameter": 12.0},
                 _junc("J0", 5.0, 0.004, "pat0"), _junc("J1", 10.0, 0.006), _junc("J2", 12.0, 0.003, "pat0")]
        links = [{"name": "PU0", "type": "pump", "start": "R0", "end": "J0", "pump_type": "HEAD", "curve": "c0", "initial_status": "OPEN"},
                 {"name": "PU1", "type": "pump", "start": "R0", "end": "J0", "pump_type": "HEAD", "curve": "c1", "initial_status": "OPEN"},
                 {"name": "PU2", "type": "pump", "start": "J0", "end": "J1", "pump_type": "HEAD", "curve": "c2", "initial_status": "OPEN"},
                 _pipe("P1", "J0", "J1", L=400.0, d=0.2, cv=True), _pipe("P2", "J1", "J2"), _pipe("P3", "J2", "T0", L=250.0)]
    spec = {"nodes": nodes, "links": links, "patterns": pats, "curves": curves, "options": opts, "hw_approx": approx,
            "features": {"scenario": name}}
    if name in ("psv", "prv", "fcv", "tcv", "tank_tank"):
        add_setting_controls(rng, spec, p=0.85)
    if name == "cutset":
        spec["controls"] = ctl
        add_refused_calls(rng, spec)
    if name == "power_pump":
        links[0]["speed"] = rng.choice([1.2, 0.8])
        spec["controls"] = [{"link": "PW1", "attr": "base_speed", "value": rng.choice([0.7, 1.3]), "time": opts["hydraulic_timestep"], "kind": "control"},
                            {"link": "PW2", "attr": "base_speed", "value": 1.4, "time": opts["hydraulic_timestep"], "kind": "rule"}]
    if name in ("pump_points", "cv_reverse", "tank_tank"):
        add_pattern_objects(rng, spec)
    return spec
