#!/venv/bin/python
"""setup_cmd: build the C++ extensions from /repo's sources, run every translator, build the whole Lean library."""
import importlib
import os
import subprocess
import sys
import time

HERE = os.path.dirname(os.path.abspath(__file__))
sys.path.insert(0, HERE)
sys.path.insert(0, os.path.join(HERE, "props"))
import vlib


def main():
    t0 = time.time()
    vlib.import_wntr()
    import json

    man = json.load(open(os.path.join(vlib.VERIF, "MANIFEST.json")))
    targets = []
    for c in man["checks"]:
        pid = c["property_id"]
        mod = importlib.import_module(pid.lower())
        chk = getattr(mod, pid)()
        ctx = vlib.Ctx(pid, "quick", 0)
        try:
            chk.translate(ctx)
        except Exception as e:  # reported by the check itself later
            print("setup: translator of %s: %s" % (pid, e))
        targets += list(chk.prop_modules) + list(chk.extra_targets)
    targets = sorted(set(targets))
    ok, log, secs = vlib.lake_build(targets, timeout=7200)
    print(log[-3000:])
    print("setup: lake build %s in %.0fs (total %.0fs)" % ("ok" if ok else "FAILED", secs, time.time() - t0))
    sys.exit(0 if ok else 1)


if __name__ == "__main__":
    main()
