"""Seeded generator of time-control / rule schedules on a small always-solvable network, the translation of a
schedule to (a) a real wntr model and (b) SchedDriver lines, and the runner of the real WNTRSimulator.
Shared by C04 (instants), C10 (restart), C16 (termination / well-formed results)."""
import math

RELS = ["gt", "ge", "lt", "le", "eq"]
REL_PY = {"gt": ">", "ge": ">=", "lt": "<", "le": "<=", "eq": "="}

NT = 4  # number of controllable pipes (parallel duplicates: closing them never isolates a node)


NUM_KINDS = ["int", "float", "np_int", "np_float"]


def typed_num(v, kind):
    """the same number of seconds in another Python type (the constructors document int/float and accept numpy scalars)"""
    import numpy as np

    return {"int": int, "float": float, "np_int": np.int64, "np_float": np.float64}[kind](v)


def typed_threshold(v, kind):
    """… or as a string: 'H:MM:SS' (seconds since start / since midnight) or decimal hours (exact for quarter hours)"""
    if kind == "hms":
        return "%d:%02d:%02d" % (v // 3600, (v % 3600) // 60, v % 60)
    if kind == "hours" and v % 900 == 0:
        return repr(v / 3600.0)
    if kind in NUM_KINDS:
        return typed_num(v, kind)
    return int(v)


def typed_repeat(rep, kind):
    if not rep:
        return False
    if kind == "true" and rep == 86400:
        return True
    return typed_num(rep, kind if kind in NUM_KINDS else "int")


THR_KINDS = NUM_KINDS + ["hms", "hours"]
REP_KINDS = NUM_KINDS + ["true"]


def build_wn(wntr, sched):
    wn = wntr.network.WaterNetworkModel()
    wn.add_reservoir("R", base_head=60.0)
    for i in range(NT):
        wn.add_junction("J%d" % i, base_demand=0.002 + 0.001 * i, elevation=1.0 * i)
    wn.add_pipe("M0", "R", "J0", length=100, diameter=0.3)
    for i in range(1, NT):
        wn.add_pipe("M%d" % i, "J%d" % (i - 1), "J%d" % i, length=100, diameter=0.3)
    # controllable parallel pipes T0..T3
    wn.add_pipe("T0", "R", "J0", length=120, diameter=0.25)
    for i in range(1, NT):
        wn.add_pipe("T%d" % i, "J%d" % (i - 1), "J%d" % i, length=120, diameter=0.25)
    t = wn.options.time
    t.hydraulic_timestep = sched["hyd"]
    t.rule_timestep = sched["rule"]
    t.report_timestep = "ALL" if sched["report"] == 0 else sched["report"]
    t.duration = sched["duration"]
    t.start_clocktime = sched["start_clock"]
    t.pattern_timestep = 3600
    for k, v in sched["init"].items():
        wn.get_link("T%d" % int(k)).initial_status = wntr.network.LinkStatus(v)
        wn.get_link("T%d" % int(k))._user_status = wntr.network.LinkStatus(v)
    from wntr.network.controls import (Control, Rule, ControlAction, SimTimeCondition, TimeOfDayCondition,
                                       AndCondition, OrCondition, Comparison)

    def mkcond(c):
        if c[0] == "sim":
            _, rel, thr, rep = c
            # the argument TYPES vary deterministically with the values (int / float / numpy scalars / strings / True)
            return SimTimeCondition(wn, REL_PY[rel], typed_threshold(thr, THR_KINDS[(thr + rep) % len(THR_KINDS)]),
                                    repeat=typed_repeat(rep, REP_KINDS[(thr // 7 + rep) % len(REP_KINDS)]))
        if c[0] == "tod":
            _, rel, thr, rep, fd = c
            return TimeOfDayCondition(wn, REL_PY[rel], typed_threshold(thr, THR_KINDS[(thr + fd) % len(THR_KINDS)]), repeat=bool(rep), first_day=fd)
        if c[0] == "and":
            return AndCondition(mkcond(c[1]), mkcond(c[2]))
        if c[0] == "or":
            return OrCondition(mkcond(c[1]), mkcond(c[2]))
        raise ValueError(c)

    def mkact(a):
        return ControlAction(wn.get_link("T%d" % a[0]), "status", wntr.network.LinkStatus(a[1]))

    for ctl in sched["controls"]:
        cond = mkcond(ctl["cond"])
        if ctl["kind"] == "P":
            c = Control(cond, mkact(ctl["then"][0]), priority=ctl["prio"])
        else:
            c = Rule(cond, [mkact(a) for a in ctl["then"]], [mkact(a) for a in ctl["else"]], priority=ctl["prio"])
        wn.add_control("c%d" % ctl["id"], c)
    return wn


def cond_tokens(c):
    if c[0] == "sim":
        return "sim %s %d %d" % (c[1], c[2], c[3])
    if c[0] == "tod":
        return "tod %s %d %d %d" % (c[1], c[2], 1 if c[3] else 0, c[4])
    return "%s %s %s" % (c[0], cond_tokens(c[1]), cond_tokens(c[2]))


def eff_steps(sched):
    """_setup_sim_options: the hydraulic / report steps the simulator really uses"""
    hyd, rep = sched["hyd"], sched["report"]
    if rep != 0:
        if rep < hyd:
            hyd = rep
        elif rep % hyd != 0:
            rep = rep - rep % hyd
    return hyd, rep


def driver_lines(sched, durations=None):
    hyd, rep = eff_steps(sched)
    durations = durations or [sched["duration"]]
    L = ["reset", "cfg %d %d %d %d %d" % (hyd, sched["rule"], rep, durations[0], sched["start_clock"])]
    for ctl in sched["controls"]:
        s = "ctl %s %d %d %s then %s" % (ctl["kind"], ctl["id"], ctl["prio"], cond_tokens(ctl["cond"]),
                                          " ".join("%d %d" % (a[0], a[1]) for a in ctl["then"]))
        if ctl["else"]:
            s += " else " + " ".join("%d %d" % (a[0], a[1]) for a in ctl["else"])
        L.append(s)
    L.append("init " + " ".join("%d %d" % (i, sched["init"].get(str(i), 1)) for i in range(NT)))
    for d in durations[:-1]:
        L.append("pause %d" % d)
    L.append("dur %d" % durations[-1])
    L.append("run")
    return L


def parse_driver_runs(out_lines, nruns):
    """-> list of runs; each = (rows [(time, {key: val})], end tuple)"""
    runs, rows = [], []
    for l in out_lines:
        if l.startswith("row "):
            parts = l.split()
            rows.append((int(parts[1]), {int(kv.split("=")[0]): int(kv.split("=")[1]) for kv in parts[2:]}))
        elif l.startswith("end "):
            head, _, rl = l.partition(" rules")
            runs.append((rows, tuple(int(x) for x in head.split()[1:]), [int(x) for x in rl.split()]))
            rows = []
        elif l == "bad-op":
            raise ValueError("driver rejected a line")
    if len(runs) != nruns:
        raise ValueError("driver returned %d runs, expected %d" % (len(runs), nruns))
    return runs


def run_impl(wntr, wn, durations=None, pickle_between=False):
    """run the real simulator (optionally in several legs); -> rows [(time, {key: status})] and the final wn.
    `RULE_TIMES` receives, per leg, the sim times at which the simulator evaluated its rules
    (observed by wrapping ControlChecker.check in-process; no source hook)."""
    import pickle
    from wntr.network import controls as _c

    rows = []
    durations = durations or [wn.options.time.duration]
    RULE_TIMES.clear()
    for d in durations:
        wn.options.time.duration = d
        sim = wntr.sim.WNTRSimulator(wn)
        calls = []
        orig = _c.ControlChecker.check

        def check(self, _orig=orig, _calls=calls, _wn=wn):
            _calls.append((self, int(_wn.sim_time)))
            if len(_calls) > MAX_CHECK_CALLS:
                # a legitimate run of the generated schedules needs a few thousand calls; a run that does not advance
                # (e.g. the same instant served again and again) must not hang the check
                raise RuntimeError("runaway simulation: more than %d control checks, sim_time=%s" % (MAX_CHECK_CALLS, _wn.sim_time))
            return _orig(self)

        _c.ControlChecker.check = check
        try:
            res = sim.run_sim()
        finally:
            _c.ControlChecker.check = orig
        RULE_TIMES.append([t for (o, t) in calls if o is sim._rules])
        st = res.link["status"]
        for t in st.index:
            rows.append((int(t), {i: int(st.loc[t, "T%d" % i]) for i in range(NT)}))
        if pickle_between:
            wn = pickle.loads(pickle.dumps(wn))
    return rows, wn


def run_impl_legs(wntr, wn, durations, pickle_between=False):
    """like run_impl but per leg: -> ([(rows, (sim_time, prev_sim_time))...], final wn); a NEW simulator object per leg,
    the model optionally pickled and unpickled between legs.  RULE_TIMES gets one list per leg."""
    import pickle
    from wntr.network import controls as _c

    legs = []
    RULE_TIMES.clear()
    for li, d in enumerate(durations):
        wn.options.time.duration = d
        sim = wntr.sim.WNTRSimulator(wn)
        calls = []
        orig = _c.ControlChecker.check

        def check(self, _orig=orig, _calls=calls, _wn=wn):
            _calls.append((self, int(_wn.sim_time)))
            if len(_calls) > MAX_CHECK_CALLS:
                # a legitimate run of the generated schedules needs a few thousand calls; a run that does not advance
                # (e.g. the same instant served again and again) must not hang the check
                raise RuntimeError("runaway simulation: more than %d control checks, sim_time=%s" % (MAX_CHECK_CALLS, _wn.sim_time))
            return _orig(self)

        _c.ControlChecker.check = check
        try:
            res = sim.run_sim()
        finally:
            _c.ControlChecker.check = orig
        RULE_TIMES.append([t for (o, t) in calls if o is sim._rules])
        st = res.link["status"]
        rows = [(int(t), {i: int(st.loc[t, "T%d" % i]) for i in range(NT)}) for t in st.index]
        legs.append((rows, (int(wn.sim_time), int(wn._prev_sim_time))))
        if pickle_between and li != len(durations) - 1:
            wn = pickle.loads(pickle.dumps(wn))
    return legs, wn


RULE_TIMES = []
MAX_CHECK_CALLS = 60000


def gen_schedule(rng, quick=True, rules=True, allow_weird=True):
    hyd = rng.choice([900, 1800, 3600, 3600, 7200, 1000])
    rule = rng.choice([360, 300, 600, 900, 1800, hyd, 3600, 700])
    report = rng.choice([0, 0, hyd, hyd, 2 * hyd, 3 * hyd])
    if allow_weird and rng.random() < 0.08:
        report = rng.choice([hyd // 2, hyd + hyd // 2])
    days = rng.choice([1, 1, 2, 3]) if quick else rng.choice([1, 2, 3, 4])
    duration = rng.choice([days * 86400, days * 86400 - rng.randint(0, 5) * hyd, rng.randint(2, 30) * hyd])
    start_clock = rng.choice([0, 0, 3600 * rng.randint(0, 23), rng.randint(0, 86399)])
    nctl = rng.randint(1, 6)
    controls = []

    def rtime(maxt):
        r = rng.random()
        if r < 0.35:
            return hyd * rng.randint(0, max(1, maxt // hyd))  # on the hydraulic grid
        if r < 0.5:
            return rule * rng.randint(0, max(1, maxt // rule))  # on the rule grid
        if r < 0.6:
            return 0
        return rng.randint(0, maxt)  # anywhere

    def gen_cond(for_rule, depth=0):
        r = rng.random()
        if for_rule and depth < 2 and r < 0.3:
            return (rng.choice(["and", "or"]), gen_cond(True, depth + 1), gen_cond(True, depth + 1))
        if rng.random() < 0.5:
            rel = rng.choice(RELS) if for_rule else ("eq" if rng.random() < 0.8 else rng.choice(RELS))
            rep = 0
            if rel == "eq" and rng.random() < 0.35:
                rep = rng.choice([86400, 86400, 43200, 6 * 3600, hyd * 3])
            thr = rtime(min(duration, 86400) if rep else duration)
            return ("sim", rel, thr, rep)
        rel = rng.choice(["gt", "lt", "ge", "le", "eq"]) if for_rule else ("eq" if rng.random() < 0.8 else rng.choice(["gt", "lt"]))
        rep = rng.random() < 0.8
        fd = rng.choice([0, 0, 0, 1]) if rep else rng.choice([0, 0, 1, 2])
        thr = rtime(86399)
        if rng.random() < 0.25:
            # a clock time within one hydraulic step before / after the start clock time, or exactly on it: before it the
            # first occurrence is on the NEXT day (nothing was "crossed" by starting the simulation)
            thr = (start_clock + rng.choice([-1, -1, 1, 0]) * rng.randint(0, hyd)) % 86400
        return ("tod", rel, thr, 1 if rep else 0, fd)

    for i in range(nctl):
        is_rule = rules and rng.random() < 0.5
        prio = rng.choice([3, 3, 3, 0, 1, 2, 4, 5])
        if is_rule:
            then = [(rng.randrange(NT), rng.randint(0, 1)) for _ in range(rng.randint(1, 2))]
            els = [(rng.randrange(NT), rng.randint(0, 1)) for _ in range(rng.choice([0, 0, 1, 2]))]
            controls.append({"id": i, "kind": "R", "prio": prio, "cond": gen_cond(True), "then": then, "else": els})
        else:
            # bias several controls onto the same target / same instant
            tgt = rng.randrange(NT) if rng.random() < 0.6 else 0
            cond = gen_cond(False)
            if controls and rng.random() < 0.4:
                prev = rng.choice(controls)
                if prev["kind"] == "P":
                    cond = prev["cond"]
                    if rng.random() < 0.6:
                        tgt = prev["then"][0][0]
                    if rng.random() < 0.5:
                        # a DIFFERENT instant inside the same hydraulic step (usually): the two controls are then served in
                        # one pass of the pre-solve loop, in time order, whatever their priorities
                        off = rng.choice([-1, 1]) * rng.randint(1, max(1, hyd - 1))
                        if cond[0] == "sim":
                            cond = ("sim", cond[1], max(0, cond[2] + off), cond[3])
                        else:
                            cond = ("tod", cond[1], (cond[2] + off) % 86400) + tuple(cond[3:])
            controls.append({"id": i, "kind": "P", "prio": prio, "cond": cond, "then": [(tgt, rng.randint(0, 1))], "else": []})
    init = {str(i): rng.randint(0, 1) for i in range(NT)}
    return {"hyd": hyd, "rule": rule, "report": report, "duration": duration, "start_clock": start_clock,
            "controls": controls, "init": init}


def fix_tod_first_day(sched):
    """TimeOfDayCondition.__init__ moves a one-shot condition already past at start to day 1; mirror it for the driver"""
    import copy

    s = copy.deepcopy(sched)

    def fix(c):
        if c[0] == "tod":
            _, rel, thr, rep, fd = c
            if not rep and thr < s["start_clock"] and fd < 1:
                fd = 1
            return ("tod", rel, thr, rep, fd)
        if c[0] in ("and", "or"):
            return (c[0], fix(c[1]), fix(c[2]))
        return c

    for ctl in s["controls"]:
        ctl["cond"] = fix(ctl["cond"])
    return s


_RULE_WINDOW = {}


def rule_window_repaired(wntr):
    """True when the simulator tests rule time premises against the previous RULE timestep (fixes/C04-rule-window.patch,
    the semantics of Model/Sched.lean); False on a tree that still uses the previous solve time (known finding C04
    rule-eq-premise-missed).  Decided once per process by the directed case."""
    if "v" not in _RULE_WINDOW:
        s = {"hyd": 3600, "rule": 1800, "report": 0, "duration": 18000, "start_clock": 0, "init": {"0": 0, "1": 1},
             "controls": [{"id": 0, "kind": "R", "prio": 3, "cond": ("sim", "eq", 13260, 0), "then": [(0, 1)], "else": []},
                          {"id": 1, "kind": "P", "prio": 3, "cond": ("sim", "eq", 13980, 0), "then": [(1, 0)], "else": []}]}
        saved = [list(x) for x in RULE_TIMES]
        rows, _ = run_impl(wntr, build_wn(wntr, s))
        RULE_TIMES[:] = saved  # the probe must not disturb the observation of the caller's last run
        _RULE_WINDOW["v"] = dict(rows).get(14400, {}).get(0) == 1
    return _RULE_WINDOW["v"]
