#!/venv/bin/python
"""Refreshes the generated tables of DESIGN.md §0 (between <!-- BEGIN:x --> / <!-- END:x --> markers) from the per-property
modules, the Props files, known_findings.d, seeded/*/meta.json and seeded/RESULTS.json. Hand-written text is untouched."""
import glob
import importlib
import json
import os
import re
import sys

HERE = os.path.dirname(os.path.abspath(__file__))
VERIF = os.path.dirname(HERE)
sys.path.insert(0, HERE)
sys.path.insert(0, os.path.join(HERE, "props"))
import vlib


def block(s, name, text):
    b, e = "<!-- BEGIN:%s -->" % name, "<!-- END:%s -->" % name
    if b not in s:
        s = s.replace(name.upper() + "_TABLE" if name != "false_alarms" else "FALSE_ALARMS", b + "\n" + e)
    i, j = s.index(b), s.index(e)
    return s[: i + len(b)] + "\n" + text.rstrip() + "\n" + s[j:]


def main():
    ready = [l.strip() for l in open(os.path.join(HERE, "ready.txt")) if l.strip() and not l.startswith("#")]
    props = [json.loads(l) for l in open(os.path.join(VERIF, "properties.jsonl"))]
    rows = []
    for p in props:
        pid = p["id"]
        path = os.path.join(HERE, "props", pid.lower() + ".py")
        if pid not in ready or not os.path.exists(path):
            rows.append("* **%s** %s — not registered (see MANIFEST `not_applicable`)." % (pid, p["title"]))
            continue
        mod = importlib.import_module(pid.lower())
        cls = getattr(mod, pid)
        thms = []
        for m in cls.prop_modules:
            thms += vlib.theorems_in(os.path.join(vlib.LEAN, m.replace(".", "/") + ".lean"))
        short = [t.split(".")[-1] for t in thms]
        cex = [t for t in short if t.endswith("counterexample")]
        part = [t for t in short if t.endswith("partial")]
        man = cls.manifest
        rows.append(
            "* **%s** %s — level `%s`; %d theorems in `%s` (%d `_partial`, %d `_counterexample`).\n"
            "  Technique: %s.\n  Scope: %s\n  Trusted/not modelled: %s\n  Theorems: %s"
            % (pid, p["title"], man["category"], len(thms), ", ".join(cls.prop_modules), len(part), len(cex), man["technique"], man["text"], man["note"],
               ", ".join("`%s`" % t for t in short))
        )
    s = open(os.path.join(VERIF, "DESIGN.md")).read()
    s = block(s, "status", "\n".join(rows))
    kf = vlib.load_known_findings()
    s = block(s, "fixed", "\n".join("* " + l[len("fixed: "):] for l in kf["fixed"]) or "(none)")
    s = block(s, "findings", "\n".join("* %s `%s`: %s" % (f["property"], f["key"], f["what"]) for f in kf["findings"]) or "(none)")
    res = {}
    for rp in glob.glob(os.path.join(VERIF, "seeded", "*", "result.json")):
        res[os.path.basename(os.path.dirname(rp))] = json.load(open(rp))
    lines = []
    for d in sorted(glob.glob(os.path.join(VERIF, "seeded", "*", "meta.json"))):
        sid = os.path.basename(os.path.dirname(d))
        m = json.load(open(d))
        r = res.get(sid, {})
        c = r.get("caught")
        verdict = "not run yet" if c is None else ("CAUGHT by check %s (%s)" % (m["property"], "; ".join(r.get("violation_lines", [])[:1])) if c else "MISSED by check %s" % m["property"])
        if m.get("caught_by"):
            verdict += " — " + m["caught_by"]
        lines.append("* `seeded/%s` (%s) %s — needs: %s — **%s**" % (sid, m["property"], m.get("summary", ""), m.get("needs_to_manifest", ""), verdict))
    s = block(s, "seeded", "\n".join(lines) or "(none yet)")
    if "<!-- BEGIN:false_alarms -->" not in s and "FALSE_ALARMS" in s:
        s = s.replace("FALSE_ALARMS", "(see the hand-written list below)")
    open(os.path.join(VERIF, "DESIGN.md"), "w").write(s)
    print("DESIGN.md §0 tables refreshed")


if __name__ == "__main__":
    main()
