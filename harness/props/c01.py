"""C01 -- mass is conserved at every node at every reported time step; DD demand formula.

Tie (T): `Gen/RowsC01.lean` is regenerated on every run (harness/translate/rows_c01c02.py): the `mass_balance[j]` /
         `pdd_mass_balance[j]` rows `create_hydraulic_model` builds for the zoo + the zoo's link table; `Props/C01.lean` proves
         each row has exactly the signed leaves `+D - sum(INLET) + sum(OUTLET) (+ leak iff leak_status)` of that table.
Tie (C): `con.evaluate()` of the REAL zoo constraints vs the Lean `eval` of the generated rows at random points; the REAL
         mass-balance rows of random networks vs the parametric `massBalanceRow` with adjacency taken from the network spec.
Oracle : REAL WNTRSimulator runs on seeded random networks (loops, parallel links, several sources, pumps / valves next to
         tanks, multi-category demands, leaks on junctions and tanks, DD / PDD, random steps, pattern_start, multiplier).  On
         every reported step, evaluated by Drivers/LinkRowsDriver.lean in exact rationals:
           junction:  |sum_in q - sum_out q - demand - leak_demand| <= TOL (1e-6, the solver's stopping bound) + 1e-9*sum|terms|
           tank / reservoir:  demand = net inflow (- leak demand), 1e-12 relative
           DD mode:   demand = sum_k base_k * mult_k(t + pattern_start) * demand_multiplier, 1e-12 relative
           leak demand is 0 unless the node's leak is switched on.
         The balance is judged on EVERY junction, also those WNTR flags as isolated (0 = 0 + 0 there); the DD formula on every junction
         that is CONNECTED by the check's own reachability (from tanks / reservoirs over links not reported Closed; never WNTR's
         _is_isolated flags).  Skipped: runs / steps that did not converge (nothing is reported for them).
         Family `rule_step_specs`: report_timestep 'ALL' + IF-THEN rules (time / tank-level conditions) at rule timesteps strictly
         between two hydraulic timesteps + simple time controls off the hydraulic grid, patterns that change at (or faster than)
         the hydraulic timestep: EVERY reported row, also the inserted partial steps, is judged at ITS OWN time.
"""
import json
import math
import os
import sys

sys.path.insert(0, os.path.dirname(os.path.dirname(os.path.abspath(__file__))))
sys.path.insert(0, os.path.dirname(os.path.abspath(__file__)))
import vlib
from vlib import Broken, Failure, Check
import gen_networks as G
from translate import rows_c01c02 as T
import c01c02_common as C
from c01c02_common import fbits, bitsf, fr, Batch

# ----------------------------------------------------------------------------- steps inserted by rules / off-grid controls


def rule_step_specs(ctx, n):
    """small networks whose clock is moved to times BETWEEN two hydraulic timesteps: IF-THEN rules (time conditions, tank-level
    conditions) with rule_timestep < hydraulic_timestep, simple time controls at times off the hydraulic grid; report_timestep 'ALL'
    so that every inserted step is reported; demand patterns whose step is the hydraulic timestep or shorter, so the inserted step
    lies in another pattern step than the nominal hydraulic time after it.  spec['rule_steps'] is applied by `build_rule_wn`
    on top of G.build_wn (nothing of it is known to the shared generator)."""
    rng = ctx.rng
    out = []
    for i in range(n):
        hyd = [3600, 1800, 3600, 900][i % 4] if i < 4 else rng.choice([3600, 1800, 900])
        pstep = hyd if i % 3 != 2 else hyd // rng.choice([2, 3])
        rts = hyd // ([2, 4, 3, 2][i % 4] if i < 4 else rng.choice([2, 3, 4, 6]))
        nh = rng.randint(4, 5)
        mode = "PDD" if i % 5 == 4 else "DD"
        mults = [1.0] + [G._r(rng, 0.3, 2.2, 2) for _ in range(rng.randint(4, 6))]
        for k in range(1, len(mults)):   # neighbouring pattern steps always differ
            if abs(mults[k] - mults[k - 1]) < 0.05:
                mults[k] = round(mults[k - 1] + 0.25, 2)
        pats = {"pat0": mults, "pat1": [G._r(rng, 0.4, 1.8, 2) for _ in range(3)] + [1.1]}
        opts = G._opts(rng, demand_model=mode, hydraulic_timestep=hyd, pattern_timestep=pstep, report_timestep="ALL",
                       pattern_start=rng.choice([0, 0, pstep, 3600, 2 * hyd + pstep]), duration=nh * hyd,
                       demand_multiplier=rng.choice([1.0, 1.2, 0.75, G._r(rng, 0.5, 1.6, 3)]),
                       pattern_interpolation=(i % 4 == 3 and i >= 4))
        nodes = [{"name": "R0", "type": "reservoir", "head": G._r(rng, 55, 70, 1), "head_pattern": None},
                 {"name": "T0", "type": "tank", "elevation": G._r(rng, 30, 48, 1), "init_level": G._r(rng, 2.5, 4.0, 2), "min_level": 0.0,
                  "max_level": 12.0, "diameter": rng.choice([4.0, 6.0, 9.0])},
                 G._junc("J1", 5.0, G._r(rng, 0.004, 0.012, 4), "pat0"), G._junc("J2", 3.0, G._r(rng, 0.002, 0.008, 4), "pat0"),
                 G._junc("J3", 4.0, G._r(rng, 0.001, 0.005, 4), "pat1")]
        nodes[3]["demands"].append({"base": G._r(rng, 0.001, 0.003, 4), "pattern": None, "category": "other"})
        if rng.random() < 0.5:
            nodes[4]["demands"].append({"base": G._r(rng, 0.001, 0.003, 4), "pattern": "pat0", "category": "second"})
        if rng.random() < 0.3:
            nodes[3]["leak"] = {"area": G._r(rng, 5e-5, 2e-4, 6), "cd": 0.75, "start": 0, "end": None}
        links = [G._pipe("P1", "R0", "J1", L=300.0, d=0.3), G._pipe("P2", "J1", "J2", L=300.0, d=0.2),
                 G._pipe("P3", *(("J2", "J1") if rng.random() < 0.4 else ("J1", "J2")), L=500.0, d=0.2),
                 G._pipe("P4", "J2", "T0", L=G._r(rng, 200, 600, 0), d=0.2), G._pipe("P5", "J1", "J3", L=250.0, d=0.15)]
        # times of rule steps strictly inside a hydraulic step
        inner = [k * rts for k in range(1, nh * hyd // rts) if (k * rts) % hyd != 0]
        rules = []
        t1 = inner[0] if i == 0 else rng.choice(inner[: max(1, len(inner) - 1)])
        later = [t for t in inner if t > t1]
        if i % 2 == 0 or not later:
            rules.append({"kind": "rule", "link": "P3", "value": "CLOSED", "cond": {"type": "time", "rel": ">=", "time": t1}})
        else:
            rules.append({"kind": "rule", "link": "P3", "value": "CLOSED", "cond": {"type": "time", "rel": "=", "time": t1}, "priority": rng.choice([0, 3])})
            rules.append({"kind": "rule", "link": "P3", "value": "OPEN", "cond": {"type": "time", "rel": "=", "time": rng.choice(later)}})
        if i % 3 == 1:   # a tank-level rule: fires at the first rule timestep at which the extrapolated level has crossed the threshold
            lv = nodes[1]["init_level"]
            rules.append({"kind": "rule", "link": "P4", "value": "CLOSED",
                          "cond": {"type": "tank_level", "tank": "T0", "rel": rng.choice([">", "<"]), "thr": round(lv + rng.choice([-1, 1]) * rng.uniform(0.02, 0.6), 3)}})
        if i % 3 == 2:   # a second rule on another link at another inner rule step
            rules.append({"kind": "rule", "link": "P4", "value": "CLOSED", "cond": {"type": "time", "rel": "=", "time": rng.choice(inner)}})
        if i % 2 == 1 or rng.random() < 0.4:   # simple time controls at times OFF the hydraulic grid (and, now and then, off the rule grid)
            tc = rng.randint(1, nh - 1) * hyd + rng.choice([rts, 700, hyd // 2 + 60, 1])
            if tc < nh * hyd and tc % hyd != 0:
                rules.append({"kind": "control", "link": "P2", "value": "CLOSED", "cond": {"type": "time", "rel": "=", "time": tc}})
                if rng.random() < 0.5 and tc + rts < nh * hyd:
                    rules.append({"kind": "control", "link": "P2", "value": "OPEN", "cond": {"type": "time", "rel": "=", "time": tc + rts}})
        out.append({"nodes": nodes, "links": links, "patterns": pats, "curves": {}, "options": opts, "hw_approx": "default",
                    "features": {"scenario": "rule_steps"}, "rule_steps": {"rule_timestep": rts, "rules": rules}})
    return out


def build_rule_wn(wntr, spec):
    """G.build_wn + the spec's rule_timestep and its rules / controls with time ('=', '>=') and tank-level conditions"""
    import wntr.network.controls as CT

    wn = G.build_wn(wntr, spec)
    rs = spec["rule_steps"]
    wn.options.time.rule_timestep = int(rs["rule_timestep"])
    for i, c in enumerate(rs["rules"]):
        act = CT.ControlAction(wn.get_link(c["link"]), "status", {"CLOSED": wntr.network.LinkStatus.Closed, "OPEN": wntr.network.LinkStatus.Open}[c["value"]])
        cd = c["cond"]
        if cd["type"] == "time":
            cond = CT.SimTimeCondition(wn, cd["rel"], int(cd["time"]))
        else:
            cond = CT.ValueCondition(wn.get_node(cd["tank"]), "level", cd["rel"], cd["thr"])
        if c["kind"] == "rule":
            wn.add_control("steprule%d" % i, CT.Rule(cond, [act], name="steprule%d" % i, priority=c.get("priority", 3)))
        else:
            wn.add_control("stepctl%d" % i, CT.Control(cond, act, name="stepctl%d" % i))
    return wn


class C01(Check):
    pid = "C01"
    level = "proof"
    prop_modules = ["WntrModel.Props.C01"]
    extra_targets = list(C.GEN_TARGETS)
    manifest = dict(
        category="proof",
        text="Lean theorems over rows regenerated from the current source on every run: every mass_balance[j] / pdd_mass_balance[j] "
        "row the code builds for a zoo network (parallel / anti-parallel links, links into and out of a tank and a reservoir, "
        "several pumps / valves per junction, leaks on/off, DD and PDD) has exactly the signed leaves +D - sum(links ending in j) + "
        "sum(links starting in j) (+ leak_rate iff leak_status) of the zoo's link table; for EVERY adjacency, leak flag and leaf "
        "values the row evaluates to that balance (massBalance_row_shape, balRowOk_sound); |row| < tol implies the reported "
        "|sum_in - sum_out - demand - leak_demand| < tol with the values store_results_in_network copies (DD: requested demand, PDD: "
        "demand variable, leak iff leak_status); tank / reservoir demand = net inflow exactly; the DD demand is sum base*mult(t + "
        "pattern_start)*demand_multiplier over all entries (M2 Pattern model). The real rows and the real simulator are checked "
        "against the Lean driver on every run (exact rationals).",
        design_ref="DESIGN.md §5 C01",
        note="partial on numerics: LU and IEEE rounding are not modelled; the only fact used of the solver is 'converged => max|row| < TOL'. "
        "That NewtonSolver.solve returns `converged` only for a model state with max|r| < TOL is not a trusted reading of solvers.py: it is the theorem newton_converged_implies_small_residual (Props/C16Newton.lean, over Model/Newton.lean, for every residual function, linear-solve behaviour and option set), tied to the source on every C16 run by the regenerated skeleton Gen/NewtonShape.lean, the replay of every observed solve call through Drivers/NewtonDriver.lean, and the re-evaluation of max|r| on the real model after each converged return; this check additionally re-evaluates max|r| on the real model after every converged return of its own runs. "
        "store_results_in_network is tied by symbolic execution of the real function (Gen/StoreC01.lean, theorem gen_store_results_ok: junction / tank / "
        "reservoir demand and leak demand, isolated junctions and links, tank-tank and reservoir-reservoir links); expected_demand_param and "
        "Pattern/TimeSeries/Demands.at are hand transliterations tied by the simulation oracle (reported demand vs the Lean expectedDemand, exact to 1e-12). INLET/OUTLET of arbitrary registries is the "
        "C14 invariant; here adjacency is checked on the zoo (proof) and on random networks (oracle with adjacency from the spec). "
        "Tanks with a volume curve are generated (their reported demand is still the net inflow). Emitter coefficients are silently ignored by WNTRSimulator "
        "(no emitter flow is simulated or reported, the balance holds without it); GPV / PBV / D-W / C-M / pump speeds != 1 are refused (see C02). "
        "Junctions WNTR flags as isolated are judged too; 'connected' (for the DD formula) is decided by the check's own reachability.",
        technique="Lean 4 proof over translator-regenerated constraint rows + differential run of real residuals against the Lean driver + "
        "exact-rational balance oracle on real simulations",
    )
    rule = (
        "obligations: theorems of Props/C01.lean. correspondence cases: (zoo row, random point) evaluations, (random network, junction) "
        "row evaluations, and (network, reported step, node) oracle evaluations of real simulations; distinct = distinct (node kind, "
        "mode, #in, #out, leak on/off, parallel) classes; non-trivial = node has flow through it"
    )
    trusted_base = [
        "translator harness/translate/rows_c01c02.py (amldump runtime reflection of the aml rows; link table read off the link objects)",
        "'converged => max|residual| < TOL' is theorem newton_converged_implies_small_residual (Props/C16Newton.lean over Model/Newton.lean, tied to solvers.py "
        "by C16: Gen/NewtonShape.lean, Drivers/NewtonDriver.lean replay, re-evaluated max|r|); here it is re-observed at every converged return of this check's runs",
        "IEEE-754 rounding not modelled (slack 1e-9 relative in the junction balance, 1e-12 in the exact identities)",
    ]
    assumptions = [
        "the run converged at the reported step (non-converged steps are not reported by WNTR)",
        "DD formula: junction reachable from a tank / reservoir over links not reported Closed",
    ]

    # ------------------------------------------------------------------ translate
    def translate(self, ctx):
        wntr = vlib.import_wntr()
        self.info = T.write_c01(wntr)
        ctx.cov["updater_registrations"] = T.write_updater(wntr)
        ctx.cov["store_results_trace"] = T.write_store(wntr)
        ctx.cov["zoo_rows"] = {k: self.info[k]["rows"] for k in ("DD", "PDD")}
        ctx.cov["links_for_node_filter"] = self.info.get("links_for_node")

    # ------------------------------------------------------------------ static rows of random networks
    def _static_rows(self, ctx, wntr, specs):
        import wntr.sim.hydraulics as H

        rng = ctx.rng
        broken = []
        batch = Batch()
        for spec in specs:
            try:
                wn = G.build_wn(wntr, spec)
                for nd in spec["nodes"]:
                    if nd.get("leak") and rng.random() < 0.7:
                        wn.get_node(nd["name"])._leak_status = True
                m, upd = H.create_hydraulic_model(wn, HW_approx=spec.get("hw_approx", "default"))
            except Exception as e:
                ctx.count("static_build_error")
                continue
            pdd = spec["options"]["demand_model"] == "PDD"
            mb = m.pdd_mass_balance if pdd else m.mass_balance
            ins, outs = C.adjacency(spec)
            for l in spec["links"]:
                m.flow[l["name"]].value = rng.choice([rng.uniform(-0.3, 0.3), rng.uniform(-1e-3, 1e-3), 0.0])
            for nd in spec["nodes"]:
                if nd["type"] != "junction":
                    continue
                j = nd["name"]
                if j not in mb:
                    continue
                dem = rng.uniform(-0.01, 0.05)
                if pdd:
                    m.demand[j].value = dem
                else:
                    m.expected_demand[j].value = dem
                rate = rng.uniform(0, 0.02)
                m.leak_rate[j].value = rate
                leak = bool(wn.get_node(j).leak_status)
                r = float(mb[j].evaluate())
                qi = [m.flow[l].value for l in ins[j]]
                qo = [m.flow[l].value for l in outs[j]]
                line = "mb %d %d %s %s %d %s %d %s" % (pdd, leak, fbits(dem), fbits(rate), len(qi), " ".join(fbits(x) for x in qi),
                                                      len(qo), " ".join(fbits(x) for x in qo))

                def cb(o, r=r, j=j, spec=spec, qi=qi, qo=qo, dem=dem, leak=leak, pdd=pdd):
                    lr = bitsf(o)
                    ctx.case(("mbrow", pdd, min(len(qi), 4), min(len(qo), 4), leak), nontrivial=bool(qi or qo))
                    ctx.count("mbrow:%s" % ("PDD" if pdd else "DD"))
                    scale = abs(dem) + sum(abs(x) for x in qi + qo) + 1.0
                    if abs(r - lr) > 1e-12 * scale and len(broken) < 5:
                        broken.append(Broken("correspondence", "real mass-balance row vs massBalanceRow with the spec's adjacency",
                                             "junction %s (%d in / %d out, leak=%s, %s): impl %r model %r" % (j, len(qi), len(qo), leak, "PDD" if pdd else "DD", r, lr)))

                batch.add(" ".join(line.split()), cb)
        batch.run()
        return broken

    # ------------------------------------------------------------------ the oracle on one real run
    def _judge(self, ctx, spec, cap, batch, failures, broken):
        if cap["error"] is not None:
            ctx.count("sim_exception")
            return
        res = cap["res"]
        for (nrm, tol) in cap["norms"]:
            ctx.count("solve_returns")
            if not nrm < tol:
                broken.append(Broken("correspondence", "NewtonSolver contract", "returned converged with max|r| = %r >= tol %r" % (nrm, tol)))
        if res.error_code is not None:
            ctx.count("run_not_converged")
        tb = C.Tables(res)
        if len(tb.times) != len(cap["frames"]):
            broken.append(Broken("correspondence", "save_results capture", "%d frames for %d reported times" % (len(cap["frames"]), len(tb.times))))
            return
        ins, outs = C.adjacency(spec)
        mode = spec["options"]["demand_model"]
        kinds = {nd["name"]: nd["type"] for nd in spec["nodes"]}
        ndspec = {nd["name"]: nd for nd in spec["nodes"]}
        par = C.features(spec)["parallel"]
        ctx.count("sim_ok")
        ctx.count("steps", len(tb.times))
        for k, t in enumerate(tb.times):
            frm = cap["frames"][k]
            if frm["t"] != t:
                broken.append(Broken("correspondence", "save_results capture", "frame time %r vs reported %r" % (frm["t"], t)))
                return
            closed = set(l["name"] for l in spec["links"] if int(tb.status[k, tb.lcol[l["name"]]]) == 0)
            conn = C.connected_nodes(spec, closed)
            for name, kind in kinds.items():
                c = tb.ncol[name]
                dem, lk = float(tb.demand[k, c]), float(tb.leak[k, c])
                qi = [float(tb.flow[k, tb.lcol[l]]) for l in ins[name]]
                qo = [float(tb.flow[k, tb.lcol[l]]) for l in outs[name]]
                leak_on = name in frm["leak"]
                rp = {"spec": spec.get("_origin", spec), "node": name, "t": t}
                flagged = kind == "junction" and name in frm["iso_j"]
                if flagged:
                    ctx.count("junction_flagged_isolated")  # judged like every other junction: 0 = 0 + 0 there
                ctx.case((kind, mode, min(len(qi), 3), min(len(qo), 3), leak_on, par), nontrivial=any(q != 0 for q in qi + qo))
                ctx.count("node:" + kind)
                if lk != 0.0 and not leak_on:
                    failures.append(Failure("leak-demand-without-leak-status-%s" % kind,
                                            "node %s t=%d reports leak_demand %r although its leak is not switched on" % (name, t, lk),
                                            dict(rp, observed=lk, expected=0.0)))
                if leak_on:
                    ctx.count("node:leak_on:" + kind)
                if kind == "junction":
                    tol, slack, key = C.TOL, C.SLACK, "junction-mass-balance-%s" % mode
                elif kind == "tank":
                    tol, slack, key = 0.0, C.TIGHT, "tank-demand-net-inflow"
                else:
                    tol, slack, key = 0.0, C.TIGHT, "reservoir-demand-net-inflow"
                line = "nb %s %s %s %s %d %s %d %s" % (fr(tol), fr(slack), fr(dem), fr(lk), len(qi), " ".join(fr(x) for x in qi),
                                                      len(qo), " ".join(fr(x) for x in qo))

                def cb(o, key=key, name=name, t=t, rp=rp, dem=dem, lk=lk, qi=qi, qo=qo, kind=kind):
                    st, r = o.split()
                    if kind == "junction":
                        self.max_res = max(self.max_res, abs(C.ratf(r)))
                    if st != "ok":
                        failures.append(Failure(key, "%s %s t=%d: sum_in %r - sum_out %r - demand %r - leak_demand %r = %r (links in %s, out %s)"
                                                % (kind, name, t, sum(qi), sum(qo), dem, lk, C.ratf(r), ins[name], outs[name]),
                                                dict(rp, observed=C.ratf(r), expected=0.0)))

                batch.add(" ".join(line.split()), cb)
                if kind == "junction" and mode == "DD":
                    if name not in conn:
                        ctx.count("dd_skip:not_connected")   # the statement restricts the formula to CONNECTED junctions
                        continue
                    if flagged:
                        ctx.count("dd_connected_but_flagged_isolated")
                    dl, scale = C.dd_line(spec, ndspec[name], t)

                    def cb2(o, name=name, t=t, rp=rp, dem=dem, scale=scale):
                        ex = C.ratf(o)
                        ctx.count("dd_formula")
                        if abs(dem - ex) > C.TIGHT * max(scale, abs(ex)):
                            cat = "multi" if len(ndspec[name].get("demands", [])) > 1 else "single"
                            failures.append(Failure("dd-demand-formula-%s-category" % cat,
                                                    "junction %s t=%d (DD): reported demand %r, sum base*mult(t+pattern_start)*multiplier = %r "
                                                    "(pattern_start=%r, pattern_timestep=%r, multiplier=%r, entries=%r)"
                                                    % (name, t, dem, ex, spec["options"]["pattern_start"], spec["options"]["pattern_timestep"],
                                                       spec["options"]["demand_multiplier"], ndspec[name].get("demands")),
                                                    dict(rp, observed=dem, expected=ex)))

                    batch.add(dl, cb2)

    @staticmethod
    def _runs(wntr, spec):
        if "rule_steps" not in spec:
            return C.run_all(wntr, spec)
        try:
            wn = build_rule_wn(wntr, spec)
        except Exception as e:
            return [(spec, {"wn": None, "frames": [], "norms": [], "error": "build: %s: %s" % (type(e).__name__, str(e)[:150]), "res": None})]
        return [(spec, C.run_sim_capture(wntr, spec, wn=wn))]

    @staticmethod
    def _count_rule_steps(ctx, spec, cap):
        """evidence: how many reported rows are steps INSERTED between two hydraulic timesteps, and by what"""
        ctx.count("rule_steps:runs")
        if cap["res"] is None:
            ctx.count("rule_steps:no_result")
            return
        hyd, rts, ps, p0 = spec["options"]["hydraulic_timestep"], spec["rule_steps"]["rule_timestep"], spec["options"]["pattern_timestep"], spec["options"]["pattern_start"]
        for frm in cap["frames"]:
            t = frm["t"]
            if t % hyd == 0:
                continue
            ctx.count("rule_steps:inserted_rows")
            ctx.count("rule_steps:inserted_rows:%s" % ("on_rule_grid" if t % rts == 0 else "off_rule_grid"))
            nominal = (t // hyd + 1) * hyd
            if (t + p0) // ps != (nominal + p0) // ps or spec["options"].get("pattern_interpolation"):
                ctx.count("rule_steps:inserted_rows:other_pattern_step_than_nominal_time")

    def _run_specs(self, ctx, wntr, specs):
        failures, broken = [], []
        batch = Batch()
        for spec in specs:
          for spec, cap in self._runs(wntr, spec):
            C.count_features(ctx, spec)
            self._judge(ctx, spec, cap, batch, failures, broken)
            if "rule_steps" in spec:
                self._count_rule_steps(ctx, spec, cap)
            if len(ctx.samples) < 4 and cap["res"] is not None:
                ctx.sample({"nodes": len(spec["nodes"]), "links": [(l["name"], C.link_kind(l), l["start"], l["end"]) for l in spec["links"]][:8],
                            "edits": spec.get("edits", []), "options": spec["options"], "reported_steps": len(cap["frames"])})
        batch.run()
        # smallest replay first
        failures.sort(key=lambda f: len(json.dumps(f.replay, default=str)))
        return failures, broken

    # ------------------------------------------------------------------ correspondence + oracle
    def correspondence(self, ctx):
        wntr = vlib.import_wntr()
        self.max_res = 0.0
        failures, broken = [], []
        if not hasattr(self, "info"):
            self.info = T.gen_c01(wntr)[1]
        npts = 6 if ctx.quick else 40
        broken += C.zoo_agreement(ctx, wntr, "C01DD", self.info["DD"]["names"], "DD", "default", npts, lambda mbc, lc: mbc)
        broken += C.zoo_agreement(ctx, wntr, "C01PDD", self.info["PDD"]["names"], "PDD", "default", npts, lambda mbc, lc: mbc)
        corpus = [c["spec"] for _, c in vlib.corpus_items(self.pid) if "spec" in c]
        specs = corpus + C.edit_between_runs_specs(ctx, 6 if ctx.quick else 36) + C.reversal_specs(ctx, 10 if ctx.quick else 80) + C.gen_specs(ctx, 30 if ctx.quick else 400, 24 if ctx.quick else 72)
        specs += rule_step_specs(ctx, 8 if ctx.quick else 60)   # drawn last: the networks of the older families stay what they were per seed
        broken += self._static_rows(ctx, wntr, specs[: (24 if ctx.quick else 200)])
        f, b = self._run_specs(ctx, wntr, specs)
        failures += f
        broken += b
        ctx.cov["max_junction_residual"] = self.max_res
        ctx.cov["tolerance"] = "junction: %g + %g*sum|terms|; tank/reservoir/DD formula: %g relative" % (C.TOL, C.SLACK, C.TIGHT)
        return failures, broken

    def search(self, ctx, broken):
        """something no longer checks: hunt for a concrete network + step on which the real simulator breaks the balance"""
        wntr = vlib.import_wntr()
        self.max_res = 0.0
        corpus = [c["spec"] for _, c in vlib.corpus_items(self.pid) if "spec" in c]
        f, b = self._run_specs(ctx, wntr, corpus + C.reversal_specs(ctx, 30) + C.gen_specs(ctx, 80, 36) + rule_step_specs(ctx, 24))
        return f

    def replay(self, ctx, path):
        r = json.load(open(path if os.path.isabs(path) else os.path.join(vlib.VERIF, path)))
        print(json.dumps({k: v for k, v in r.items() if k != "replay"}, indent=1, default=str)[:3000])
        rp = r.get("replay", {})
        if "spec" not in rp:
            print("replay: nothing to re-run (no concrete input recorded)")
            return 0
        wntr = vlib.import_wntr()
        self.max_res = 0.0
        fs, bs = self._run_specs(ctx, wntr, [rp["spec"]])
        hit = [f for f in fs if f.key == r.get("key")]
        print("replay: %s" % ("REPRODUCED " + hit[0].what if hit else "not reproduced on the current tree"))
        return 1 if hit else 0


if __name__ == "__main__":
    vlib.run_check(C01)
