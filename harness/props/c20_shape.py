"""C20 statement-level translator: python functions with control flow -> Lean definitions (Gen/PatternFormulas.lean).

Where c20_translate.py flattens pandas arithmetic into MExpr terms, this one transliterates the CONTROL FLOW of small
scalar functions syntax-directed into Lean source text:

  Pattern.at, TimeSeries.at, Demands.at            (wntr/network/elements.py)
  _gcd (while loop -> fuelled recursion), _lcm, _lcml, the window of average_expected_demand   (wntr/metrics/hydraulic.py)
  _interp_extrapolate                               (wntr/network/elements.py)

  x = e / a, b = e1, e2      let
  if / elif / else           `if … then … else …`; a branch that does not return hands the variables it assigns on as a tuple
  return e                   the value
  for v in xs: …             List.foldl over the variables the body assigns
  while c: …                 a recursive helper with a fuel argument (the caller supplies the fuel, see CALL_FUEL)
  acc += e, L.append(e)      let acc := acc + e, let L := L ++ [e]

Types (Int / Rat / Bool / lists / records of Model/Pattern.lean) are inferred bottom-up from the declared types of the
parameters and attributes; Int meets Rat by a cast of the Int side; `//` and `%` are Lean's Int `/` and `%` (equal to
python's for a positive divisor).  Props/C20.lean proves every generated definition equal to the hand model
(Model/Pattern.lean, Model/Metrics.lean) for all inputs.  Anything outside the subset raises BrokenTie.
"""
import ast
import os
import sys
from fractions import Fraction

sys.path.insert(0, os.path.dirname(os.path.dirname(os.path.abspath(__file__))))
import vlib
from vlib import BrokenTie

NUM = ("Int", "Rat")


class Tr:
    """translator of one function body; env: python name -> (lean expr, type)"""

    def __init__(self, attrs, calls, truthy, helpers):
        self.attrs = attrs      # ("self", "attr") chains -> (lean, type) | ("assume", bool)
        self.calls = calls      # python callee text -> handler(args:[(lean,type)], kwargs) -> (lean, type)
        self.truthy = truthy    # type -> lambda lean: Prop text
        self.helpers = helpers  # list of emitted helper defs (while loops)
        self.fresh = 0

    # ------------------------------------------------------------ expressions
    def cast(self, a, want):
        code, t = a
        if t == want:
            return code
        if t == "Int" and want == "Rat":
            return "((%s : Int) : Rat)" % code
        raise BrokenTie("cannot use a %s where a %s is needed: %s" % (t, want, code))

    def num2(self, a, b):
        if a[1] not in NUM or b[1] not in NUM:
            raise BrokenTie("arithmetic on %s and %s" % (a[1], b[1]))
        t = "Rat" if "Rat" in (a[1], b[1]) else "Int"
        return self.cast(a, t), self.cast(b, t), t

    def attr_chain(self, n):
        parts = []
        while isinstance(n, ast.Attribute):
            parts.append(n.attr)
            n = n.value
        if isinstance(n, ast.Name):
            parts.append(n.id)
            return tuple(reversed(parts))
        return None

    def expr(self, n, env):
        if isinstance(n, ast.Constant):
            v = n.value
            if isinstance(v, bool):
                return ("true" if v else "false", "Bool")
            if isinstance(v, int):
                return ("(%d : Int)" % v, "Int")
            if isinstance(v, float):
                fr = Fraction(repr(v))
                return ("(%d / %d : Rat)" % (fr.numerator, fr.denominator) if fr.denominator != 1 else "(%d : Rat)" % fr.numerator, "Rat")
            if v is None:
                return ("none", "None")
            raise BrokenTie("constant %r" % (v,))
        if isinstance(n, ast.Name):
            if n.id in env:
                return env[n.id]
            raise BrokenTie("unknown name %s" % n.id)
        if isinstance(n, ast.Attribute):
            ch = self.attr_chain(n)
            if ch is not None:
                # longest declared prefix first: ("self","_time_options","pattern_timestep")
                if ch in self.attrs:
                    return self.attrs[ch]
                if ch[0] in env and len(ch) == 2:
                    base, bt = env[ch[0]]
                    key = (bt, ch[1])
                    if key in self.attrs:
                        code, t = self.attrs[key]
                        return (code % base, t)
            raise BrokenTie("unknown attribute %s" % ast.unparse(n))
        if isinstance(n, ast.UnaryOp) and isinstance(n.op, ast.USub):
            c, t = self.expr(n.operand, env)
            if t not in NUM:
                raise BrokenTie("minus of %s" % t)
            return ("(-%s)" % c, t)
        if isinstance(n, ast.BinOp):
            a, b = self.expr(n.left, env), self.expr(n.right, env)
            if isinstance(n.op, (ast.Add, ast.Sub, ast.Mult)):
                if isinstance(n.op, ast.Add) and a[1] == b[1] and a[1].startswith("List"):
                    return ("(%s ++ %s)" % (a[0], b[0]), a[1])
                x, y, t = self.num2(a, b)
                return ("(%s %s %s)" % (x, {ast.Add: "+", ast.Sub: "-", ast.Mult: "*"}[type(n.op)], y), t)
            if isinstance(n.op, ast.Div):
                return ("(%s / %s)" % (self.cast(a, "Rat"), self.cast(b, "Rat")), "Rat")
            if isinstance(n.op, (ast.FloorDiv, ast.Mod)):
                if a[1] != "Int" or b[1] != "Int":
                    raise BrokenTie("// or %% on %s, %s" % (a[1], b[1]))
                return ("(%s %s %s)" % (a[0], "/" if isinstance(n.op, ast.FloorDiv) else "%", b[0]), "Int")
            raise BrokenTie("operator in " + ast.unparse(n))
        if isinstance(n, ast.Subscript):
            a = self.expr(n.value, env)
            sl = n.slice
            if isinstance(sl, ast.UnaryOp) and isinstance(sl.op, ast.USub) and isinstance(sl.operand, ast.Constant) and isinstance(sl.operand.value, int):
                sl = ast.Constant(value=-sl.operand.value)
            if isinstance(sl, ast.Constant) and isinstance(sl.value, int) and sl.value < 0 and a[1] == "List Rat":
                k = -sl.value
                return ("(%s.getD (%s.length - %d) 0)" % (a[0], a[0], k), "Rat")
            i = self.expr(n.slice, env)
            if a[1] == "List Rat" and i[1] == "Int":
                return ("(%s.getD (%s).toNat 0)" % (a[0], i[0]), "Rat")
            raise BrokenTie("subscript " + ast.unparse(n))
        if isinstance(n, ast.List):
            items = [self.expr(e, env) for e in n.elts]
            if items and all(t == "Int" for _, t in items):
                return ("[%s]" % ", ".join(c for c, _ in items), "List Int")
            raise BrokenTie("list " + ast.unparse(n))
        if isinstance(n, ast.Tuple):
            items = [self.expr(e, env) for e in n.elts]
            return ("(%s)" % ", ".join(c for c, _ in items), "(" + " × ".join(t for _, t in items) + ")")
        if isinstance(n, ast.Call):
            return self.call(n, env)
        if isinstance(n, (ast.Compare, ast.BoolOp)) or (isinstance(n, ast.UnaryOp) and isinstance(n.op, ast.Not)):
            return ("(decide (%s))" % self.prop(n, env), "Bool")
        raise BrokenTie("expression " + ast.unparse(n)[:80])

    def call(self, n, env):
        f = ast.unparse(n.func)
        args = [self.expr(a, env) for a in n.args if not isinstance(a, ast.Starred)]
        star = [self.expr(a.value, env) for a in n.args if isinstance(a, ast.Starred)]
        kw = {k.arg: self.expr(k.value, env) for k in n.keywords}
        if f == "len" and len(args) == 1 and args[0][1].startswith("List"):
            return ("(%s.length : Int)" % args[0][0], "Int")
        if f == "int" and len(args) == 1 and args[0][1] == "Int":
            return args[0]
        # method call on a typed value: <expr>.at(...)
        if isinstance(n.func, ast.Attribute):
            recv = None
            try:
                recv = self.expr(n.func.value, env)
            except BrokenTie:
                recv = None
            if recv is not None:
                key = (recv[1], n.func.attr + "()")
                if key in self.calls:
                    return self.calls[key](recv, args, kw)
        if f in self.calls:
            return self.calls[f](args + star, kw)
        raise BrokenTie("call " + ast.unparse(n)[:80])

    # ------------------------------------------------------------ conditions (Lean Props)
    def prop(self, n, env):
        if isinstance(n, ast.BoolOp):
            op = " ∧ " if isinstance(n.op, ast.And) else " ∨ "
            return "(" + op.join(self.prop(v, env) for v in n.values) + ")"
        if isinstance(n, ast.UnaryOp) and isinstance(n.op, ast.Not):
            return "(¬ %s)" % self.prop(n.operand, env)
        if isinstance(n, ast.Compare) and len(n.ops) == 1:
            op = n.ops[0]
            a, b = self.expr(n.left, env), self.expr(n.comparators[0], env)
            if isinstance(op, (ast.Is, ast.IsNot)) and b[1] == "None":
                if a[1] == "AssumeNotNone":
                    return "False" if isinstance(op, ast.Is) else "True"
                if a[1].startswith("Option "):
                    return "(%s %s none)" % (a[0], "=" if isinstance(op, ast.Is) else "≠")
                raise BrokenTie("`is None` on %s" % a[1])
            sym = {ast.Eq: "=", ast.NotEq: "≠", ast.Lt: "<", ast.LtE: "≤", ast.Gt: ">", ast.GtE: "≥"}.get(type(op))
            if sym is None:
                raise BrokenTie("comparison " + ast.unparse(n))
            if a[1] in NUM and b[1] in NUM:
                x, y, _ = self.num2(a, b)
                return "(%s %s %s)" % (x, sym, y)
            if a[1] == b[1] and sym in ("=", "≠"):
                return "(%s %s %s)" % (a[0], sym, b[0])
            raise BrokenTie("comparison of %s with %s" % (a[1], b[1]))
        c, t = self.expr(n, env)
        if t == "Bool":
            return "(%s = true)" % c
        if t == "Int":
            return "(%s ≠ 0)" % c
        if t in self.truthy:
            return self.truthy[t](c)
        raise BrokenTie("truth value of a %s: %s" % (t, ast.unparse(n)[:60]))

    # ------------------------------------------------------------ statements
    def assigned(self, stmts):
        out = []

        def add(t):
            if isinstance(t, ast.Name):
                if t.id not in out:
                    out.append(t.id)
            elif isinstance(t, ast.Tuple):
                for e in t.elts:
                    add(e)

        for s in stmts:
            if isinstance(s, ast.Assign):
                for t in s.targets:
                    add(t)
            elif isinstance(s, ast.AugAssign):
                add(s.target)
            elif isinstance(s, ast.If):
                for v in self.assigned(s.body) + self.assigned(s.orelse):
                    if v not in out:
                        out.append(v)
            elif isinstance(s, (ast.For, ast.While)):
                for v in self.assigned(s.body):
                    if v not in out:
                        out.append(v)
            elif isinstance(s, ast.Expr) and isinstance(s.value, ast.Call) and isinstance(s.value.func, ast.Attribute) \
                    and s.value.func.attr == "append" and isinstance(s.value.func.value, ast.Name):
                if s.value.func.value.id not in out:
                    out.append(s.value.func.value.id)
        return out

    def returns(self, stmts):
        """every path through stmts ends in return / raise"""
        for s in stmts:
            if isinstance(s, (ast.Return, ast.Raise)):
                return True
            if isinstance(s, ast.If) and s.orelse and self.returns(s.body) and self.returns(s.orelse):
                return True
        return False

    def has_return(self, stmts):
        for s in stmts:
            for x in ast.walk(s):
                if isinstance(x, (ast.Return, ast.Raise)):
                    return True
        return False

    def state_tuple(self, names, env):
        vals = [env[v] for v in names]
        if len(vals) == 1:
            return vals[0]
        return ("(%s)" % ", ".join(c for c, _ in vals), "(" + " × ".join(t for _, t in vals) + ")")

    def bind_state(self, names, env, types):
        env = dict(env)
        for v, t in zip(names, types):
            env[v] = (v, t)
        pat = names[0] if len(names) == 1 else "(%s)" % ", ".join(names)
        return pat, env

    def block(self, stmts, env, tail, ind):
        """Lean text of `stmts` followed by `tail(env)` (a function giving the text of what comes after); ind = indent"""
        if not stmts:
            return tail(env)
        s, rest = stmts[0], stmts[1:]
        sp = "  " * ind
        nxt = lambda e: self.block(rest, e, tail, ind)
        if isinstance(s, ast.Expr) and isinstance(s.value, ast.Constant):
            return nxt(env)
        if isinstance(s, ast.Return):
            return sp + self.expr(s.value, env)[0]
        if isinstance(s, ast.Raise):
            raise BrokenTie("raise in a function translated without an error value")
        if isinstance(s, ast.Assign) and len(s.targets) == 1:
            t = s.targets[0]
            if isinstance(t, ast.Name):
                c, ty = self.expr(s.value, env)
                e2 = dict(env)
                e2[t.id] = (t.id, ty)
                return "%slet %s : %s := %s\n%s" % (sp, t.id, ty, c, nxt(e2))
            if isinstance(t, ast.Tuple) and isinstance(s.value, ast.Tuple) and len(t.elts) == len(s.value.elts) and all(isinstance(x, ast.Name) for x in t.elts):
                vals = [self.expr(v, env) for v in s.value.elts]  # evaluated before any is assigned
                e2 = dict(env)
                names = [x.id for x in t.elts]
                for nm, (_, ty) in zip(names, vals):
                    e2[nm] = (nm, ty)
                return "%slet (%s) : %s := (%s)\n%s" % (sp, ", ".join(names), " × ".join(ty for _, ty in vals), ", ".join(c for c, _ in vals), nxt(e2))
        if isinstance(s, ast.AugAssign) and isinstance(s.target, ast.Name) and isinstance(s.op, (ast.Add, ast.Sub, ast.Mult)):
            fake = ast.Assign(targets=[s.target], value=ast.BinOp(left=ast.Name(id=s.target.id, ctx=ast.Load()), op=s.op, right=s.value))
            return self.block([fake] + rest, env, tail, ind)
        if isinstance(s, ast.Expr) and isinstance(s.value, ast.Call) and isinstance(s.value.func, ast.Attribute) and s.value.func.attr == "append" \
                and isinstance(s.value.func.value, ast.Name) and len(s.value.args) == 1:
            nm = s.value.func.value.id
            lst = env.get(nm)
            item = self.expr(s.value.args[0], env)
            if lst is None or lst[1] != "List " + item[1]:
                raise BrokenTie("append of a %s to %s" % (item[1], lst[1] if lst else "an unknown list"))
            e2 = dict(env)
            e2[nm] = (nm, lst[1])
            return "%slet %s : %s := %s ++ [%s]\n%s" % (sp, nm, lst[1], lst[0], item[0], nxt(e2))
        if isinstance(s, ast.If):
            c = self.prop(s.test, env)
            if c in ("False", "True"):  # statically decided (declared assumption)
                return self.block((s.body if c == "True" else s.orelse) + rest, env, tail, ind)
            if self.has_return(s.body) or self.has_return(s.orelse):
                # continuation is duplicated into the branches that fall through
                a = self.block(s.body + rest, env, tail, ind + 1)
                b = self.block(s.orelse + rest, env, tail, ind + 1)
                return "%sif %s then\n%s\n%selse\n%s" % (sp, c, a, sp, b)
            names = [v for v in self.assigned(s.body + s.orelse)]
            # the branches hand on the variables they assign
            outs = {}

            def end(e, key):
                outs[key] = [e[v][1] if v in e else None for v in names]
                if any(t is None for t in outs[key]):
                    raise BrokenTie("%s is assigned in one branch only and not defined before" % names)
                return "  " * (ind + 2) + self.state_tuple(names, e)[0]

            a = self.block(s.body, env, lambda e: end(e, "a"), ind + 2)
            b = self.block(s.orelse, env, lambda e: end(e, "b"), ind + 2)
            if outs["a"] != outs["b"]:
                raise BrokenTie("branches give %s different types %s / %s" % (names, outs["a"], outs["b"]))
            pat, e2 = self.bind_state(names, env, outs["a"])
            ty = " × ".join(outs["a"])
            return "%slet %s : %s :=\n%s  if %s then\n%s\n%s  else\n%s\n%s" % (sp, pat, ty, sp, c, a, sp, b, nxt(e2))
        if isinstance(s, ast.For) and not s.orelse:
            it = self.expr(s.iter, env)
            if not it[1].startswith("List "):
                raise BrokenTie("loop over a %s" % it[1])
            elt = it[1][5:]
            names = self.assigned(s.body)
            if self.has_return(s.body) or not names or any(v not in env for v in names):
                raise BrokenTie("unsupported for loop: " + ast.unparse(s)[:60])
            types = [env[v][1] for v in names]
            pat, e2 = self.bind_state(names, env, types)
            if isinstance(s.target, ast.Name):
                lv = s.target.id
            else:
                raise BrokenTie("loop target " + ast.unparse(s.target))
            e3 = dict(e2)
            e3[lv] = (lv, elt)

            def end(e):
                got = [e[v][1] for v in names]
                if got != types:
                    raise BrokenTie("loop changes the type of %s" % names)
                return "  " * (ind + 2) + self.state_tuple(names, e)[0]

            body = self.block(s.body, e3, end, ind + 2)
            ty = " × ".join(types)
            return "%slet %s : %s := (%s).foldl (fun (%s : %s) (%s : %s) =>\n%s) %s\n%s" % (
                sp, pat, ty, it[0], ("st_" if len(names) > 1 else names[0]), ty, lv, elt,
                (("  " * (ind + 2) + "let %s := st_\n" % pat) if len(names) > 1 else "") + body, self.state_tuple(names, env)[0], nxt(e2))
        if isinstance(s, ast.While) and not s.orelse:
            names = self.assigned(s.body)
            if self.has_return(s.body) or any(v not in env for v in names):
                raise BrokenTie("unsupported while loop")
            types = [env[v][1] for v in names]
            self.fresh += 1
            hname = "%s_loop%d" % (self.fname, self.fresh)
            pat, e2 = self.bind_state(names, env, types)
            cond = self.prop(s.test, e2)
            tup = self.state_tuple(names, e2)[0]

            def end(e):
                return "      %s fuel %s" % (hname, " ".join(e[v][0] for v in names))

            body = self.block(s.body, e2, end, 3)
            ty = " × ".join(types)
            self.helpers.append(
                "/-- the `while %s:` loop of `%s`; `fuel` bounds the number of iterations -/\ndef %s : Nat → %s → %s\n  | 0, %s => %s\n  | fuel + 1, %s =>\n    if %s then\n%s\n    else %s\n"
                % (ast.unparse(s.test), self.fname, hname, " → ".join(types), ty if len(types) > 1 else types[0], ", ".join(names), tup, ", ".join(names), cond, body, tup))
            return "%slet %s : %s := %s fuel %s\n%s" % (sp, pat, ty, hname, " ".join(env[v][0] for v in names), nxt(e2))
        raise BrokenTie("unsupported statement: " + ast.unparse(s)[:80])

    def function(self, fn, lean_name, params, ret, env, doc):
        self.fname = lean_name
        body = self.block(fn.body, env, lambda e: (_ for _ in ()).throw(BrokenTie("%s can end without a return" % lean_name)), 1)
        sig = " ".join("(%s : %s)" % (n, t) for n, t in params)
        return "/-- %s -/\ndef %s %s : %s :=\n%s\n" % (doc, lean_name, sig, ret, body)


def find(tree, qual):
    parts = qual.split(".")
    body = tree.body
    node = None
    for p in parts:
        node = None
        for n in body:
            if isinstance(n, (ast.FunctionDef, ast.ClassDef)) and n.name == p:
                node = n
                break
        if node is None:
            raise BrokenTie("%s not found" % qual)
        body = node.body
    return node


def add_pattern_binding(repo):
    """PatternRegistry.add_pattern: which time options the REGISTERED pattern ends up with, for a list of multipliers, a
    Pattern object without time options and a Pattern object that already has some -> [(case, "model" | "own" | other text)]"""
    tree = ast.parse(open(os.path.join(repo, "wntr/network/model.py")).read())
    fn = find(tree, "PatternRegistry.add_pattern")
    model_opts = ("self._options.time",)
    out = []
    for case, is_obj, own_none in (("list", False, None), ("objectUnbound", True, True), ("objectBound", True, False)):
        src = "own" if is_obj else None

        def truth(t):
            if isinstance(t, ast.UnaryOp) and isinstance(t.op, ast.Not):
                return not truth(t.operand)
            txt = ast.unparse(t)
            if txt == "isinstance(pattern, Pattern)":
                return is_obj
            if txt in ("pattern.time_options is None", "pattern._time_options is None"):
                if not is_obj:
                    raise BrokenTie("add_pattern tests the time options of something that is not a Pattern")
                return own_none
            if txt in ("pattern.time_options is not None", "pattern._time_options is not None"):
                return not own_none
            raise BrokenTie("add_pattern: unexpected test `%s`" % txt)

        def run(stmts):
            nonlocal src, is_obj
            for st in stmts:
                if isinstance(st, ast.Expr) and isinstance(st.value, ast.Constant):
                    continue
                if isinstance(st, ast.Assert):
                    continue
                if isinstance(st, ast.If):
                    txt = ast.unparse(st.test)
                    if "time_options" in txt or "isinstance(pattern, Pattern)" in txt:
                        run(st.body if truth(st.test) else st.orelse)
                        continue
                    if "pattern" in txt and ("_data" in txt or "name" in txt):
                        continue  # duplicate-name check
                    continue
                if isinstance(st, ast.Assign) and len(st.targets) == 1:
                    tg = ast.unparse(st.targets[0])
                    if tg == "pattern" and isinstance(st.value, ast.Call) and ast.unparse(st.value.func) == "Pattern":
                        kw = {k.arg: ast.unparse(k.value) for k in st.value.keywords}
                        to = kw.get("time_options")
                        src = "none" if to is None else ("model" if to in model_opts else to)
                        is_obj = True
                        continue
                    if tg in ("pattern.time_options", "pattern._time_options"):
                        v = ast.unparse(st.value)
                        src = "model" if v in model_opts else v
                        continue
                if isinstance(st, (ast.Raise, ast.Return)):
                    return

        run(fn.body)
        out.append((case, src))
    return out


def generate(repo=None):
    repo = repo or vlib.REPO
    el = ast.parse(open(os.path.join(repo, "wntr/network/elements.py")).read())
    hy = ast.parse(open(os.path.join(repo, "wntr/metrics/hydraulic.py")).read())
    helpers = []
    out = []
    truthy = {
        "Option Pat": lambda c: "((match %s with | none => false | some p_ => decide (p_.mults.length ≠ 0)) = true)" % c,  # Pattern.__len__
        "Option String": lambda c: "((match %s with | none => false | some c_ => decide (c_ ≠ \"\")) = true)" % c,
    }

    # ---- Pattern.at(self, time)
    attrs = {("self", "_multipliers"): ("mults", "List Rat"), ("self", "wrap"): ("wrap", "Bool"),
             ("self", "_time_options"): ("topts", "AssumeNotNone"),  # the RuntimeError branch is Pat.atE (hand model)
             ("self", "_time_options", "pattern_timestep"): ("pts_", "Int"),
             ("self", "_time_options", "pattern_interpolation"): ("ipl_", "Bool")}
    tr = Tr(attrs, {}, truthy, helpers)
    out.append(tr.function(find(el, "Pattern.at"), "patternAt",
                           [("mults", "List Rat"), ("wrap", "Bool"), ("pts_", "Int"), ("ipl_", "Bool"), ("time", "Int")], "Rat",
                           {"time": ("time", "Int")}, "`Pattern.at(time)` (time options present)"))

    # ---- TimeSeries.at(self, time)
    def pat_at(recv, args, kw):
        if len(args) != 1 or args[0][1] != "Int" or kw:
            raise BrokenTie("Pattern.at called with other arguments than (time)")
        return ("(match %s with | none => (1 : Rat) | some p_ => patternAt p_.mults p_.wrap pts_ ipl_ %s)" % (recv[0], args[0][0]), "Rat")

    attrs = {("self", "pattern"): ("d.pat", "Option Pat"), ("self", "_base"): ("d.base", "Rat")}
    tr = Tr(attrs, {("Option Pat", "at()"): pat_at}, truthy, helpers)
    out.append(tr.function(find(el, "TimeSeries.at"), "timeSeriesAt", [("d", "TS"), ("pts_", "Int"), ("ipl_", "Bool"), ("time", "Int")], "Rat",
                           {"time": ("time", "Int")}, "`TimeSeries.at(time)`"))

    # ---- Demands.at(self, time, category=None, multiplier=1)
    def ts_at(recv, args, kw):
        if len(args) != 1 or args[0][1] != "Int" or kw:
            raise BrokenTie("TimeSeries.at called with other arguments than (time)")
        return ("(timeSeriesAt %s pts_ ipl_ %s)" % (recv[0], args[0][0]), "Rat")

    attrs = {("self", "_list"): ("l", "List TS"), ("TS", "category"): ("%s.cat", "Option String")}
    tr = Tr(attrs, {("TS", "at()"): ts_at}, truthy, helpers)
    out.append(tr.function(find(el, "Demands.at"), "demandsAtGen",
                           [("l", "List TS"), ("pts_", "Int"), ("ipl_", "Bool"), ("category", "Option String"), ("multiplier", "Rat"), ("time", "Int")], "Rat",
                           {"time": ("time", "Int"), "category": ("category", "Option String"), "multiplier": ("multiplier", "Rat")},
                           "`Demands.at(time, category, multiplier)`"))

    # ---- _gcd, _lcm, _lcml
    tr = Tr({}, {}, truthy, helpers)
    out.append(tr.function(find(hy, "_gcd"), "gcdGen", [("fuel", "Nat"), ("x", "Int"), ("y", "Int")], "Int",
                           {"x": ("x", "Int"), "y": ("y", "Int")}, "`_gcd(x, y)`; the while loop runs on `fuel`"))

    def gcd_call(args, kw):
        if len(args) != 2 or kw or any(t != "Int" for _, t in args):
            raise BrokenTie("_gcd called with other arguments than two integers")
        return ("(gcdGen ((%s).natAbs + 1) %s %s)" % (args[1][0], args[0][0], args[1][0]), "Int")  # CALL_FUEL: |y| + 1 iterations suffice

    tr = Tr({}, {"_gcd": gcd_call}, truthy, helpers)
    out.append(tr.function(find(hy, "_lcm"), "lcmGen", [("x", "Int"), ("y", "Int")], "Int", {"x": ("x", "Int"), "y": ("y", "Int")}, "`_lcm(x, y)`"))

    def reduce_call(args, kw):
        # reduce(_lcm, *list) with list = (L,): functools.reduce over L, first element as the start value
        if len(args) == 2 and args[0][1] == "Fn:_lcm" and args[1][1] == "List Int" and not kw:
            return ("(match %s with | [] => (0 : Int) | a_ :: r_ => r_.foldl lcmGen a_)" % args[1][0], "Int")
        raise BrokenTie("reduce called in an unexpected way")

    tr = Tr({}, {"reduce": reduce_call}, truthy, helpers)
    out.append(tr.function(find(hy, "_lcml"), "lcmlGen", [("list", "List Int")], "Int", {"list": ("list", "List Int"), "_lcm": ("lcmGen", "Fn:_lcm")}, "`_lcml(L)` = `reduce(_lcm, L)`"))

    # ---- average_expected_demand: the arguments it passes to expected_demand (the mean over that window is the result)
    def lcml_call(args, kw):
        if len(args) == 1 and args[0][1] == "List Int":
            return ("(lcmlGen %s)" % args[0][0], "Int")
        raise BrokenTie("_lcml called in an unexpected way")

    def expdem_call(args, kw):
        if len(args) == 4 and args[0][1] == "Net" and all(t == "Int" for _, t in args[1:]) and list(kw) == ["category"] and kw["category"][1] == "CategoryArg":
            return ("(%s, %s, %s)" % (args[1][0], args[2][0], args[3][0]), "Window")
        raise BrokenTie("expected_demand called with other arguments than (wn, start, end, timestep, category=category)")

    def mean_call(recv, args, kw):
        if not args and list(kw) == ["axis"] and kw["axis"][0] == "(0 : Int)":
            return recv  # the mean over the rows (times) of that window
        raise BrokenTie("unexpected mean")

    def patterns_call(recv, args, kw):
        return ("patLens", "List PatLen")

    attrs = {("wn", "options", "time", "pattern_timestep"): ("pts_", "Int"), ("wn", "options", "time", "pattern_start"): ("pstart_", "Int"),
             ("PatLen", "multipliers"): ("(List.replicate %s (0 : Rat))", "List Rat")}
    tr = Tr(attrs, {"_lcml": lcml_call, "expected_demand": expdem_call, ("Window", "mean()"): mean_call, ("Net", "patterns()"): patterns_call}, truthy, helpers)
    fn = find(hy, "average_expected_demand")
    # `for name, pattern in wn.patterns()`: only the pattern is used
    fn2 = ast.parse(ast.unparse(fn)).body[0]
    for node in ast.walk(fn2):
        if isinstance(node, ast.For) and isinstance(node.target, ast.Tuple) and len(node.target.elts) == 2:
            used = {x.id for x in ast.walk(ast.Module(body=node.body, type_ignores=[])) if isinstance(x, ast.Name)}
            if node.target.elts[0].id in used:
                raise BrokenTie("average_expected_demand uses the pattern NAME in its loop")
            node.target = node.target.elts[1]
    out.append(tr.function(fn2, "avgWindowGen", [("patLens", "List Nat"), ("pts_", "Int"), ("pstart_", "Int")], "Int × Int × Int",
                           {"wn": ("wn", "Net"), "category": ("category", "CategoryArg")},
                           "`average_expected_demand`: (start_time, end_time, timestep) handed to `expected_demand` (its mean over the times is returned)")
               .replace("List PatLen", "List Nat").replace(": PatLen)", ": Nat)").replace(": Window :=", ": Int × Int × Int :="))

    # ---- _interp_extrapolate(x, xp, fp)
    def interp_call(args, kw):
        if len(args) == 3 and args[0][1] == "Rat" and args[1][1] == "List Rat" and args[2][1] == "List Rat":
            return ("(Wntr.Metrics.interp (List.zip %s %s) %s)" % (args[1][0], args[2][0], args[0][0]), "Rat")
        raise BrokenTie("np.interp called in an unexpected way")

    def minmax(which):
        def h(args, kw):
            if len(args) == 2 and all(t in NUM for _, t in args):
                a, b = ("((%s : Int) : Rat)" % c if t == "Int" else c for c, t in args)
                return ("(if %s %s %s then %s else %s)" % (a, "≤" if which == "min" else "≥", b, a, b), "Rat")
            raise BrokenTie("np.%simum called in an unexpected way" % which)
        return h

    tr = Tr({}, {"np.interp": interp_call, "np.minimum": minmax("min"), "np.maximum": minmax("max")}, truthy, helpers)
    out.append(tr.function(find(el, "_interp_extrapolate"), "interpExtrapolateGen", [("x", "Rat"), ("xp", "List Rat"), ("fp", "List Rat")], "Rat",
                           {"x": ("x", "Rat"), "xp": ("xp", "List Rat"), "fp": ("fp", "List Rat")},
                           "`_interp_extrapolate(x, xp, fp)`; `np.interp` is the hand model `Metrics.interp` (contract + differential run)"))

    text = [
        "-- GENERATED by harness/props/c20_shape.py from wntr/network/elements.py (Pattern.at, TimeSeries.at, Demands.at, _interp_extrapolate)",
        "-- and wntr/metrics/hydraulic.py (_gcd, _lcm, _lcml, average_expected_demand). Do not edit.",
        "import WntrModel.Model.Pattern",
        "import WntrModel.Model.Metrics",
        "namespace Wntr.Metrics.GenShape",
        "open Wntr.Pattern",
        "",
    ]
    # helpers (while loops) must precede their users: emit each right before the first def that mentions it
    defs = list(out)
    done = []
    for d in defs:
        for h in helpers:
            nm = h.split("def ")[1].split(" ")[0]
            if nm in d and h not in done:
                text.append(h)
                done.append(h)
        text.append(d)
    binds = add_pattern_binding(repo)
    text.append("/-- `PatternRegistry.add_pattern` (wntr/network/model.py): the time options the registered pattern is evaluated with, for a list")
    text.append("of multipliers, a Pattern object without time options, a Pattern object that already carries time options -/")
    text.append("def addPatternTimeOptions : List (String × String) := [%s]" % ", ".join('("%s", "%s")' % (a, b.replace('"', "'")) for a, b in binds))
    text.append("")
    text.append("end Wntr.Metrics.GenShape")
    return "\n".join(text) + "\n"


if __name__ == "__main__":
    print(generate(sys.argv[1] if len(sys.argv) > 1 else None), end="")
