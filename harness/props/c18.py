"""C18 -- valve segmentation is exactly the partition induced by the valve layer.

Lean side: Model/Segments.lean (M9) + Props/C18.lean: for every multigraph without self-loops, every valid valve layer (duplicates
allowed) and every component function satisfying the connected-components contract, two elements get the same (positive) label iff
they are joined in the valve-cut incidence graph; sizes count members; num_surround / increase formulas.

Tie (C): random multigraphs <= 30 nodes (parallel links, dead ends, link-less nodes, overlapping node/link names) + random layers incl.
duplicate rows; the REAL `valve_segments` then `valve_segment_attributes` on the SAME DataFrame (documented use) vs the Lean driver
(label-independent partition comparison, attributes exactly as rationals) and vs an independent union-find on the incidence graph.
The contract of `networkx.connected_components` is checked on every call observed.
"""
import json
import os
import sys
import warnings
from fractions import Fraction

sys.path.insert(0, os.path.dirname(os.path.dirname(os.path.abspath(__file__))))
sys.path.insert(0, os.path.dirname(os.path.abspath(__file__)))
import vlib
from vlib import Broken, Failure, Check

DRIVER = "Drivers/SegmentsDriver.lean"


def gen_case(rng, quick=True):
    n = rng.randint(1, 12 if quick else 30)
    links = []
    style = rng.choice(["tree", "loopy", "sparse", "dense"])
    if n >= 2:
        if style != "sparse":
            for v in range(1, n):
                u = rng.randrange(v)
                links.append((u, v) if rng.random() < 0.5 else (v, u))
        extra = {"tree": rng.randint(0, 1), "loopy": rng.randint(1, n), "sparse": rng.randint(0, n), "dense": rng.randint(n, 2 * n)}[style]
        for _ in range(extra):
            a, b = rng.sample(range(n), 2)
            links.append((a, b))
        if links and rng.random() < 0.6:
            for _ in range(rng.randint(1, 3)):
                a, b = rng.choice(links)
                links.append((a, b) if rng.random() < 0.5 else (b, a))
    dens = rng.choice([0.0, 0.1, 0.3, 0.5, 0.8, 1.0])
    layer = []
    for k, (a, b) in enumerate(links):
        for nd in (a, b):
            if rng.random() < dens:
                layer.append((k, nd))
    rng.shuffle(layer)
    dup = False
    if layer and rng.random() < 0.35:
        dup = True
        for _ in range(rng.randint(1, 3)):
            layer.insert(rng.randrange(len(layer) + 1), rng.choice(layer))
    overlap = rng.random() < 0.3
    dem = [rng.choice([0, 0, 1, 2, 3, 5]) for _ in range(n)]
    ln = [rng.choice([0, 10, 20, 35, 50]) for _ in links]
    c = dict(n=n, links=links, layer=layer, overlap=overlap, dem=dem, len=ln, dup=dup)
    r2 = rng.random()
    if r2 < 0.15:
        c["dem_scale"] = rng.choice([1e-9, 2e-9, 1e-10, 1e-12])   # demands of 1e-12 .. 1e-8: non-zero, the ratio is still min/max
        c["dem"] = [rng.choice([1, 2, 3, 5]) for _ in range(n)]
    elif r2 < 0.3:
        # segments without pipe length: pumps / valves only (length 0 on both sides of a valve) next to a few pipes
        c["len"] = [0 if rng.random() < 0.8 else rng.choice([10, 20]) for _ in links]
        if rng.random() < 0.5:
            c["dem"] = [0 if rng.random() < 0.8 else 1 for _ in range(n)]
    if rng.random() < 0.4:
        # the layer as a DataFrame whose two NAMED columns come in the other order, with extra columns, with a non-default index
        # (valve_layer[['node', 'link']], a GIS table with more attributes, rows selected from a larger table)
        c["layer_form"] = rng.choice(["node-link", "extra-columns", "extra-first", "index-offset", "node-link+index-offset"])
        if links and not any((k, links[k][0]) in layer and (k, links[k][1]) in layer for k in range(len(links))):
            k = rng.randrange(len(links))
            for nd in links[k]:
                if (k, nd) not in layer:
                    layer.append((k, nd))
    r = rng.random()
    if r < 0.15:
        c["style"] = "tokens"
    elif r < 0.3:
        # the caller's graph is an undirected MultiGraph and is used for a second call (the first must leave it as it was)
        c["undirected_twice"] = True
    if rng.random() < 0.3:
        # demand / length Series that do not list every name, or list names that are no nodes / links of the graph
        # (the code sums over `index.intersection`: a missing name counts 0, an unknown one is ignored)
        c["dem_missing"] = sorted(rng.sample(range(n), rng.randint(0, min(n, 3))))
        c["len_missing"] = sorted(rng.sample(range(len(links)), rng.randint(0, min(len(links), 3))))
        c["extra_names"] = rng.random() < 0.6
    return c


def demand_values(c):
    sc = c.get("dem_scale")
    return [float(d) * sc for d in c["dem"]] if sc else [float(d) for d in c["dem"]]


def effective(c):
    """the case as the attribute formulas see it: names missing from the Series count 0; scaled demands as the exact rationals of the doubles"""
    if not (c.get("dem_missing") or c.get("len_missing") or c.get("dem_scale")):
        return c
    e = dict(c)
    e["dem"] = [0 if i in c.get("dem_missing", []) else (Fraction(x) if c.get("dem_scale") else d) for i, (d, x) in enumerate(zip(c["dem"], demand_values(c)))]
    e["len"] = [0 if i in c.get("len_missing", []) else d for i, d in enumerate(c["len"])]
    return e


def names(c):
    if c.get("style") == "tokens":
        # names that CONTAIN the internal prefixes 'N_' / 'L_' (JUNCTION_5, WELL_3, N_2, L_1)
        return (["JUNCTION_%d" % i if i % 2 else "N_%d" % i for i in range(c["n"])],
                ["WELL_%d" % k if k % 2 else "L_%d" % k for k in range(len(c["links"]))])
    if c["overlap"]:
        return ["x%d" % i for i in range(c["n"])], ["x%d" % k for k in range(len(c["links"]))]
    return ["n%d" % i for i in range(c["n"])], ["p%d" % k for k in range(len(c["links"]))]


def spec(c):
    """independent: union-find on the valve-cut incidence graph; attributes as exact rationals"""
    n, links = c["n"], c["links"]
    rows = []
    seen = set()
    for i, r in enumerate(c["layer"]):
        r = tuple(r)
        if r not in seen:
            seen.add(r)
            rows.append((i, r))
    par = list(range(n + len(links)))

    def find(x):
        while par[x] != x:
            par[x] = par[par[x]]
            x = par[x]
        return x

    for k, (a, b) in enumerate(links):
        for nd in (a, b):
            if (k, nd) not in seen:
                par[find(n + k)] = find(nd)
    seg_n = [find(u) for u in range(n)]
    seg_l = [find(n + k) for k in range(len(links))]

    def incr(a, b):
        if a == 0 and b == 0:
            return Fraction(0)
        return Fraction(a + b, max(a, b)) - 1

    attrs = {}
    for i, (k, nd) in rows:
        A, B = seg_l[k], seg_n[nd]
        if A == B:
            attrs[i] = (0, Fraction(0), Fraction(0))
            continue
        num = sum(1 for j, (k2, n2) in rows if j != i and (seg_l[k2] in (A, B) or seg_n[n2] in (A, B)))
        d = incr(sum(c["dem"][u] for u in range(n) if seg_n[u] == A), sum(c["dem"][u] for u in range(n) if seg_n[u] == B))
        l = incr(sum(c["len"][k2] for k2 in range(len(links)) if seg_l[k2] == A), sum(c["len"][k2] for k2 in range(len(links)) if seg_l[k2] == B))
        attrs[i] = (num, d, l)
    return seg_n, seg_l, attrs


def canon(labels):
    m = {}
    out = []
    for x in labels:
        if x not in m:
            m[x] = len(m)
        out.append(m[x])
    return out


class CCWatch:
    """wraps networkx.connected_components inside topographic.py and checks its contract on every call"""

    def __init__(self, topo):
        self.topo, self.problems, self.calls = topo, [], 0
        self.orig = topo.nx.connected_components

    def __enter__(self):
        def wrapped(G):
            comps = [set(c) for c in self.orig(G)]
            self.calls += 1
            self.last = comps
            allnodes = set(G.nodes())
            if set().union(*comps) != allnodes if comps else allnodes:
                self.problems.append("components do not cover the nodes")
            if sum(len(c) for c in comps) != len(allnodes):
                self.problems.append("components overlap")
            where = {u: i for i, c in enumerate(comps) for u in c}
            for e in G.edges():
                if where.get(e[0]) != where.get(e[1]):
                    self.problems.append("edge %s crosses components" % (e,))
            for c in comps:  # each class connected
                start = next(iter(c))
                seen, st = {start}, [start]
                while st:
                    u = st.pop()
                    for v in G.neighbors(u):
                        if v not in seen:
                            seen.add(v)
                            st.append(v)
                if seen != c:
                    self.problems.append("component %s not connected" % sorted(c))
            return iter(comps)

        self.topo.nx.connected_components = wrapped
        return self

    def __exit__(self, *a):
        self.topo.nx.connected_components = self.orig


def run_impl(wntr, c):
    import networkx as nx
    import pandas as pd
    import wntr.metrics.topographic as topo

    nn, ln = names(c)
    G = nx.MultiGraph() if c.get("undirected_twice") else nx.MultiDiGraph()
    for x in nn:
        G.add_node(x)
    for k, (a, b) in enumerate(c["links"]):
        G.add_edge(nn[a], nn[b], key=ln[k])
    layer = pd.DataFrame({"link": [ln[k] for k, _ in c["layer"]], "node": [nn[u] for _, u in c["layer"]]},
                         columns=["link", "node"])
    form = c.get("layer_form", "")
    if "extra" in form:
        # extra attributes are those of the valve, i.e. a function of the (link, node) pair: a duplicated row is a duplicate in every column
        # (two rows for one link-node pair that differ elsewhere are two different valves on one spot -- not a layer of the statement)
        layer["diameter"] = [0.1 * ((7 * k + u) % 3 + 1) for k, u in c["layer"]]
        layer["status"] = ["open"] * len(layer)
        layer = layer[["diameter", "link", "status", "node"]] if form == "extra-first" else layer[["link", "node", "diameter", "status"]]
    if "node-link" in form:
        layer = layer[["node", "link"] + [x for x in layer.columns if x not in ("node", "link")]].copy()
    if "index-offset" in form:
        layer.index = [10 * r + 7 for r in range(len(layer))]
    unidx = (lambda i: (int(i) - 7) // 10) if "index-offset" in form else int
    out = {}
    with warnings.catch_warnings():
        warnings.simplefilter("ignore")
        with CCWatch(topo) as w:
            try:
                if c.get("undirected_twice"):
                    topo.valve_segments(G, layer.copy())  # first call; the judged one is the second, on the same graph object
                ns, ls, sz = topo.valve_segments(G, layer)
            except Exception as e:
                out["seg_exc"] = "%s: %s" % (type(e).__name__, e)
                return out
        out["cc_problems"] = w.problems
        out["cc_calls"] = w.calls
        where = {u: k for k, comp in enumerate(getattr(w, "last", [])) for u in comp}
        out["cc_partition"] = [where.get(x) for x in nn] if w.calls else None
        out["node_index_ok"] = sorted(ns.index) == sorted(nn)
        out["link_index_ok"] = sorted(ls.index) == sorted(ln)
        if not (out["node_index_ok"] and out["link_index_ok"]):
            out["cc_problems"] = w.problems
            return out
        out["node"] = [int(ns[x]) for x in nn]
        out["link"] = [int(ls[x]) for x in ln]
        out["sizes"] = {int(s): (int(sz.loc[s, "node"]), int(sz.loc[s, "link"])) for s in sz.index}
        out["layer_index_after"] = [unidx(i) for i in layer.index]
        dem = pd.Series(demand_values(c), index=nn)
        length = pd.Series([float(x) for x in c["len"]], index=ln)
        if c.get("dem_missing"):
            dem = dem.drop([nn[i] for i in c["dem_missing"]])
        if c.get("len_missing"):
            length = length.drop([ln[i] for i in c["len_missing"]])
        if c.get("extra_names"):
            dem = pd.concat([dem, pd.Series([7.0, 11.0], index=["ghost-node-1", "ghost-node-2"])])
            length = pd.concat([pd.Series([13.0], index=["ghost-link-1"]), length])
        try:
            at = topo.valve_segment_attributes(layer, ns, ls, demand=dem, length=length)
            out["attrs"] = {unidx(i): (int(at.loc[i, "num_surround"]), float(at.loc[i, "demand_increase"]), float(at.loc[i, "length_increase"]))
                            for i in at.index}
        except Exception as e:
            out["attr_exc"] = "%s: %r" % (type(e).__name__, e.args[0] if e.args else "")
    return out


def line_of(c):
    c = effective(c)
    return "seg %d | %s | %s | %s | %s" % (
        c["n"], ",".join("%d-%d" % l for l in c["links"]), ",".join("%d-%d" % tuple(r) for r in c["layer"]),
        " ".join("%d/%d" % (Fraction(d).numerator, Fraction(d).denominator) for d in c["dem"]), " ".join("%d/1" % d for d in c["len"]))


def parse_model(s):
    if not s.startswith("ok "):
        return None
    f = dict(p.split("=", 1) for p in s[3:].split(" "))
    nl = [int(x) for x in f["NL"].split(",")] if f["NL"] else []
    ll = [int(x) for x in f["LL"].split(",")] if f["LL"] else []
    sz = {}
    for t in f["SZ"].split(";"):
        if t:
            a, b, c = t.split(":")
            sz[int(a)] = (int(b), int(c))
    at = {}
    for t in f["A"].split(";"):
        if t:
            i, num, d, l = t.split(":")
            at[int(i)] = (int(num), Fraction(d), Fraction(l))
    cp = [int(x) for x in f["CP"].split(",")] if f.get("CP") else []
    return nl, ll, sz, at, cp


class C18(Check):
    pid = "C18"
    level = "proof"
    prop_modules = ["WntrModel.Props.C18"]
    extra_targets = ["WntrModel.Model.Segments", "WntrModel.Model.SegmentsShape"]
    manifest = dict(
        category="proof",
        text="Lean theorems for every multigraph without self-loops, every valid valve layer (any subset of link-end pairs, duplicates "
        "allowed) and every component function satisfying the connected-components contract: all labels are positive, two elements "
        "(nodes or links) get the same label iff they are joined in the valve-cut incidence graph (labels_partition_spec), segment sizes "
        "count their members, num_surround counts the other valves touching either segment and is 0 for equal sides, and the "
        "demand/length increase is (a+b)/max(a,b)-1 = min/max, 0 when both are 0. The contract is PROVED for a concrete components "
        "function (compChecked: n sweeps of min-label relaxation + closure test; compChecked_ok), so labels_partition_concrete has no "
        "hypothesis on networkx; the statement skeleton of valve_segments / _valve_criticality* (de-duplication, the five labelling passes with "
        "guards and statements in order, valved-link definition, assembly, attribute formulas) is regenerated by ast as typed tokens on every run, "
        "proved equal to the reference skeleton (generated_segments_shape_is_ref) whose pass-by-pass interpretation (running seg_index, in-place "
        "seg_label) is proved to compute exactly the closed-form labels / attribute formulas (generated_labels_are_model, "
        "generated_attributes_are_model, generated_labels_partition); networkx.connected_components is tied to it by an explicit differential oracle on every generated graph. The tie is a differential run of the real "
        "valve_segments + valve_segment_attributes (same DataFrame) against the Lean driver and an independent union-find.",
        design_ref="DESIGN.md §5 C18, §4 M9",
        note="trusted: Lean kernel, axioms {propext, Classical.choice, Quot.sound}; the correspondence harness. Modelled, not verified: "
        "networkx.connected_components (a parameter with contract CompOk; the contract is checked on every observed call and its partition is "
        "compared with the Lean components function, for which CompOk is a theorem), pandas containers. A name missing from the demand / length "
        "Series counts 0 and a name that is no node / link is ignored (index.intersection; modelled, generated). Rows naming an unknown link are "
        "ignored by valve_segments and raise KeyError in valve_segment_attributes; a known link with a node that is not its end raises ValueError: "
        "such layers are outside the statement (recorded in the evidence, not judged). The model writes the seg_index counters in closed form and `V_list` as a filter; self-loops and layers whose rows "
        "do not name an end of their link are outside the statement (the model answers `invalid`).",
        technique="Lean 4 proof (abstract labelling characterisation + path induction) + differential run against the Lean driver",
    )
    rule = (
        "obligations: theorems of Props/C18.lean. correspondence cases: one random multigraph (<= 30 nodes) + valve layer + demands/lengths; "
        "distinct = distinct generated inputs; non-trivial = at least one valve and at least two segments"
    )
    trusted_base = [
        "correspondence harness harness/props/c18.py",
        "networkx.connected_components: contract (partition of the nodes into maximal connected classes) checked on every call",
        "pandas Series/DataFrame indexing (exercised)",
    ]
    assumptions = [
        "every row of the valve layer names a link and one of its two end nodes; no link joins a node to itself",
        "valve_segment_attributes is called with the same DataFrame that valve_segments received (documented use)",
    ]

    def translate(self, ctx):
        # statement skeleton of valve_segments / _valve_criticality* as typed tokens (Props/C18: generated_segments_shape_is_ref)
        import c18_translate as T

        try:
            txt = T.translate(vlib.REPO)
        except T.Bad as e:
            raise vlib.BrokenTie(str(e))
        ctx.cov["skeleton_tokens_other"] = txt.split("def segTexts")[0].count(".other")
        vlib.write_if_changed(os.path.join(vlib.GEN, "SegmentsShape.lean"), txt)

    def judge(self, ctx, c, out, failures, broken, model_line):
        sn, sl, sattr = spec(effective(c))
        if c.get("dem_scale"):
            ctx.count("demands:tiny")
        if c["len"] and sum(1 for x in c["len"] if x == 0) * 2 > len(c["len"]):
            ctx.count("lengths:mostly-zero")
        if c.get("layer_form"):
            ctx.count("layer-form:" + c["layer_form"])
        if c.get("style") == "tokens":
            ctx.count("names:containing-N_-or-L_")
        if c.get("undirected_twice"):
            ctx.count("graph:undirected-second-call-on-same-object")
        if c.get("dem_missing") or c.get("len_missing") or c.get("extra_names"):
            ctx.count("attributes:series-missing-or-extra-names")
        nontriv = bool(c["layer"]) and len(set(sn + sl)) > 1
        ctx.case(("seg", json.dumps(c, sort_keys=True)), nontriv)
        ctx.count("layer:dup" if c["dup"] else "layer:nodup")
        if any(c["links"].count(l) + c["links"].count((l[1], l[0])) > 1 for l in c["links"]):
            ctx.count("graph:parallel")
        rep = {"case": c}
        if "seg_exc" in out:
            failures.append(Failure("segments-raises", "valve_segments raised %s" % out["seg_exc"], dict(rep, observed=out["seg_exc"])))
            return
        if out["cc_problems"]:
            broken.append(Broken("correspondence", "networkx.connected_components contract", "; ".join(out["cc_problems"][:3])))
        if not (out["node_index_ok"] and out["link_index_ok"]):
            failures.append(Failure("segments-index", "node/link segments are not indexed by exactly the node / link names", rep))
            return
        if any(x <= 0 for x in out["node"] + out["link"]):
            failures.append(Failure("label-nonpositive", "a node or link has no positive segment number: nodes %s links %s" % (out["node"], out["link"]),
                                    dict(rep, observed={"node": out["node"], "link": out["link"]})))
            return
        if canon(out["node"] + out["link"]) != canon(sn + sl):
            failures.append(Failure("partition" + ("-dup" if c["dup"] else ""),
                                    "segments differ from the partition induced by the valve layer: labels nodes %s links %s, expected classes %s"
                                    % (out["node"], out["link"], canon(sn + sl)),
                                    dict(rep, observed={"node": out["node"], "link": out["link"]}, expected_classes=canon(sn + sl))))
            return
        for s in set(out["node"] + out["link"]):
            exp = (out["node"].count(s), out["link"].count(s))
            if out["sizes"].get(s) != exp:
                failures.append(Failure("sizes", "segment %d size %s, members %s" % (s, out["sizes"].get(s), exp), dict(rep, observed=out["sizes"])))
                return
        if set(out["sizes"]) != set(out["node"] + out["link"]):
            failures.append(Failure("sizes", "segment_size lists segments %s, labels used %s" % (sorted(out["sizes"]), sorted(set(out["node"] + out["link"]))), rep))
            return
        ctx.count("segments:%s" % min(len(set(sn + sl)), 6))
        if "attr_exc" in out:
            gapped = out["layer_index_after"] != list(range(len(out["layer_index_after"])))
            key = "attributes-keyerror-after-dedup" if (gapped and out["attr_exc"].startswith("KeyError")) else "attributes-raises"
            failures.append(Failure(key, "valve_segment_attributes on the DataFrame that valve_segments de-duplicated in place (index %s) raised %s"
                                    % (out["layer_index_after"], out["attr_exc"]) if gapped else "valve_segment_attributes raised %s" % out["attr_exc"],
                                    dict(rep, observed=out["attr_exc"], layer_index_after=out["layer_index_after"])))
        else:
            if set(out["attrs"]) != set(sattr):
                failures.append(Failure("attributes-index", "attributes reported for valves %s, surviving rows %s" % (sorted(out["attrs"]), sorted(sattr)), rep))
                return
            for i, (num, d, l) in sorted(sattr.items()):
                onum, od, ol = out["attrs"][i]
                if onum != num:
                    failures.append(Failure("num-surround", "valve row %d: num_surround %d, expected %d" % (i, onum, num), dict(rep, row=i, observed=onum, expected=num)))
                    return
                if not (abs(od - float(d)) <= 1e-12 and abs(ol - float(l)) <= 1e-12):  # also catches NaN
                    failures.append(Failure("increase", "valve row %d: demand/length increase %r/%r, expected %s/%s" % (i, od, ol, d, l),
                                            dict(rep, row=i, observed=[od, ol], expected=[str(d), str(l)])))
                    return
                ctx.count("valve:same-seg" if (num == 0 and d == 0 and l == 0 and self._same(c, sn, sl, i)) else "valve:separates")
        # model vs implementation
        m = parse_model(model_line)
        if m is None:
            broken.append(Broken("correspondence", "M9 driver", "driver answered %r for %s" % (model_line, line_of(c))))
            return
        mn, ml, msz, mat, mcp = m
        # explicit oracle for the trusted library call: the partition networkx.connected_components returned for the graph
        # without the valved links vs the one of the Lean components function (proved to satisfy CompOk)
        if out.get("cc_partition") is not None:
            same = canon(out["cc_partition"]) == canon(mcp)
            ctx.count("networkx-vs-lean-components:" + ("agree" if same else "DISAGREE"))
            if not same:
                broken.append(Broken("correspondence", "networkx.connected_components vs Lean compChecked",
                                     "%s\nnetworkx %s\nlean     %s" % (line_of(c), canon(out["cc_partition"]), canon(mcp))))
        if canon(mn + ml) != canon(out["node"] + out["link"]) or any(x <= 0 for x in mn + ml):
            broken.append(Broken("correspondence", "M9 labels vs valve_segments", "%s\nimpl  %s %s\nmodel %s %s" % (line_of(c), out["node"], out["link"], mn, ml)))
            self._save(c)
        elif sorted(msz.values()) != sorted(out["sizes"].values()):
            broken.append(Broken("correspondence", "M9 sizes vs valve_segments", "%s\nimpl %s\nmodel %s" % (line_of(c), out["sizes"], msz)))
        elif "attrs" in out and (set(mat) != set(out["attrs"]) or any(
                mat[i][0] != out["attrs"][i][0] or abs(float(mat[i][1]) - out["attrs"][i][1]) > 1e-12 or abs(float(mat[i][2]) - out["attrs"][i][2]) > 1e-12
                for i in mat)):
            broken.append(Broken("correspondence", "M9 attributes vs valve_segment_attributes", "%s\nimpl %s\nmodel %s" % (line_of(c), out["attrs"], mat)))
            self._save(c)
        elif "attrs" not in out and {i: (a, b, cc) for i, (a, b, cc) in mat.items()} != sattr:
            broken.append(Broken("correspondence", "M9 attributes vs specification", "%s\nspec %s\nmodel %s" % (line_of(c), sattr, mat)))

    @staticmethod
    def _same(c, sn, sl, i):
        k, nd = c["layer"][i]
        return sl[k] == sn[nd]

    def _save(self, c):
        import hashlib

        d = os.path.join(vlib.CORPUS, "C18")
        os.makedirs(d, exist_ok=True)
        s = json.dumps(c, sort_keys=True)
        p = os.path.join(d, "auto-%s.json" % hashlib.sha256(s.encode()).hexdigest()[:10])
        if not os.path.exists(p) and len(os.listdir(d)) < 40:
            open(p, "w").write(s)

    def _run_cases(self, ctx, cases, failures, broken):
        wntr = vlib.import_wntr()
        outs = [run_impl(wntr, c) for c in cases]
        lines = [line_of(c) for c in cases]
        mo = vlib.lean_run(DRIVER, "\n".join(lines) + "\n") if lines else []
        if len(mo) != len(lines):
            raise vlib.Infra("SegmentsDriver returned %d lines for %d requests" % (len(mo), len(lines)))
        for c, o, m in zip(cases, outs, mo):
            self.judge(ctx, c, o, failures, broken, m.strip())
        for c, o in zip(cases, outs):
            if c["layer"] and "node" in o:
                ctx.sample({"case": c, "node_segments": o["node"], "link_segments": o["link"], "attrs": o.get("attrs", o.get("attr_exc"))})
                break

    @staticmethod
    def _fix(c):
        c["links"] = [tuple(l) for l in c["links"]]
        c["layer"] = [tuple(l) for l in c["layer"]]
        return c

    def correspondence(self, ctx):
        failures, broken = [], []
        cases = [self._fix(item) for _, item in vlib.corpus_items("C18")]
        cases += [gen_case(ctx.rng, ctx.quick) for _ in range(250 if ctx.quick else 2500)]
        self._run_cases(ctx, cases, failures, broken)
        self._outside_statement(ctx)
        return failures, broken

    def _outside_statement(self, ctx):
        """layers whose rows do not name a link of the graph and one of its ends are no valve layers in the sense of the statement
        (the Lean model answers `invalid`): what the code does with them is recorded, not judged"""
        import networkx as nx
        import pandas as pd
        import wntr.metrics.topographic as topo

        def G0():
            G = nx.MultiDiGraph()
            for x in "ABCD":
                G.add_node(x)
            G.add_edge("A", "B", key="L1"); G.add_edge("B", "C", key="L2"); G.add_edge("C", "D", key="L3")
            return G

        probes = {"unknown-link": [("L9", "A"), ("L2", "B")], "unknown-node": [("L2", "Z"), ("L1", "A")],
                  "node-not-an-end": [("L1", "D"), ("L2", "B")], "unknown-link-and-node": [("L9", "Z")]}
        for nm, rows in probes.items():
            layer = pd.DataFrame(rows, columns=["link", "node"])
            with warnings.catch_warnings():
                warnings.simplefilter("ignore")
                try:
                    ns, ls, _ = topo.valve_segments(G0(), layer)
                    seg = "segments-as-if-row-absent" if len(set(ns.values)) <= 2 else "segments-returned"
                except Exception as e:
                    ctx.count("outside-statement %s: valve_segments raises %s" % (nm, type(e).__name__))
                    continue
                try:
                    topo.valve_segment_attributes(layer, ns, ls)
                    ctx.count("outside-statement %s: %s, attributes returned" % (nm, seg))
                except Exception as e:
                    ctx.count("outside-statement %s: %s, attributes raise %s" % (nm, seg, type(e).__name__))

    def search(self, ctx, broken):
        failures, b2 = [], []
        self._run_cases(ctx, [gen_case(ctx.rng, False) for _ in range(1500)], failures, b2)
        return failures

    def replay(self, ctx, path):
        r = json.load(open(path if os.path.isabs(path) else os.path.join(vlib.VERIF, path)))
        print(json.dumps(r, indent=1)[:3000])
        failures, broken = [], []
        c = r.get("replay", {}).get("case")
        if c:
            self._run_cases(ctx, [self._fix(c)], failures, broken)
        else:
            failures, broken = self.correspondence(ctx)
        hit = [f for f in failures if f.key == r.get("key")] or failures
        print("replay: %s" % ("REPRODUCED " + hit[0].what if hit else "not reproduced on the current tree"))
        return 1 if hit else 0


if __name__ == "__main__":
    vlib.run_check(C18)
