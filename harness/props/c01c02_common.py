"""Shared code of the C01 / C02 checks: real WNTRSimulator runs on seeded random networks with in-process capture of what
the statement needs (isolation flags, leak status at every saved step, the solver's residual norm at return), and the
encoders of the `Drivers/LinkRowsDriver.lean` line protocol.

Adjacency (which links enter / leave a node) is ALWAYS taken from the replayable network spec (start / end names the
generator chose), never from `wn.get_links_for_node`, so that the oracle is independent of the registry bookkeeping.
"""
import json
import math
import os
import re
import struct
import sys
from fractions import Fraction

sys.path.insert(0, os.path.dirname(os.path.dirname(os.path.abspath(__file__))))
import vlib
from vlib import Broken, Failure
import gen_networks as G
from translate import rows_c01c02 as T

DRIVER = "Drivers/LinkRowsDriver.lean"
GEN_TARGETS = ["WntrModel.Model.LinkRows", "WntrModel.Gen.RowsC01", "WntrModel.Gen.RowsC02"]
TOL = 1e-6        # NewtonSolver default stopping bound: max |row residual| < TOL
SLACK = 1e-9      # rounding slack, relative to the sum of |terms|
TIGHT = 1e-12     # tank / reservoir identities, DD demand formula


def fbits(x):
    return str(struct.unpack("<Q", struct.pack("<d", float(x)))[0])


def bitsf(s):
    return struct.unpack("<d", struct.pack("<Q", int(s)))[0]


def fr(x):
    return vlib.frac_str(float(x))


def ratf(s):
    a, b = s.split("/")
    return int(a) / int(b) if abs(int(a)) < 10 ** 300 and int(b) < 10 ** 300 else float(Fraction(int(a), int(b)))


class Batch:
    """collect driver lines with a callback per answer; one `lean_run` for all of them"""

    def __init__(self):
        self.lines, self.cbs = [], []

    def add(self, line, cb):
        self.lines.append(line)
        self.cbs.append(cb)

    def run(self):
        if not self.lines:
            return
        vlib.lake_build(GEN_TARGETS)
        out = vlib.lean_run(DRIVER, "\n".join(self.lines) + "\n")
        if len(out) != len(self.lines):
            raise vlib.Infra("LinkRowsDriver returned %d lines for %d requests" % (len(out), len(self.lines)))
        for o, cb, l in zip(out, self.cbs, self.lines):
            if o == "bad-op":
                raise vlib.Infra("LinkRowsDriver rejected: " + l[:200])
            cb(o)
        self.lines, self.cbs = [], []


# ----------------------------------------------------------------------------- real simulations with capture


def link_kind(l):
    if l["type"] == "pipe":
        return "pipe"
    if l["type"] == "pump":
        return "headPump" if l["pump_type"] == "HEAD" else "powerPump"
    return l["valve_type"].lower()


def adjacency(spec):
    ins, outs = {}, {}
    for nd in spec["nodes"]:
        ins[nd["name"]], outs[nd["name"]] = [], []
    for l in G.effective_links(spec):  # start / end AFTER the spec's topology edits (reverse_link, end-node setters)
        ins[l["end"]].append(l["name"])
        outs[l["start"]].append(l["name"])
    return ins, outs


def reversal_specs(ctx, n):
    """C01 family: random networks (one per three with a tank forced by retrying) whose links are reversed with
    wntr.morph.link.reverse_link / re-assigned through the Link.start_node / end_node setters before simulating"""
    rng = ctx.rng
    out = []
    for i in range(n):
        for _ in range(6):
            spec = G.random_network(rng, quick=True, force={"n_nodes": rng.choice([3, 4, 5, 6, 8, 10])})
            if i % 2 == 1 or any(nd["type"] == "tank" for nd in spec["nodes"]):
                break
        G.add_reversal_edits(rng, spec)
        if i % 2 == 1:
            G.add_refused_calls(rng, spec)
        if i % 2 == 0:
            G.add_name_collisions(rng, spec)   # after the edits: the source sits on a node the (reversed / re-assigned) link touches THEN
        out.append(spec)
    return out


def connected_nodes(spec, closed):
    """nodes reachable from a tank / reservoir over links that are not in `closed` (the links REPORTED Closed at that step):
    the check's own definition of 'connected' -- WNTR's `_is_isolated` flags are never consulted"""
    adj = {nd["name"]: [] for nd in spec["nodes"]}
    for l in G.effective_links(spec):
        if l["name"] in closed:
            continue
        adj[l["start"]].append(l["end"])
        adj[l["end"]].append(l["start"])
    seen = set(nd["name"] for nd in spec["nodes"] if nd["type"] != "junction")
    stack = list(seen)
    while stack:
        n = stack.pop()
        for k in adj[n]:
            if k not in seen:
                seen.add(k)
                stack.append(k)
    return seen


def run_all(wntr, spec):
    """generator of (spec as the network is THEN, capture): the run of `spec`, and -- when the spec carries a `second` plan -- the run of the
    SAME WaterNetworkModel after its definition was edited through public setters (with / without reset_initial_values, same / new simulator)"""
    if "second" not in spec:
        yield spec, run_sim_capture(wntr, spec)
        return
    first = {k: v for k, v in spec.items() if k != "second"}
    cap = run_sim_capture(wntr, first)
    yield first, cap
    if cap["error"] is not None or cap["res"] is None or cap["res"].error_code is not None:
        return
    try:
        sp2, sec = G.apply_second_edits(wntr, cap["wn"], spec)
    except Exception as e:
        yield first, {"wn": cap["wn"], "frames": [], "norms": [], "error": "edit: %s: %s" % (type(e).__name__, str(e)[:150]), "res": None}
        return
    sp2.setdefault("features", {})["second_run"] = True
    sp2["_origin"] = spec   # the replayable input is the whole plan: run, edit, run
    yield sp2, run_sim_capture(wntr, sp2, wn=cap["wn"], sim=(None if sec.get("new_sim") else cap.get("sim")))


def edit_between_runs_specs(ctx, n):
    """run -> edit the definition -> run again: scenarios with pumps / valves / patterns and small random networks"""
    rng = ctx.rng
    out = []
    names = ["pump_points", "pump_curves", "tcv", "prv", "power_pump", "pump_points", "fcv", "pump_shutoff"]
    for i in range(n):
        if i % 3 == 2:
            spec = G.random_network(rng, quick=True, force={"n_nodes": rng.choice([4, 5, 6, 8])})
        else:
            spec = G.scenario_network(rng, names[i % len(names)], variant=0)
        spec.pop("controls", None)
        out.append(G.add_second_run(rng, spec))
    return out


def run_sim_capture(wntr, spec, wn=None, sim=None):
    """run the REAL simulator; returns dict(wn, res, frames, norms, error) -- frames[k] describes the k-th saved step"""
    import numpy as np
    import wntr.sim.hydraulics as H
    from wntr.sim.solvers import NewtonSolver, SolverStatus

    if wn is None:
        wn = G.build_wn(wntr, spec)
    frames, norms = [], []
    orig_save = H.save_results
    orig_solve = NewtonSolver.solve

    def save(wn_, node_res, link_res):
        frames.append({
            "t": int(wn_.sim_time),
            "iso_j": set(n for n, j in wn_.junctions() if j._is_isolated),
            "iso_l": set(n for n, l in wn_.links() if l._is_isolated),
            "leak": set(n for n, nd in list(wn_.junctions()) + list(wn_.tanks()) if nd.leak_status),
        })
        return orig_save(wn_, node_res, link_res)

    def solve(self, model, ostream=None):
        r = orig_solve(self, model, ostream)
        if r[0] == SolverStatus.converged and len(model.get_x()) > 0:
            norms.append((float(np.max(np.abs(model.evaluate_residuals()))), float(self.tol)))
        return r

    H.save_results = save
    NewtonSolver.solve = solve
    out = {"wn": wn, "frames": frames, "norms": norms, "error": None, "res": None}
    try:
        if sim is None:
            sim = wntr.sim.WNTRSimulator(wn)
        out["sim"] = sim
        out["res"] = sim.run_sim(HW_approx=spec.get("hw_approx", "default"))
    except Exception as e:  # singular start, refused configuration ...: nothing is reported, nothing to judge
        out["error"] = "%s: %s" % (type(e).__name__, str(e)[:200])
    finally:
        H.save_results = orig_save
        NewtonSolver.solve = orig_solve
    return out


class Tables:
    """numpy views of the result tables"""

    def __init__(self, res):
        self.times = [int(t) for t in res.node["head"].index]
        self.ncol = {n: i for i, n in enumerate(res.node["head"].columns)}
        self.lcol = {n: i for i, n in enumerate(res.link["flowrate"].columns)}
        self.head = res.node["head"].to_numpy()
        self.demand = res.node["demand"].to_numpy()
        self.leak = res.node["leak_demand"].to_numpy()
        self.flow = res.link["flowrate"].to_numpy()
        self.status = res.link["status"].to_numpy()
        self.setting = res.link["setting"].to_numpy()


def features(spec):
    kinds = [link_kind(l) for l in spec["links"]]
    srcs = [n for n in spec["nodes"] if n["type"] != "junction"]
    tanks = set(n["name"] for n in spec["nodes"] if n["type"] == "tank")
    pairs = {}
    for l in spec["links"]:
        k = frozenset((l["start"], l["end"]))
        pairs[k] = pairs.get(k, 0) + 1
    elinks = G.effective_links(spec)
    f = {
        "link_tank_to_tank": any(l["start"] in tanks and l["end"] in tanks for l in elinks),
        "link_reservoir_to_reservoir": any(l["start"] not in tanks and l["end"] not in tanks and
                                           {l["start"], l["end"]} <= set(n["name"] for n in srcs) for l in elinks),
        "pattern_objects_with_foreign_time_options": bool(spec.get("pattern_objects")),
        "refused_construction_calls": bool(spec.get("refused_calls")),
        "power_pump_speed_not_1": any(l.get("speed", 1.0) != 1.0 for l in spec["links"]) or any(c.get("attr") == "base_speed" for c in spec.get("controls", [])),
        "name_collisions_across_kinds": bool(spec.get("sources")),
        "pattern_edited_in_place": bool(spec.get("pattern_inplace")),
        "second_run_after_edit": bool(spec.get("features", {}).get("second_run")),
        "valve_setting_changed_by_control": any(c.get("attr", "setting") == "setting" and not c.get("cond") for c in spec.get("controls", [])),
        "valve_setting_changed_by_postsolve_condition": any(c.get("cond") for c in spec.get("controls", [])),
        "tank_volume_curve": any(n.get("vol_curve") for n in spec["nodes"]),
        "pattern_interpolation": bool(spec["options"].get("pattern_interpolation")),
        "unbalanced_continue": spec["options"].get("unbalanced") == "CONTINUE",
        "small_trials": spec["options"].get("trials") is not None,
        "link_status_changed_by_control": any(c.get("attr") == "status" for c in spec.get("controls", [])),
        "reversed_links": any(e["op"] == "reverse" for e in spec.get("edits", [])),
        "end_node_reassigned": any(e["op"] != "reverse" for e in spec.get("edits", [])),
        "end_node_reassigned_to_tank": any(e["op"] != "reverse" and e["node"] in tanks for e in spec.get("edits", [])),
        "loop": len(spec["links"]) >= len(spec["nodes"]),
        "parallel": any(v > 1 for v in pairs.values()),
        "multi_source": len(srcs) >= 2,
        "pump_or_valve_at_tank": any(l["type"] != "pipe" and (l["start"] in tanks or l["end"] in tanks) for l in spec["links"])
        or bool(spec.get("features", {}).get("valve_tank")) or bool(spec.get("features", {}).get("pump_tank")),
        "pdd": spec["options"]["demand_model"] == "PDD",
        "multi_category": any(len(n.get("demands", [])) >= 2 for n in spec["nodes"]),
        "leak_junction": any(n["type"] == "junction" and n.get("leak") for n in spec["nodes"]),
        "leak_tank": any(n["type"] == "tank" and n.get("leak") for n in spec["nodes"]),
        "link_into_tank": any(l["end"] in tanks for l in elinks),
        "piecewise": spec.get("hw_approx") == "piecewise",
        "pattern_start": spec["options"]["pattern_start"] != 0,
        "demand_multiplier": spec["options"]["demand_multiplier"] != 1.0,
    }
    for l in spec["links"]:
        if l["type"] == "pump" and l["pump_type"] == "HEAD":
            pts = spec["curves"][l["curve"]]
            f["curve_%s" % ("%dpt" % len(pts) if len(pts) <= 3 else "multipt")] = True
            if len(pts) >= 3 and pts[0][0] > 0:
                f["curve_3plus_first_point_positive_flow"] = True
    for k in set(kinds):
        f["kind:" + k] = True
    return f


def count_features(ctx, spec):
    for k, v in features(spec).items():
        if v:
            ctx.count("net:" + k)
    ctx.count("net:total")


def gen_specs(ctx, n_random, n_scen):
    """seeded stream of network specs: directed scenarios interleaved with random networks"""
    rng = ctx.rng
    specs = []
    for i in range(n_scen):
        specs.append(G.scenario_network(rng, G.SCENARIOS[i % len(G.SCENARIOS)], variant=i // len(G.SCENARIOS)))
    # status-iteration option sets: unbalanced x trials on the scenarios whose statuses change during a step
    k = 0
    for nm in (["cv_cascade", "cv_cascade", "cv_reverse", "cv_cascade", "pump_shutoff", "psv", "cv_cascade", "prv", "cv_htol", "fcv"] if n_scen >= len(G.SCENARIOS) else []):
        sp = G.scenario_network(rng, nm, variant=0)
        sp["options"]["trials"] = [1, 2, 1, 3, 2, 1, 2, 3, 1, 2][k % 10]
        sp["options"]["unbalanced"] = ["CONTINUE", "CONTINUE", "STOP", "CONTINUE", "CONTINUE", "STOP", "STOP", "CONTINUE", "CONTINUE", "STOP"][k % 10]
        sp["hw_approx"] = ["piecewise", "default"][k % 2]
        sp["features"]["status_iteration_options"] = True
        specs.append(sp)
        k += 1
    if n_scen >= len(G.SCENARIOS):
        specs.append(G.scenario_network(rng, "tank_limit", variant=0))   # piecewise
        specs.append(G.scenario_network(rng, "tank_limit", variant=1))   # default
        specs.append(G.scenario_network(rng, "head_pattern", variant=0))
        specs.append(G.scenario_network(rng, "head_pattern", variant=1))
    for v in range(6):  # every cut-set variant on every run (DD: 0, 2, 4, 5; PDD: 1, 3)
        if n_scen >= len(G.SCENARIOS):
            specs.append(G.scenario_network(rng, "cutset", variant=v))
    for i in range(n_random):
        force = {}
        if i % 7 == 3:
            force["demand_model"] = "PDD"
        if i % 5 == 1:
            force["hw_approx"] = "piecewise"
        specs.append(G.random_network(rng, quick=ctx.quick, force=force))
    return specs


def postsolve_setting_specs(ctx, wntr, n_each=1):
    """valve scenarios with a POST-SOLVE conditional control (ValueCondition / RelativeCondition on junction pressures) whose action changes
    the valve's SETTING.  The threshold is taken from a calibration run of the same network without the control, between the smallest and the
    largest reported pressure of the watched junction, so that the condition is false at the first step and becomes true MID-RUN; plus one
    condition that already holds after the first solve."""
    rng = ctx.rng
    out = []
    for nm in ("prv", "fcv", "tcv", "psv") * n_each:
        spec = G.scenario_network(rng, nm, variant=0)
        spec["controls"] = []
        spec["options"]["duration"] = 4 * spec["options"]["hydraulic_timestep"]
        v = [l for l in spec["links"] if l["type"] == "valve"][0]
        s0 = v["setting"]
        new = round(s0 * 10.0, 3) if nm == "tcv" else round(s0 * 0.5, 6) if nm == "fcv" else round(s0 * 0.75, 2)
        cap = run_sim_capture(wntr, spec)
        mode = rng.choice(["mid", "mid", "first", "relative"])
        cond = None
        if cap["res"] is not None and mode == "mid":
            pr = cap["res"].node["pressure"]
            for node in ("JC", "JB", "JA"):
                ser = [float(x) for x in pr[node].values]
                if len(ser) >= 2 and max(ser) - min(ser) > 1e-3:
                    thr = 0.5 * (max(ser) + min(ser))
                    cond = {"node": node, "rel": "<" if ser[0] > thr else ">", "thr": thr}
                    break
        if cond is None and mode == "relative":
            cond = {"node": "JA", "rel": ">", "other": "JC"}
        if cond is None:
            cond = {"node": "JA", "rel": ">", "thr": -1000.0}
        spec["controls"].append({"link": v["name"], "value": new, "cond": cond, "kind": "control"})
        spec["features"]["postsolve_setting_control"] = True
        out.append(spec)
    return out


def small_spec(spec):
    """replay payload: the spec itself (already JSON-able)"""
    return json.loads(json.dumps(spec, default=str))


# ----------------------------------------------------------------------------- zoo: con.evaluate() vs Lean eval of the generated rows

_LEAF = re.compile(r"^([A-Za-z_0-9]+)\[(.*)\]$")


def _aml_leaf(m, name):
    mo = _LEAF.match(name)
    if not mo:
        raise vlib.BrokenTie("leaf name %r" % name)
    return getattr(m, mo.group(1))[mo.group(2)]


def zoo_agreement(ctx, wntr, which, names, mode, approx, n_points, pick):
    """random-point agreement of the REAL constraints of the zoo with the Lean `eval` of the generated rows.
    which: driver table id; names: dict(vars, params, rows) from the translator; pick(mbc, lc) -> {row name: constraint}"""
    rng = ctx.rng
    wn, m, mbc, lc = T.zoo_constraints(wntr, mode, approx)
    cons = pick(mbc, lc)
    broken = []
    batch = Batch()
    vleaves = [_aml_leaf(m, n) for n in names["vars"]]
    pleaves = [_aml_leaf(m, n) for n in names["params"]]
    special = [0.0, 1e-9, -1e-9, 2e-4, -2e-4, 4e-4, 3e-4, -3.5e-4, 1e-8, 5e-9]
    for k in range(n_points):
        vs, ps = [], []
        for lf, nm in zip(vleaves, names["vars"]):
            if nm.startswith("flow") and rng.random() < 0.4:
                v = rng.choice(special)
            elif nm.startswith("flow") or nm.startswith("demand") or nm.startswith("leak_rate"):
                v = rng.uniform(-0.2, 0.2)
            else:
                v = rng.uniform(0.0, 120.0)
            lf.value = v
            vs.append(v)
        for lf, nm in zip(pleaves, names["params"]):
            if k % 2 == 0:
                v = float(lf.value)  # the real parameter values
            elif nm.startswith("source_head") or nm.startswith("elevation") or nm.startswith("valve_setting"):
                v = rng.uniform(0.0, 100.0)
            elif nm.startswith("pump_power"):
                v = rng.uniform(100.0, 20000.0)
            elif nm.startswith("expected_demand"):
                v = rng.uniform(-0.01, 0.05)
            else:
                v = rng.uniform(0.0, 500.0)
            lf.value = v
            ps.append(v)
        impl = [float(cons[r].evaluate()) for r in names["rows"]]
        line = "gen %s %d %s %d %s" % (which, len(vs), " ".join(fbits(x) for x in vs), len(ps), " ".join(fbits(x) for x in ps))
        line = " ".join(line.split())

        def cb(o, impl=impl, vs=vs, ps=ps):
            lean = [bitsf(x) for x in o.split()]
            if len(lean) != len(impl):
                broken.append(Broken("correspondence", "generated rows vs zoo constraints (%s)" % which, "row count %d vs %d" % (len(lean), len(impl))))
                return
            scale = 1.0 + max(abs(x) for x in vs + ps + [0.0])
            for rn, a, b in zip(names["rows"], impl, lean):
                ctx.case(("zoo", which, rn), nontrivial=True)
                ctx.count("zoo_eval:" + which)
                ok = a == b or (math.isnan(a) and math.isnan(b)) or abs(a - b) <= 1e-12 * max(abs(a), abs(b), scale * 1e2)
                if not ok and len(broken) < 5:
                    broken.append(Broken("correspondence", "con.evaluate() vs Lean eval of the generated row %s[%s]" % (which, rn),
                                         "impl %r lean %r" % (a, b)))

        batch.add(line, cb)
    batch.run()
    return broken


# ----------------------------------------------------------------------------- junction demand entries for the `dd` op


def dd_line(spec, nd, t):
    o = spec["options"]
    pats = G.effective_patterns(spec)
    ents = []
    dem = nd.get("demands", [])
    if not dem:
        dem = [] if nd.get("no_demand_entry") else [{"base": 0.0, "pattern": None}]
    for d in dem:
        if d.get("pattern") is None:
            ents.append("%s:-" % fr(d["base"]))
        else:
            ents.append("%s:1:%s" % (fr(d["base"]), ",".join(fr(x) for x in pats[d["pattern"]])))
    line = "dd %d %d %d %d %s %s" % (o["pattern_timestep"], 1 if o.get("pattern_interpolation") else 0, o["pattern_start"], t,
                                      fr(o["demand_multiplier"]), " ".join(ents))
    scale = sum(abs(d["base"]) * max([1.0] + [abs(x) for x in (pats[d["pattern"]] if d.get("pattern") else [])]) for d in dem) * abs(o["demand_multiplier"])
    return line.strip(), scale


# ----------------------------------------------------------------------------- independent least-squares fit of H = A - B*Q^C


def ref_fit_points(pts):
    """least-squares fit of H = A - B*Q**C to the curve POINTS, independent of wntr / curve_fit: for a fixed C the problem is
    linear in (A, B); C by a 1-D search (log grid + bounded Brent).  Three points => the interpolant.  Returns (A, B, C, sse)."""
    import numpy as np
    from scipy.optimize import minimize_scalar

    Q = np.array([p[0] for p in pts], float)
    H = np.array([p[1] for p in pts], float)

    def sse(c):
        M = np.column_stack([np.ones_like(Q), -Q ** c])
        x = np.linalg.lstsq(M, H, rcond=None)[0]
        r = M @ x - H
        return float(r @ r), x

    cs = np.exp(np.linspace(math.log(0.05), math.log(20.0), 400))
    vals = [sse(c)[0] for c in cs]
    i = int(np.argmin(vals))
    lo, hi = cs[max(i - 1, 0)], cs[min(i + 1, len(cs) - 1)]
    r = minimize_scalar(lambda c: sse(c)[0], bounds=(lo, hi), method="bounded", options={"xatol": 1e-13})
    c = float(r.x)
    s, x = sse(c)
    return float(x[0]), float(x[1]), c, s
