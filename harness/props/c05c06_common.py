"""Shared code of the C05 / C06 checks: tank networks, instrumented WNTRSimulator runs, Lean driver plumbing.

spec (JSON-able, the replayable artefact) -> build_wn(spec) -> run_instrumented(spec) -> Trace
  Trace.upd     every observed call of update_tank_heads, per tank: inputs -> new head
  Trace.lvl     every observed TankLevelCondition.evaluate: inputs (incl. _last_value) -> (state, _backtrack, _last_value)
  Trace.val     every observed ValueCondition.evaluate on a numeric source
  Trace.pre     every presolve pass: link fields, due list (control, backtrack) as check() returned it, first_step,
                sim_time before -> link fields, sim_time after
  Trace.post    every post-solve pass: link fields, due list -> link fields
  Trace.tctl    _get_all_tank_controls canonicalised
  Trace.rows    what save_results stored (exact doubles), per reported step
Nothing under /repo is edited: callables are wrapped in-process and restored afterwards.
"""
import contextlib
import json
import math
import os
import sys
from fractions import Fraction

sys.path.insert(0, os.path.dirname(os.path.dirname(os.path.abspath(__file__))))
import vlib

F = vlib.frac_str
DRIVER = "Drivers/TankDriver.lean"
REL_NAMES = {"gt": ">", "ge": ">=", "lt": "<", "le": "<=", "eq": "=", "ne": "<>"}


# ----------------------------------------------------------------------------- generator


def _r(rng, lo, hi, nd=3):
    return round(rng.uniform(lo, hi), nd)


def random_curve(rng, min_level, max_level, tight):
    """strictly increasing (level, volume) curve covering [min_level, max_level]; `tight`: ends exactly at the limits"""
    lo = min_level if tight or rng.random() < 0.5 else max(0.0, round(min_level - rng.uniform(0.2, 1.0), 2))
    hi = max_level if tight else round(max_level + rng.uniform(0.3, 1.5), 2)
    k = rng.randint(2, 5)
    xs = sorted(set([lo, hi] + [round(rng.uniform(lo, hi), 2) for _ in range(k - 2)]))
    pts = []
    v = round(rng.uniform(0, 50), 1) if lo > 0 else 0.0
    prev = None
    for x in xs:
        if prev is not None:
            v = round(v + (x - prev) * rng.uniform(20, 160), 2)
        pts.append([x, v])
        prev = x
    return pts


def random_network(rng, quick=True, force=None):
    force = force or {}
    hyd = force.get("hyd") or rng.choice([900, 1800, 3600, 3600])
    nsteps = rng.randint(8, 16) if quick else rng.randint(12, 40)
    ntanks = force.get("ntanks") or rng.choice([1, 1, 2, 2, 3])
    spec = {
        "options": {"hyd": hyd, "duration": hyd * nsteps, "pattern_timestep": rng.choice([hyd, 2 * hyd, 3600]),
                    "rule_timestep": rng.choice([360, 300, hyd, 77, 1, 10, 60, hyd // 4, hyd // 10]), "trials": 40},
        "patterns": {}, "curves": {}, "reservoirs": [], "junctions": [], "tanks": [], "pipes": [], "pumps": [],
        "valves": [], "controls": [],
    }
    # demand patterns that drain, then fill (negative demand = injection), in blocks
    def pattern():
        k = rng.choice([4, 6, 8, 12])
        mode = rng.choice(["drain-fill", "fill-drain", "mixed"])
        out = []
        for i in range(k):
            if mode == "drain-fill":
                s = 1 if i < k // 2 else -1
            elif mode == "fill-drain":
                s = -1 if i < k // 2 else 1
            else:
                s = rng.choice([1, 1, -1, 0])
            out.append(round(s * rng.uniform(0.4, 1.6), 3))
        return out

    for i in range(rng.randint(1, 2)):
        spec["patterns"]["pat%d" % i] = pattern()
    pats = sorted(spec["patterns"])
    res_head = _r(rng, 25, 45, 2)
    spec["reservoirs"].append({"name": "R", "head": res_head})
    spec["junctions"].append({"name": "J0", "elev": _r(rng, 0, 5, 2), "demand": 0.0, "pattern": None})
    nj = rng.randint(1, 3)
    for i in range(1, nj + 1):
        spec["junctions"].append({"name": "J%d" % i, "elev": _r(rng, 0, 5, 2), "demand": _r(rng, 0.01, 0.06, 4),
                                  "pattern": rng.choice(pats)})
    jn = [j["name"] for j in spec["junctions"]]
    # supply: pump R->J0 (controlled), optionally a small bypass pipe so J0 is never cut off
    spec["curves"]["HC"] = {"type": "HEAD", "points": [[_r(rng, 0.03, 0.09, 4), _r(rng, 15, 35, 2)]]}
    if rng.random() < 0.92:
        spec["pumps"].append({"name": "PU0", "start": "R", "end": "J0", "type": "HEAD", "param": "HC"})
    else:
        spec["pumps"].append({"name": "PU0", "start": "R", "end": "J0", "type": "POWER", "param": _r(rng, 4000, 20000, 0)})
    if rng.random() < 0.4:
        spec["pipes"].append({"name": "PB", "start": "R", "end": "J0", "length": 2000.0, "diam": 0.1, "rough": 100.0,
                              "cv": rng.random() < 0.5, "status": "OPEN"})
    for i in range(1, nj + 1):
        spec["pipes"].append({"name": "PJ%d" % i, "start": rng.choice(jn[:i]), "end": "J%d" % i, "length": _r(rng, 100, 800, 1),
                              "diam": rng.choice([0.2, 0.25, 0.3, 0.4]), "rough": 100.0, "cv": False, "status": "OPEN"})
    # tanks
    for t in range(ntanks):
        elev = _r(rng, 18, 30, 2)
        min_level = rng.choice([0.0, 0.5, 1.0, _r(rng, 0.2, 1.5, 2)])
        max_level = round(min_level + rng.uniform(2.0, 5.0), 2)
        init = round(rng.uniform(min_level + 0.3, max_level - 0.3), 3)
        if rng.random() < 0.2:
            init = rng.choice([min_level, max_level])
        diam = _r(rng, 4, 12, 2)
        curve = None
        kind = force.get("tank_kind") or rng.choice(["cyl", "cyl", "curve-wide", "curve-tight"])
        if kind != "cyl":
            cname = "VC%d" % t
            spec["curves"][cname] = {"type": "VOLUME", "points": random_curve(rng, min_level, max_level, kind == "curve-tight")}
            curve = cname
        name = "T%d" % t
        spec["tanks"].append({"name": name, "elev": elev, "init": init, "min": min_level, "max": max_level, "diam": diam,
                              "curve": curve})
        # 1-3 links at the tank
        nl = rng.choice([1, 1, 2, 2, 3])
        for k in range(nl):
            other = rng.choice(jn)
            if k > 0:
                lk = rng.choice(["pipe", "pipe", "pipe", "cv-in", "cv-in", "cv-out", "cv-out", "pump-in", "pump-in", "pump-out", "pump-out", "tcv"])
            else:
                lk = rng.choice(["pipe"] * 9 + ["tcv"])
            ln = "L%d_%d" % (t, k)
            rev = rng.random() < 0.5
            if lk == "pipe":
                a, b = (name, other) if rev else (other, name)
                spec["pipes"].append({"name": ln, "start": a, "end": b, "length": _r(rng, 50, 400, 1),
                                      "diam": rng.choice([0.15, 0.2, 0.3]), "rough": 100.0, "cv": False, "status": "OPEN"})
            elif lk == "cv-in":
                spec["pipes"].append({"name": ln, "start": other, "end": name, "length": _r(rng, 50, 400, 1),
                                      "diam": rng.choice([0.15, 0.2, 0.3]), "rough": 100.0, "cv": True, "status": "OPEN"})
            elif lk == "cv-out":
                spec["pipes"].append({"name": ln, "start": name, "end": other, "length": _r(rng, 50, 400, 1),
                                      "diam": rng.choice([0.15, 0.2, 0.3]), "rough": 100.0, "cv": True, "status": "OPEN"})
            elif lk == "pump-in":
                spec["curves"]["HC" + ln] = {"type": "HEAD", "points": [[_r(rng, 0.01, 0.04, 4), _r(rng, 20, 40, 2)]]}
                spec["pumps"].append({"name": ln, "start": other, "end": name, "type": "HEAD", "param": "HC" + ln})
            elif lk == "pump-out":
                spec["curves"]["HC" + ln] = {"type": "HEAD", "points": [[_r(rng, 0.01, 0.04, 4), _r(rng, 5, 15, 2)]]}
                spec["pumps"].append({"name": ln, "start": name, "end": other, "type": "HEAD", "param": "HC" + ln})
            else:
                a, b = (name, other) if rev else (other, name)
                spec["valves"].append({"name": ln, "start": a, "end": b, "diam": 0.3, "type": "TCV", "setting": _r(rng, 1, 50, 1),
                                       "minor_loss": rng.choice([0.0, 2.5])})
    # a reservoir whose head follows a pattern, joined by a plain pipe directly to a tank, with pattern_start != 0: the head the
    # limit controls see (store_results_in_network) and the head the model solves with (source_head_param) must be the same one
    if force.get("reservoir_pattern", rng.random() < 0.3):
        tk = rng.choice(spec["tanks"])
        k = rng.choice([2, 4, 6])
        lo, hi = round(tk["elev"] + tk["min"] - rng.uniform(2, 8), 2), round(tk["elev"] + tk["max"] + rng.uniform(2, 8), 2)
        vals = [hi] * k + [lo] * k if rng.random() < 0.5 else [lo] * k + [hi] * k
        base = max(vals)
        spec["patterns"]["rpat"] = [round(v / base, 6) for v in vals]
        spec["reservoirs"].append({"name": "RP", "head": base, "pattern": "rpat"})
        spec["pipes"].append({"name": "PRP", "start": "RP", "end": tk["name"], "length": _r(rng, 300, 900, 1), "diam": rng.choice([0.15, 0.2, 0.25]),
                              "rough": 100.0, "cv": False, "status": "OPEN"})
        spec["options"]["pattern_start"] = rng.choice([0, k, k, 1, 3]) * spec["options"]["pattern_timestep"]
    elif rng.random() < 0.3:
        spec["options"]["pattern_start"] = rng.choice([1, 2, 5]) * spec["options"]["pattern_timestep"]
    # the piecewise Hazen-Williams approximation (a run_sim argument): closures must reach the model there too
    if force.get("piecewise", rng.random() < 0.3):
        spec["options"]["hw_approx"] = "piecewise"
    # rarely used hydraulic options that must not shift the reported state away from what the controls see
    if force.get("odd_options", rng.random() < 0.5):
        spec["options"]["specific_gravity"] = rng.choice([0.8, 1.2, 1.0])
        spec["options"]["demand_multiplier"] = rng.choice([1.0, 1.0, 0.8, 1.3])
        spec["options"]["viscosity"] = rng.choice([1.0, 1.0, 1.5])
    # edits of the finished model before the run (C06 stream): links at tanks reversed / split / re-pointed
    if force.get("morph"):
        ms = []
        tank_links = [p["name"] for p in spec["pipes"] if p["name"].startswith("L")] + [p["name"] for p in spec["pumps"] if p["name"].startswith("L")]
        tank_pipes = [p["name"] for p in spec["pipes"] if p["name"].startswith("L") and not p["cv"]]
        for ln in rng.sample(tank_links, min(len(tank_links), rng.choice([1, 1, 2]))):
            ms.append({"op": rng.choice(["reverse", "reverse", "swap_ends"]), "link": ln, "copy": rng.random() < 0.3})
        if tank_pipes and rng.random() < 0.4:
            ln = rng.choice([x for x in tank_pipes if not any(m["link"] == x for m in ms)] or tank_pipes)
            if not any(m["link"] == ln for m in ms):
                ms.append({"op": "split", "link": ln, "at": rng.choice([0.25, 0.5, 0.8]), "at_end": rng.random() < 0.5})
        spec["morph"] = ms
    # the overflow flag ("always False for the WNTRSimulator": the limit controls must not depend on it)
    for tk in spec["tanks"]:
        if force.get("overflow", rng.random() < 0.25):
            tk["overflow"] = True
    # run / reset / edit a tank / rerun with the SAME simulator object (or, as control, a fresh one)
    if force.get("rerun"):
        edits = []
        for tk in spec["tanks"]:
            k = rng.choice(["min_level", "max_level", "elevation", "min_level", "max_level", "none"])
            if k == "min_level" and tk["curve"] is None:
                edits.append({"tank": tk["name"], "attr": "min_level", "value": round(tk["min"] + 0.7 * (tk["init"] - tk["min"]), 3)})
            elif k == "max_level" and tk["curve"] is None:
                edits.append({"tank": tk["name"], "attr": "max_level", "value": round(tk["max"] - 0.7 * (tk["max"] - tk["init"]), 3)})
            elif k == "elevation":
                edits.append({"tank": tk["name"], "attr": "elevation", "value": round(tk["elev"] + rng.choice([-1.5, 1.0, 2.0]), 2)})
        if rng.random() < 0.4:
            tk = rng.choice(spec["tanks"])
            edits.append({"tank": tk["name"], "attr": "add_pipe", "value": rng.choice(jn), "name": "PNEW"})
        spec["rerun"] = {"edits": edits, "fresh": rng.random() < 0.25}
    if force.get("rerun_controls"):
        cand = [c for c in spec["controls"] if c.get("kind", "cond") == "cond" and c.get("act", "status") == "status"]
        ce = []
        for c in rng.sample(cand, min(len(cand), rng.choice([1, 1, 2]))):
            op = rng.choice(["then_action", "then_action", "priority", "condition"])
            if op == "then_action":
                ce.append({"op": op, "name": c["name"], "link": rng.choice(["PU0"] + links), "value": rng.choice(["OPEN", "CLOSED"])})
            elif op == "priority":
                ce.append({"op": op, "name": c["name"], "prio": rng.choice([0, 1, 2, 4, 5, 6])})
            else:
                ce.append({"op": op, "name": c["name"], "thr": round(c["thr"] + rng.choice([-0.4, 0.3, 0.6]), 3)})
        if rng.random() < 0.3 and cand:
            ce.append({"op": "remove", "name": rng.choice(cand)["name"]})
        rr = spec.get("rerun") or {"edits": [], "fresh": rng.random() < 0.2}
        rr["ctl_edits"] = [e for i, e in enumerate(ce) if not (e["op"] != "remove" and any(x["op"] == "remove" and x["name"] == e["name"] for x in ce))]
        spec["rerun"] = rr
    # tank leaks (C06 stream): Tank.add_leak with a window on or off the hydraulic grid; DD and PDD
    if force.get("leaks"):
        spec["options"]["demand_model"] = rng.choice(["DD", "PDD"])
        for tk in spec["tanks"]:
            if rng.random() < 0.7:
                a = rng.randint(0, max(0, nsteps - 3))
                b = rng.randint(a + 1, nsteps)
                off = lambda: rng.choice([0, 0, rng.randint(1, hyd - 1)])
                tk["leak"] = {"area": _r(rng, 0.0005, 0.004, 5), "cd": rng.choice([0.6, 0.75, 0.9]),
                              "start": rng.choice([0, a * hyd + off()]), "end": rng.choice([None, b * hyd + off()])}
    # simple controls
    links = [p["name"] for p in spec["pipes"]] + [p["name"] for p in spec["pumps"]] + [v["name"] for v in spec["valves"]]
    nctl = rng.randint(1, 5)
    cid = 0

    def add(src, attr, rel, thr, link, value, prio):
        nonlocal cid
        spec["controls"].append({"name": "c%d" % cid, "src": src, "attr": attr, "rel": rel, "thr": thr, "link": link,
                                 "value": value, "prio": prio})
        cid += 1

    while len(spec["controls"]) < nctl:
        prio = rng.choice([3, 3, 3, 0, 1, 2, 4, 5, 6])
        tank_links = [l for l in links if l.startswith("L")]
        link = rng.choice(["PU0", "PU0"] + tank_links + tank_links + links)
        r = rng.random()
        if r < 0.7:
            tk = rng.choice(spec["tanks"])
            curve = tk["curve"] is not None
            attr = rng.choice(["level", "level", "head"] + ([] if curve else ["pressure"]))
            off = tk["elev"] if attr == "head" else 0.0
            lo = round(rng.uniform(tk["min"] + 0.1, (tk["min"] + tk["max"]) / 2), rng.choice([1, 2, 3]))
            hi = round(rng.uniform((tk["min"] + tk["max"]) / 2, tk["max"] - 0.1), rng.choice([1, 2, 3]))
            if rng.random() < 0.1:
                lo = tk["init"]
            if rng.random() < 0.6:  # hysteresis pair: open the link when low, close when high (or the reverse)
                flip = rng.random() < 0.3
                add(tk["name"], attr, rng.choice(["le", "lt"]), round(lo + off, 6), link, "CLOSED" if flip else "OPEN", prio)
                add(tk["name"], attr, rng.choice(["ge", "gt"]), round(hi + off, 6), link, "OPEN" if flip else "CLOSED",
                    prio if rng.random() < 0.7 else rng.choice([1, 3, 5]))
            else:
                add(tk["name"], attr, rng.choice(["le", "lt", "ge", "gt"]), round(rng.choice([lo, hi]) + off, 6), link,
                    rng.choice(["OPEN", "CLOSED"]), prio)
        else:
            j = rng.choice(spec["junctions"][1:] or spec["junctions"])
            thr = _r(rng, 5, 40, 2)
            add(j["name"], rng.choice(["pressure", "pressure", "head"]), rng.choice(["le", "lt", "ge", "gt"]),
                thr + (j["elev"] if False else 0.0), link, rng.choice(["OPEN", "CLOSED"]), prio)
    # an in-line TCV on a side branch with a SETTING control and a conflicting STATUS control of another priority whose
    # conditions hold together for long stretches (the simulator adds a companion `status := Active` to the setting control,
    # with the setting control's priority); likewise a `base_speed` control (value 1.0) on the supply pump
    if force.get("setting_controls", rng.random() < 0.45):
        spec["junctions"].append({"name": "JV", "elev": _r(rng, 0, 5, 2), "demand": _r(rng, 0.002, 0.01, 4), "pattern": None})
        spec["valves"].append({"name": "VJ", "start": "J0", "end": "JV", "diam": 0.2, "type": "TCV", "setting": _r(rng, 5, 50, 1),
                               "minor_loss": 0.0})
        tk = rng.choice(spec["tanks"])
        mid = round((tk["min"] + tk["max"]) / 2, 2)
        rel = rng.choice(["ge", "le"])
        p1, p2 = rng.sample([0, 1, 2, 3, 4, 5, 6], 2)
        pair = [{"name": "c%d" % cid, "src": tk["name"], "attr": "level", "rel": rel, "thr": mid, "link": "VJ", "act": "setting",
                 "value": _r(rng, 10, 200, 1), "prio": p1},
                {"name": "c%d" % (cid + 1), "src": tk["name"], "attr": "level", "rel": rel,
                 "thr": round(mid + rng.choice([-0.3, 0.0, 0.3]), 2), "link": "VJ", "act": "status", "value": rng.choice(["CLOSED", "CLOSED", "OPEN"]),
                 "prio": p2}]
        if rng.random() < 0.5:
            pair.reverse()
        spec["controls"] += pair
        cid += 2
        if rng.random() < 0.6:  # a SECOND setting control on the same valve (every one needs its own companion)
            spec["controls"].append({"name": "c%d" % cid, "src": tk["name"], "attr": "level", "rel": rel,
                                     "thr": round(mid + rng.choice([-0.5, 0.5, 0.8]), 2), "link": "VJ", "act": "setting",
                                     "value": _r(rng, 10, 200, 1), "prio": rng.choice([0, 1, 2, 3, 4, 5, 6])})
            cid += 1
    if spec["pumps"][0]["type"] == "HEAD" and force.get("speed_controls", rng.random() < 0.35):
        tk = rng.choice(spec["tanks"])
        spec["controls"].append({"name": "c%d" % cid, "src": tk["name"], "attr": "level", "rel": rng.choice(["ge", "le"]),
                                 "thr": round((tk["min"] + tk["max"]) / 2, 2), "link": "PU0", "act": "base_speed", "value": 1.0,
                                 "prio": rng.choice([0, 1, 2, 3, 4, 5, 6])})
        cid += 1
    # RULES with a tank-level premise (evaluated on the rule grid inside the presolve pass)
    if force.get("rules", rng.random() < 0.3):
        for _ in range(rng.choice([1, 2])):
            tk = rng.choice(spec["tanks"])
            if tk["curve"] is not None:
                continue
            spec["controls"].append({"name": "c%d" % cid, "kind": "rule", "src": tk["name"], "attr": "level", "rel": rng.choice(["ge", "le"]),
                                     "thr": round(rng.uniform(tk["min"] + 0.2, tk["max"] - 0.2), 2), "link": rng.choice(["PU0"] + links),
                                     "value": rng.choice(["OPEN", "CLOSED"]), "prio": rng.choice([1, 3, 3, 5])})
            cid += 1
    # user TIME controls with non-default priorities: a link toggled at successive instants (on the hydraulic grid ->
    # backtrack 0, or inside a step), so that in the step where a tank limit / level threshold is crossed another presolve
    # control of a different priority regularly changes something too
    if force.get("time_controls", rng.random() < 0.6):
        for _ in range(rng.choice([1, 1, 2])):
            tank_links = [l for l in links if l.startswith("L")]
            link = rng.choice(["PU0"] + [p["name"] for p in spec["pipes"] if p["name"].startswith("PJ")] + tank_links)
            prio = rng.choice([0, 1, 1, 2, 2, 3, 4, 5, 6])
            every = rng.choice([1, 1, 2, 3])
            off = rng.choice([0, 0, 0, rng.randint(1, hyd - 1)])
            val = rng.choice(["OPEN", "CLOSED"])
            for k in range(1, nsteps + 1, every):
                val = "CLOSED" if val == "OPEN" else "OPEN"
                spec["controls"].append({"name": "c%d" % cid, "kind": "time", "time": k * hyd - off, "link": link, "value": val, "prio": prio})
                cid += 1
    return spec


def specific_gravity_spec(sg=0.8):
    """seeded/C05-7: options that must not shift the REPORTED pressures / levels away from what the controls evaluate.  The
    thresholds sit between the true value and the value scaled by the specific gravity: on a correct tree the conditions are idle."""
    s = priority_conflict_spec(True)
    s["options"].update({"specific_gravity": sg, "viscosity": 1.5, "demand_multiplier": 1.3})
    if sg < 1.0:
        s["controls"] = [{"name": "pj", "src": "J", "attr": "pressure", "rel": "lt", "thr": 36.0, "link": "PX", "value": "CLOSED", "prio": 3},
                         {"name": "lt", "src": "T", "attr": "level", "rel": "le", "thr": 1.8, "link": "PT", "value": "CLOSED", "prio": 3}]
    else:
        s["controls"] = [{"name": "pj", "src": "J", "attr": "pressure", "rel": "gt", "thr": 44.0, "link": "PX", "value": "CLOSED", "prio": 3},
                         {"name": "lt", "src": "T", "attr": "level", "rel": "ge", "thr": 2.3, "link": "PX", "value": "CLOSED", "prio": 3}]
    return s


def rule_step_coincides_spec(rule_step=1):
    """seeded/C05-11: every crossing instant coincides with a rule timestep (rule_timestep = 1 s, or a small divisor of the step):
    the presolve branch `sim_time - backtrack == rule_iter * rule_timestep` must cut the step when the control changed something"""
    s = two_threshold_spec(False, True)
    s["options"]["rule_timestep"] = rule_step
    return s


def isolated_junction_pressure_spec():
    """seeded/C05-12: a junction above the hydraulic grade (pressure about -10 m) is cut off by a level control; an isolated junction is
    stored and REPORTED with pressure 0.0, so `JI pressure > -2.5` holds on the reported state from then on and PX must be closed"""
    s = priority_presolve_spec(3, "max")
    s["controls"] = []
    s["tanks"][0]["max"] = 9.0
    s["junctions"].append({"name": "JI", "elev": 50.0, "demand": 0.0, "pattern": None})
    s["pipes"].append({"name": "PI", "start": "J0", "end": "JI", "length": 100.0, "diam": 0.2, "rough": 100.0, "cv": False, "status": "OPEN"})
    s["controls"] += [
        {"name": "cut", "src": "T0", "attr": "level", "rel": "ge", "thr": 2.0, "link": "PI", "value": "CLOSED", "prio": 3},
        {"name": "pj", "src": "JI", "attr": "pressure", "rel": "gt", "thr": -2.5, "link": "PX", "value": "CLOSED", "prio": 3}]
    return s


def multi_setting_spec(kind="cond"):
    """seeded/C03-7: SEVERAL setting controls on one valve with a status control between them: every setting control must
    re-activate the valve (one companion `status := Active` per setting action of every control).
    kind 'cond': tank-level conditions of rising priority (setting 45 @ level>=2 p3, CLOSED @ >=3 p5, setting 30 @ >=4 p6);
    kind 'time': LINK V 45 AT TIME 1, CLOSED AT TIME 2, 30 AT TIME 4 (hours)."""
    s = priority_presolve_spec(3, "max")
    s["controls"] = []
    s["tanks"][0]["max"] = 9.0
    s["options"]["duration"] = 6 * 3600
    s["junctions"].append({"name": "JV", "elev": 0.0, "demand": 0.004, "pattern": None})
    s["valves"].append({"name": "V", "start": "J0", "end": "JV", "diam": 0.2, "type": "TCV", "setting": 20.0, "minor_loss": 0.0})
    if kind == "cond":
        s["controls"] += [
            {"name": "s45", "src": "T0", "attr": "level", "rel": "ge", "thr": 2.0, "link": "V", "act": "setting", "value": 45.0, "prio": 3},
            {"name": "close", "src": "T0", "attr": "level", "rel": "ge", "thr": 3.0, "link": "V", "act": "status", "value": "CLOSED", "prio": 5},
            {"name": "s30", "src": "T0", "attr": "level", "rel": "ge", "thr": 4.0, "link": "V", "act": "setting", "value": 30.0, "prio": 6}]
    else:
        s["controls"] += [
            {"name": "t45", "kind": "time", "time": 3600, "link": "V", "act": "setting", "value": 45.0, "prio": 3},
            {"name": "tclose", "kind": "time", "time": 7200, "link": "V", "act": "status", "value": "CLOSED", "prio": 3},
            {"name": "t30", "kind": "time", "time": 14400, "link": "V", "act": "setting", "value": 30.0, "prio": 3}]
    return s


def prv_open_spec(vtype="PRV"):
    """seeded/C05-6: a PRV/PSV that a simple control commands OPEN while the head downstream is higher than upstream (reverse flow):
    its own regulating logic writes _internal_status Closed, the commanded OPEN must still be reported (Valve.status: fixed status wins)"""
    s = _base(3600, 3)
    s["reservoirs"] += [{"name": "RL", "head": 20.0}, {"name": "RH", "head": 30.0}]
    s["junctions"] += [{"name": "J1", "elev": 0.0, "demand": 0.0, "pattern": None}, {"name": "J2", "elev": 0.0, "demand": 0.0, "pattern": None}]
    s["pipes"] += [{"name": "P1", "start": "RL", "end": "J1", "length": 100.0, "diam": 0.3, "rough": 100.0, "cv": False, "status": "OPEN"},
                   {"name": "P2", "start": "J2", "end": "RH", "length": 100.0, "diam": 0.3, "rough": 100.0, "cv": False, "status": "OPEN"}]
    s["valves"].append({"name": "V", "start": "J1", "end": "J2", "diam": 0.3, "type": vtype, "setting": 10.0, "minor_loss": 0.0})
    s["controls"].append({"name": "open", "src": "J1", "attr": "pressure", "rel": "ge", "thr": -5.0, "link": "V", "value": "OPEN", "prio": 3})
    return s


def rule_level_spec(simple_too=True):
    """a RULE with a tank-level premise, rule timestep (360 s) shorter than the hydraulic step: the rule fires at the first rule
    instant after the crossing; optionally a simple level control on the same tank whose partial step interleaves with the rule grid"""
    s = two_threshold_spec(False, True)
    s["controls"][0].update({"kind": "rule", "name": "r0"})
    if not simple_too:
        s["controls"] = s["controls"][:1]
    return s


def companion_priority_spec(kind="valve", close_first=False):
    """seeded/C05-4: R -> J1 -[TCV V1 | pump PU]-> J2 -> tank T; a SETTING (base_speed) control of priority low once the level is
    above 3 m, an explicit CLOSED control of priority medium once it is above 5 m: the companion `status := Active/Open` of the
    low-priority control must not override the CLOSED"""
    s = _base(3600, 12)
    s["reservoirs"].append({"name": "R", "head": 30.0 if kind == "valve" else 5.0})
    s["junctions"] += [{"name": "J1", "elev": 0.0, "demand": 0.0, "pattern": None}, {"name": "J2", "elev": 0.0, "demand": 0.0, "pattern": None}]
    s["tanks"].append({"name": "T", "elev": 0.0, "init": 2.0, "min": 0.0, "max": 20.0, "diam": 30.0, "curve": None})
    s["pipes"] += [{"name": "P1", "start": "R", "end": "J1", "length": 200.0, "diam": 0.3, "rough": 100.0, "cv": False, "status": "OPEN"},
                   {"name": "P2", "start": "J2", "end": "T", "length": 200.0, "diam": 0.3, "rough": 100.0, "cv": False, "status": "OPEN"}]
    if kind == "valve":
        s["valves"].append({"name": "V1", "start": "J1", "end": "J2", "diam": 0.3, "type": "TCV", "setting": 20.0, "minor_loss": 0.0})
        soft = {"name": "throttle", "src": "T", "attr": "level", "rel": "ge", "thr": 3.0, "link": "V1", "act": "setting", "value": 50.0, "prio": 1}
        hard = {"name": "close", "src": "T", "attr": "level", "rel": "ge", "thr": 5.0, "link": "V1", "act": "status", "value": "CLOSED", "prio": 3}
    else:
        s["curves"]["HC"] = {"type": "HEAD", "points": [[0.15, 25.0]]}
        s["pumps"].append({"name": "PU", "start": "J1", "end": "J2", "type": "HEAD", "param": "HC"})
        soft = {"name": "speed", "src": "T", "attr": "level", "rel": "ge", "thr": 3.0, "link": "PU", "act": "base_speed", "value": 1.0, "prio": 1}
        hard = {"name": "close", "src": "T", "attr": "level", "rel": "ge", "thr": 5.0, "link": "PU", "act": "status", "value": "CLOSED", "prio": 3}
    s["controls"] = [hard, soft] if close_first else [soft, hard]
    return s


def effective_spec(spec):
    """the spec as the SECOND run of a rerun cycle sees it: control edits applied (update_then_actions / update_priority /
    update_condition on the same control object, add, remove)"""
    edits = (spec.get("rerun") or {}).get("ctl_edits")
    if not edits:
        return spec
    out = dict(spec)
    ctl = [dict(c) for c in spec["controls"]]
    for e in edits:
        if e["op"] == "remove":
            ctl = [c for c in ctl if c["name"] != e["name"]]
        elif e["op"] == "add":
            ctl.append(dict(e["control"]))
        else:
            for c in ctl:
                if c["name"] == e["name"]:
                    if e["op"] == "then_action":
                        c["link"], c["value"] = e["link"], e["value"]
                        c.pop("act", None)
                    elif e["op"] == "priority":
                        c["prio"] = e["prio"]
                    elif e["op"] == "condition":
                        c["thr"] = e["thr"]
    out["controls"] = ctl
    out["_orig"] = spec
    return out


def apply_control_edits(wntr, wn, spec):
    from wntr.network.controls import Control, ControlAction, ValueCondition, ControlPriority
    from wntr.network import LinkStatus

    for e in (spec.get("rerun") or {}).get("ctl_edits", []):
        if e["op"] == "remove":
            wn.remove_control(e["name"])
            continue
        if e["op"] == "add":
            c = e["control"]
            act = ControlAction(wn.get_link(c["link"]), "status", LinkStatus.Open if c["value"] == "OPEN" else LinkStatus.Closed)
            wn.add_control(c["name"], Control(ValueCondition(wn.get_node(c["src"]), c["attr"], REL_NAMES[c["rel"]], c["thr"]), act,
                                               priority=ControlPriority(c["prio"])))
            continue
        ctl = wn.get_control(e["name"])
        if e["op"] == "then_action":
            ctl.update_then_actions(ControlAction(wn.get_link(e["link"]), "status", LinkStatus.Open if e["value"] == "OPEN" else LinkStatus.Closed))
        elif e["op"] == "priority":
            ctl.update_priority(ControlPriority(e["prio"]))
        elif e["op"] == "condition":
            old = [c for c in spec["controls"] if c["name"] == e["name"]][0]
            ctl.update_condition(ValueCondition(wn.get_node(old["src"]), old["attr"], REL_NAMES[old["rel"]], e["thr"]))


def rerun_control_edit_spec(op="then_action", fresh=False):
    """seeded/C05-9: run, reset, edit a control IN PLACE (same Control object), run again with the SAME simulator object"""
    s = priority_presolve_spec(3, "max")
    s["controls"] = [{"name": "c0", "src": "T0", "attr": "level", "rel": "ge", "thr": 2.0, "link": "PX", "value": "CLOSED", "prio": 3}]
    s["tanks"][0]["max"] = 9.0
    if op == "then_action":
        ed = {"op": "then_action", "name": "c0", "link": "PY", "value": "CLOSED"}
    elif op == "condition":
        ed = {"op": "condition", "name": "c0", "thr": 3.5}
    elif op == "priority":
        ed = {"op": "priority", "name": "c0", "prio": 5}
    else:
        ed = {"op": "add", "control": {"name": "c9", "src": "T0", "attr": "level", "rel": "ge", "thr": 3.0, "link": "PY", "value": "CLOSED", "prio": 3}}
    s["rerun"] = {"edits": [], "ctl_edits": [ed], "fresh": fresh}
    return s


def leak_threshold_spec(mode="drain"):
    """seeded/C05-10: a tank-level simple control on a tank with an ACTIVE leak: 'drain' -- the tank loses water through the leak only
    (its pipe is closed), 'refill' -- it fills through a pipe while leaking; the threshold must be met by a partial step"""
    s = _base(3600, 3)
    s["reservoirs"].append({"name": "R", "head": 45.0})
    s["junctions"].append({"name": "J", "elev": 0.0, "demand": 0.002, "pattern": None})
    s["tanks"].append({"name": "T", "elev": 20.0, "init": 4.0 if mode == "drain" else 1.0, "min": 0.0, "max": 8.0, "diam": 4.0, "curve": None,
                       "leak": {"area": 0.002, "cd": 0.75, "start": 0, "end": None}})
    s["pipes"] += [{"name": "PA", "start": "R", "end": "J", "length": 100.0, "diam": 0.3, "rough": 100.0, "cv": False, "status": "OPEN"},
                   {"name": "PT", "start": "J", "end": "T", "length": 100.0, "diam": 0.15, "rough": 100.0, "cv": False,
                    "status": "CLOSED" if mode == "drain" else "OPEN"},
                   {"name": "PX", "start": "R", "end": "J", "length": 500.0, "diam": 0.1, "rough": 100.0, "cv": False, "status": "OPEN"}]
    if mode == "drain":
        s["controls"].append({"name": "c0", "src": "T", "attr": "level", "rel": "le", "thr": 3.0, "link": "PX", "value": "CLOSED", "prio": 3})
    else:
        s["controls"].append({"name": "c0", "src": "T", "attr": "level", "rel": "ge", "thr": 3.0, "link": "PX", "value": "CLOSED", "prio": 3})
    return s


def cond_controls(spec):
    """the conditional simple controls (IF node/tank condition THEN link action) of a spec"""
    return [c for c in spec["controls"] if c.get("kind", "cond") == "cond"]


def priority_presolve_spec(prio, scenario):
    """designed family: a presolve control of priority `prio` changes something in the very hydraulic step in which a tank
    limit (scenario 'min' / 'max') or a user level threshold ('threshold') is crossed; 'two-levels': two level controls of
    different priorities cross in one step, the one crossed LATER has the lower priority number `prio`.
    The presolve list must be served in time order (largest backtrack first) whatever the priorities are."""
    s = _base(3600, 3)
    if scenario == "min":
        s["junctions"] += [{"name": "J", "elev": 10.0, "demand": 0.03, "pattern": None}, {"name": "J2", "elev": 10.0, "demand": 0.0, "pattern": None}]
        s["tanks"].append({"name": "T", "elev": 50.0, "init": 2.0, "min": 1.0, "max": 5.0, "diam": 10.0, "curve": None})
        s["pipes"].append({"name": "P", "start": "T", "end": "J", "length": 100.0, "diam": 0.4, "rough": 120.0, "cv": False, "status": "OPEN"})
        s["pipes"].append({"name": "P2", "start": "J", "end": "J2", "length": 100.0, "diam": 0.3, "rough": 120.0, "cv": False, "status": "OPEN"})
        s["controls"].append({"name": "t0", "kind": "time", "time": 3600, "link": "P2", "value": "CLOSED", "prio": prio})
        return s
    s["reservoirs"].append({"name": "R", "head": 40.0})
    s["junctions"] += [{"name": "J0", "elev": 0.0, "demand": 0.0, "pattern": None}, {"name": "J2", "elev": 0.0, "demand": 0.0, "pattern": None}]
    s["tanks"].append({"name": "T0", "elev": 20.0, "init": 1.0, "min": 0.0, "max": 4.0 if scenario == "max" else 9.0, "diam": 12.0, "curve": None})
    s["pipes"] += [{"name": "PA", "start": "R", "end": "J0", "length": 100.0, "diam": 0.3, "rough": 100.0, "cv": False, "status": "OPEN"},
                   {"name": "PT", "start": "J0", "end": "T0", "length": 100.0, "diam": 0.2, "rough": 100.0, "cv": False, "status": "OPEN"},
                   {"name": "PX", "start": "R", "end": "J0", "length": 500.0, "diam": 0.1, "rough": 100.0, "cv": False, "status": "OPEN"},
                   {"name": "PY", "start": "R", "end": "J0", "length": 500.0, "diam": 0.1, "rough": 100.0, "cv": False, "status": "OPEN"},
                   {"name": "P2", "start": "J0", "end": "J2", "length": 100.0, "diam": 0.3, "rough": 100.0, "cv": False, "status": "OPEN"}]
    if scenario == "max":
        s["controls"].append({"name": "t0", "kind": "time", "time": 3600, "link": "P2", "value": "CLOSED", "prio": prio})
    elif scenario == "threshold":
        s["controls"].append({"name": "c0", "src": "T0", "attr": "level", "rel": "ge", "thr": 2.0, "link": "PX", "value": "CLOSED", "prio": 3})
        s["controls"].append({"name": "t0", "kind": "time", "time": 3600, "link": "P2", "value": "CLOSED", "prio": prio})
    elif scenario == "two-levels":
        s["controls"].append({"name": "c0", "src": "T0", "attr": "level", "rel": "ge", "thr": 1.5, "link": "PX", "value": "CLOSED", "prio": 5})
        s["controls"].append({"name": "c1", "src": "T0", "attr": "level", "rel": "ge", "thr": 2.5, "link": "PY", "value": "CLOSED", "prio": prio})
    else:
        raise ValueError(scenario)
    return s


def two_threshold_spec(curve=False, same_tank=True):
    """designed: two level thresholds crossed within ONE hydraulic step (DESIGN §5 C05)"""
    spec = {
        "options": {"hyd": 3600, "duration": 5 * 3600, "pattern_timestep": 3600, "rule_timestep": 360, "trials": 40},
        "patterns": {}, "curves": {}, "reservoirs": [{"name": "R", "head": 40.0}],
        "junctions": [{"name": "J0", "elev": 0.0, "demand": 0.0, "pattern": None}],
        "tanks": [{"name": "T0", "elev": 20.0, "init": 1.0, "min": 0.0, "max": 9.0, "diam": 4.0, "curve": None}],
        "pipes": [{"name": "PA", "start": "R", "end": "J0", "length": 100.0, "diam": 0.3, "rough": 100.0, "cv": False, "status": "OPEN"},
                  {"name": "PT", "start": "J0", "end": "T0", "length": 100.0, "diam": 0.2, "rough": 100.0, "cv": False, "status": "OPEN"},
                  {"name": "PX", "start": "R", "end": "J0", "length": 500.0, "diam": 0.1, "rough": 100.0, "cv": False, "status": "OPEN"},
                  {"name": "PY", "start": "R", "end": "J0", "length": 500.0, "diam": 0.1, "rough": 100.0, "cv": False, "status": "OPEN"}],
        "pumps": [], "valves": [],
        "controls": [
            {"name": "c0", "src": "T0", "attr": "level", "rel": "ge", "thr": 2.0, "link": "PX", "value": "CLOSED", "prio": 3},
            {"name": "c1", "src": "T0", "attr": "level", "rel": "ge", "thr": 3.0, "link": "PY", "value": "CLOSED", "prio": 3},
        ],
    }
    if curve:
        spec["curves"]["VC0"] = {"type": "VOLUME", "points": [[0.0, 0.0], [3.0, 30.0], [6.0, 90.0], [12.0, 200.0]]}
        spec["tanks"][0]["curve"] = "VC0"
    if not same_tank:
        spec["tanks"].append({"name": "T1", "elev": 20.0, "init": 1.5, "min": 0.0, "max": 9.0, "diam": 5.0, "curve": None})
        spec["pipes"].append({"name": "PT1", "start": "J0", "end": "T1", "length": 100.0, "diam": 0.2, "rough": 100.0, "cv": False, "status": "OPEN"})
        spec["controls"][1]["src"] = "T1"
    return spec


def reversed_tank_link_spec(op="reverse"):
    """seeded/C06-12: the pipe that ends at the tank is reversed after the model was built (wntr.morph.link.reverse_link, or the two
    setter assignments): the tank must still list the link -- limit controls, flow in its demand, level following the link flow"""
    s = priority_presolve_spec(3, "min")
    s["controls"] = []
    s["pipes"][0].update({"start": "J", "end": "T"})   # P: J -> T (the tank is the END node), flow leaves the tank against the direction
    s["morph"] = [{"op": op, "link": "P"}]
    return s


def reservoir_pattern_spec(hw_approx="default"):
    """seeded/C06-9: a tank fed by gravity from a reservoir whose head follows a pattern (40 m / 20 m, six hours each),
    pattern_start = 6 h (the run starts in the low half): the tank drains to min_level and must stop there"""
    s = _base(3600, 12)
    s["options"]["pattern_start"] = 6 * 3600
    s["options"]["hw_approx"] = hw_approx
    s["patterns"]["lake"] = [1.0] * 6 + [0.5] * 6
    s["reservoirs"].append({"name": "R", "head": 40.0, "pattern": "lake"})
    s["tanks"].append({"name": "T", "elev": 30.0, "init": 3.0, "min": 1.0, "max": 5.0, "diam": 12.0, "curve": None})
    s["junctions"].append({"name": "J", "elev": 5.0, "demand": 0.004, "pattern": None})
    s["pipes"] += [{"name": "PR", "start": "R", "end": "T", "length": 800.0, "diam": 0.25, "rough": 100.0, "cv": False, "status": "OPEN"},
                   {"name": "PJ", "start": "T", "end": "J", "length": 300.0, "diam": 0.25, "rough": 100.0, "cv": False, "status": "OPEN"}]
    return s


def overflow_spec(overflow=True):
    """seeded/C06-6: a tank with the overflow flag driven to max_level: the max-level controls must still stop it"""
    s = _base(3600, 4)
    s["reservoirs"].append({"name": "R", "head": 45.0})
    s["junctions"].append({"name": "J", "elev": 0.0, "demand": 0.0, "pattern": None})
    s["tanks"].append({"name": "T", "elev": 20.0, "init": 3.0, "min": 0.5, "max": 5.0, "diam": 6.0, "curve": None, "overflow": overflow})
    s["pipes"] += [{"name": "P1", "start": "R", "end": "J", "length": 200.0, "diam": 0.3, "rough": 100.0, "cv": False, "status": "OPEN"},
                   {"name": "P2", "start": "J", "end": "T", "length": 200.0, "diam": 0.25, "rough": 100.0, "cv": False, "status": "OPEN"}]
    return s


def rerun_edit_spec(attr="min_level", fresh=False):
    """seeded/C06-5: run, reset, edit a tank limit, run again with the SAME simulator object (fresh=True: control run)"""
    s = _base(3600, 6)
    s["reservoirs"].append({"name": "R", "head": 10.0})
    s["junctions"].append({"name": "J", "elev": 0.0, "demand": 0.02, "pattern": None})
    s["tanks"].append({"name": "T", "elev": 20.0, "init": 4.0, "min": 0.5, "max": 6.0, "diam": 8.0, "curve": None})
    s["pipes"] += [{"name": "P1", "start": "R", "end": "J", "length": 2000.0, "diam": 0.1, "rough": 100.0, "cv": True, "status": "OPEN"},
                   {"name": "P2", "start": "T", "end": "J", "length": 200.0, "diam": 0.25, "rough": 100.0, "cv": False, "status": "OPEN"}]
    if attr == "max_level":
        s["reservoirs"][0]["head"] = 45.0
        s["junctions"][0]["demand"] = 0.0
        s["pipes"][0].update({"length": 200.0, "diam": 0.3, "cv": False})
        edit = {"tank": "T", "attr": "max_level", "value": 4.6}
    elif attr == "elevation":
        edit = {"tank": "T", "attr": "elevation", "value": 22.0}
    else:
        edit = {"tank": "T", "attr": "min_level", "value": 2.5}
    s["rerun"] = {"edits": [edit], "fresh": fresh}
    return s


def tank_leak_spec(demand_model="DD"):
    """seeded/C08-6: a tank with a leak inside a window; the stored volume must follow (link inflow - leak) * dt"""
    s = _base(3600, 10)
    s["options"]["demand_model"] = demand_model
    s["reservoirs"].append({"name": "R", "head": 50.0})
    s["junctions"] += [{"name": "J1", "elev": 5.0, "demand": 0.006, "pattern": None}, {"name": "J2", "elev": 8.0, "demand": 0.004, "pattern": None}]
    s["tanks"].append({"name": "T", "elev": 30.0, "init": 8.0, "min": 0.0, "max": 25.0, "diam": 10.0, "curve": None,
                       "leak": {"area": 0.0012566, "cd": 0.7, "start": 3 * 3600, "end": 7 * 3600 + 450}})
    s["pipes"] += [{"name": "P0", "start": "R", "end": "J1", "length": 400.0, "diam": 0.3, "rough": 110.0, "cv": False, "status": "OPEN"},
                   {"name": "P1", "start": "J1", "end": "J2", "length": 400.0, "diam": 0.25, "rough": 110.0, "cv": False, "status": "OPEN"},
                   {"name": "P2", "start": "J2", "end": "T", "length": 250.0, "diam": 0.25, "rough": 110.0, "cv": False, "status": "OPEN"}]
    return s


def curve_end_at_limit_spec(side="max"):
    """seeded/C06-8: the volume curve's last (first) point sits exactly at max_level (min_level); the tank is driven to that limit
    with one-hour steps: the backtrack must come from the volume beyond the curve end"""
    s = _base(3600, 4)
    s["curves"]["VC"] = {"type": "VOLUME", "points": [[1.0, 30.0], [3.0, 120.0], [6.0, 300.0]]}
    s["junctions"].append({"name": "J", "elev": 0.0, "demand": 0.0 if side == "max" else 0.03, "pattern": None})
    s["tanks"].append({"name": "T", "elev": 20.0, "init": 4.0 if side == "max" else 2.5, "min": 1.0, "max": 6.0, "diam": 8.0, "curve": "VC"})
    if side == "max":
        s["reservoirs"].append({"name": "R", "head": 45.0})
        s["pipes"] += [{"name": "P1", "start": "R", "end": "J", "length": 300.0, "diam": 0.2, "rough": 100.0, "cv": False, "status": "OPEN"},
                       {"name": "P2", "start": "J", "end": "T", "length": 300.0, "diam": 0.2, "rough": 100.0, "cv": False, "status": "OPEN"}]
    else:
        s["reservoirs"].append({"name": "R", "head": 5.0})
        s["pipes"] += [{"name": "P1", "start": "R", "end": "J", "length": 3000.0, "diam": 0.08, "rough": 100.0, "cv": True, "status": "OPEN"},
                       {"name": "P2", "start": "T", "end": "J", "length": 300.0, "diam": 0.25, "rough": 100.0, "cv": False, "status": "OPEN"}]
    return s


def volcurve_clamp_spec():
    """DESIGN §6 C06: curve (0,0),(2,100),(4,400),(6,500), max_level 5.5, one-hour step"""
    return {
        "options": {"hyd": 3600, "duration": 3 * 3600, "pattern_timestep": 3600, "rule_timestep": 360, "trials": 40},
        "patterns": {}, "curves": {"VC": {"type": "VOLUME", "points": [[0, 0], [2, 100], [4, 400], [6, 500]]}},
        "reservoirs": [{"name": "R", "head": 30.0}],
        "junctions": [{"name": "J", "elev": 0.0, "demand": 0.0, "pattern": None}],
        "tanks": [{"name": "T", "elev": 0.0, "init": 4.5, "min": 0.5, "max": 5.5, "diam": 10.0, "curve": "VC"}],
        "pipes": [{"name": "P1", "start": "R", "end": "J", "length": 100.0, "diam": 0.3, "rough": 100.0, "cv": False, "status": "OPEN"},
                  {"name": "P2", "start": "J", "end": "T", "length": 100.0, "diam": 0.3, "rough": 100.0, "cv": False, "status": "OPEN"}],
        "pumps": [], "valves": [], "controls": [],
    }


def _base(hyd=3600, steps=3):
    return {"options": {"hyd": hyd, "duration": steps * hyd, "pattern_timestep": hyd, "rule_timestep": 360, "trials": 40},
            "patterns": {}, "curves": {}, "reservoirs": [], "junctions": [], "tanks": [], "pipes": [], "pumps": [], "valves": [], "controls": []}


def valve_user_open_spec():
    """a TCV that a simple control sets OPEN, between a tank and a demand node: Valve.status ignores the _internal_status the
    min-level control writes, the tank drains below min_level"""
    s = _base(3600, 4)
    s["reservoirs"].append({"name": "R", "head": 10.0})
    s["junctions"].append({"name": "J", "elev": 0.0, "demand": 0.02, "pattern": None})
    s["tanks"].append({"name": "T", "elev": 20.0, "init": 1.0, "min": 0.5, "max": 4.0, "diam": 6.0, "curve": None})
    s["pipes"].append({"name": "P", "start": "R", "end": "J", "length": 1000.0, "diam": 0.1, "rough": 100.0, "cv": True, "status": "OPEN"})
    s["valves"].append({"name": "V", "start": "T", "end": "J", "diam": 0.3, "type": "TCV", "setting": 5.0, "minor_loss": 0.0})
    s["controls"].append({"name": "c0", "src": "T", "attr": "level", "rel": "ge", "thr": 0.0, "link": "V", "value": "OPEN", "prio": 3})
    return s


def pump_reverse_spec():
    """a pump leaving the tank whose downstream head exceeds its shut-off head: the pump model passes reverse flow at
    dh = Hmax (+ < Htol) instead of closing (C02), the max-level controls skip pumps that start at the tank"""
    s = _base(3600, 3)
    s["reservoirs"].append({"name": "R", "head": 40.0})
    s["junctions"].append({"name": "J", "elev": 0.0, "demand": 0.0, "pattern": None})
    s["tanks"].append({"name": "T", "elev": 20.0, "init": 3.0, "min": 0.5, "max": 3.5, "diam": 4.0, "curve": None})
    s["pipes"].append({"name": "P", "start": "R", "end": "J", "length": 500.0, "diam": 0.2, "rough": 100.0, "cv": False, "status": "OPEN"})
    s["curves"]["HC"] = {"type": "HEAD", "points": [[0.0131, 6.25]]}
    s["pumps"].append({"name": "PU", "start": "T", "end": "J", "type": "HEAD", "param": "HC"})
    return s


def head_tie_spec():
    """curve tank (curve ends at max_level) fed through a zero-loss open TCV; a level control with a (clamp-shortened)
    backtrack decides the step, so the tank reaches max with the valve open; post-solve the re-open rule
    `tank.head >= other.head` (priority high) holds on the exact head tie and beats the close (priority medium)"""
    s = _base(1800, 4)
    s["reservoirs"].append({"name": "R", "head": 31.0})
    s["junctions"].append({"name": "J1", "elev": 2.0, "demand": 0.0, "pattern": None})
    s["curves"]["VC"] = {"type": "VOLUME", "points": [[0.5, 20.0], [3.17, 215.48]]}
    s["tanks"].append({"name": "T0", "elev": 25.0, "init": 2.0, "min": 0.5, "max": 3.17, "diam": 8.6, "curve": "VC"})
    s["pipes"].append({"name": "PA", "start": "R", "end": "J1", "length": 200.0, "diam": 0.3, "rough": 100.0, "cv": False, "status": "OPEN"})
    s["pipes"].append({"name": "PX", "start": "R", "end": "J1", "length": 2000.0, "diam": 0.1, "rough": 100.0, "cv": False, "status": "CLOSED"})
    s["valves"].append({"name": "V", "start": "T0", "end": "J1", "diam": 0.3, "type": "TCV", "setting": 20.0, "minor_loss": 0.0})
    s["controls"].append({"name": "c0", "src": "T0", "attr": "level", "rel": "ge", "thr": 2.87, "link": "PX", "value": "OPEN", "prio": 5})
    return s


def priority_conflict_spec(high_first=True, equal=False):
    """two simple controls that hold at every step and command opposite statuses on the same pipe, with different
    priorities (either registration order) or equal priority (the later registered one wins)"""
    s = _base(3600, 3)
    s["reservoirs"].append({"name": "R", "head": 40.0})
    s["junctions"].append({"name": "J", "elev": 0.0, "demand": 0.01, "pattern": None})
    s["tanks"].append({"name": "T", "elev": 20.0, "init": 2.0, "min": 0.0, "max": 8.0, "diam": 10.0, "curve": None})
    s["pipes"].append({"name": "PA", "start": "R", "end": "J", "length": 100.0, "diam": 0.3, "rough": 100.0, "cv": False, "status": "OPEN"})
    s["pipes"].append({"name": "PT", "start": "J", "end": "T", "length": 100.0, "diam": 0.2, "rough": 100.0, "cv": False, "status": "OPEN"})
    s["pipes"].append({"name": "PX", "start": "R", "end": "J", "length": 500.0, "diam": 0.1, "rough": 100.0, "cv": False, "status": "OPEN"})
    hi = {"name": "hi", "src": "T", "attr": "level", "rel": "ge", "thr": 0.5, "link": "PX", "value": "CLOSED", "prio": 3 if equal else 5}
    lo = {"name": "lo", "src": "J", "attr": "pressure", "rel": "ge", "thr": -50.0, "link": "PX", "value": "OPEN", "prio": 3 if equal else 1}
    s["controls"] = [hi, lo] if high_first else [lo, hi]
    return s


def build_wn(wntr, spec, report="ALL"):
    from wntr.network.controls import Control, ControlAction, ValueCondition, ControlPriority
    from wntr.network import LinkStatus

    wn = wntr.network.WaterNetworkModel()
    o = spec["options"]
    wn.options.time.hydraulic_timestep = o["hyd"]
    wn.options.time.duration = o["duration"]
    wn.options.time.pattern_timestep = o["pattern_timestep"]
    wn.options.time.rule_timestep = o["rule_timestep"]
    wn.options.time.report_timestep = report
    wn.options.hydraulic.trials = o.get("trials", 40)
    for key in ("specific_gravity", "demand_multiplier", "viscosity"):
        if o.get(key) is not None:
            setattr(wn.options.hydraulic, key, o[key])
    if o.get("demand_model"):
        wn.options.hydraulic.demand_model = o["demand_model"]
        wn.options.hydraulic.required_pressure = 15.0
        wn.options.hydraulic.minimum_pressure = 0.0
    for n, m in spec["patterns"].items():
        wn.add_pattern(n, list(m))
    for n, c in spec["curves"].items():
        wn.add_curve(n, c["type"], [tuple(p) for p in c["points"]])
    if o.get("pattern_start"):
        wn.options.time.pattern_start = o["pattern_start"]
    for r in spec["reservoirs"]:
        wn.add_reservoir(r["name"], base_head=r["head"], head_pattern=r.get("pattern"))
    for j in spec["junctions"]:
        wn.add_junction(j["name"], base_demand=j["demand"], demand_pattern=j["pattern"], elevation=j["elev"])
    for t in spec["tanks"]:
        wn.add_tank(t["name"], elevation=t["elev"], init_level=t["init"], min_level=t["min"], max_level=t["max"],
                    diameter=t["diam"], vol_curve=t["curve"], overflow=bool(t.get("overflow", False)))
    for t in spec["tanks"]:
        if t.get("leak"):
            lk = t["leak"]
            wn.get_node(t["name"]).add_leak(wn, area=lk["area"], discharge_coeff=lk["cd"], start_time=lk["start"], end_time=lk["end"])
    for p in spec["pipes"]:
        wn.add_pipe(p["name"], p["start"], p["end"], length=p["length"], diameter=p["diam"], roughness=p["rough"],
                    minor_loss=0.0, initial_status=p["status"], check_valve=p["cv"])
    for p in spec["pumps"]:
        wn.add_pump(p["name"], p["start"], p["end"], pump_type=p["type"], pump_parameter=p["param"])
    for v in spec["valves"]:
        wn.add_valve(v["name"], v["start"], v["end"], diameter=v["diam"], valve_type=v["type"], minor_loss=v.get("minor_loss", 0.0),
                     initial_setting=v["setting"])
    # the model EDITED after construction, before the run: reverse_link, split_pipe / break_pipe next to tanks, re-pointing an end
    for m in spec.get("morph", []):
        if m["op"] == "reverse":
            wn = wntr.morph.link.reverse_link(wn, m["link"], return_copy=bool(m.get("copy", False)))
        elif m["op"] == "swap_ends":  # the two setter assignments reverse_link makes, spelled out
            l = wn.get_link(m["link"])
            a, b = l.start_node, l.end_node
            l.start_node = b
            l.end_node = a
        elif m["op"] == "split":
            wn = wntr.morph.link.split_pipe(wn, m["link"], m["link"] + "_B", m["link"] + "_N", add_pipe_at_end=bool(m.get("at_end", True)),
                                            split_at_point=m.get("at", 0.5), return_copy=False)
        elif m["op"] == "break":
            wn = wntr.morph.link.break_pipe(wn, m["link"], m["link"] + "_B", m["link"] + "_N1", m["link"] + "_N2",
                                            add_pipe_at_end=bool(m.get("at_end", True)), split_at_point=m.get("at", 0.5), return_copy=False)
        elif m["op"] == "repoint":
            l = wn.get_link(m["link"])
            setattr(l, m["end"], wn.get_node(m["node"]))
    for c in spec["controls"]:
        link = wn.get_link(c["link"])
        if c.get("act", "status") == "status":
            act = ControlAction(link, "status", LinkStatus.Open if c["value"] == "OPEN" else LinkStatus.Closed)
        else:  # 'setting' (valves) / 'base_speed' (pumps) with a numeric value: the simulator adds a companion status control
            act = ControlAction(link, c["act"], float(c["value"]))
        if c.get("kind", "cond") == "time":
            from wntr.network.controls import SimTimeCondition

            cond = SimTimeCondition(wn, "=", int(c["time"]))
            wn.add_control(c["name"], Control(cond, act, priority=ControlPriority(c["prio"])))
            continue
        src = wn.get_node(c["src"])
        cond = ValueCondition(src, c["attr"], REL_NAMES[c["rel"]], c["thr"])
        if c.get("kind", "cond") == "rule":
            from wntr.network.controls import Rule

            wn.add_control(c["name"], Rule(cond, [act], priority=ControlPriority(c["prio"])))
            continue
        wn.add_control(c["name"], Control(cond, act, priority=ControlPriority(c["prio"])))
    return wn


# ----------------------------------------------------------------------------- instrumented run


class Trace:
    def __init__(self):
        self.upd, self.lvl, self.val, self.pre, self.post, self.tctl, self.rows = [], [], [], [], [], [], []
        self.error = None
        self.exception = None
        self.links = []  # link names, index order of the Lean `links` line
        self.kinds = []
        self.tracked = []
        self.results = None
        self.htol = None
        self.qtol = None


def _kind(wntr, link):
    from wntr.network.elements import Pipe, Pump

    if isinstance(link, Pipe):
        return "pipe"
    if isinstance(link, Pump):
        return "pump"
    return "valve"


def _num(x):
    return 0.0 if x is None else float(x)


def _fields(wn, names):
    out = []
    for n in names:
        l = wn.get_link(n)
        out.append((float(int(l._user_status)), float(int(l._internal_status)), _num(l._setting), float(getattr(l, "base_speed", 1.0))))
    return out


def _rel_name(rel):
    return rel.name


def _ctl_desc(ctl, names, ids):
    """(id, prio, link index, field, value) of a triggered simple control / internal control, or None"""
    acts = ctl._then_actions if ctl._which == "then" else ctl._else_actions
    if len(acts) != 1:
        return None
    a = acts[0]
    if hasattr(a, "_internal_attr"):
        field = {"_internal_status": "internal"}.get(a._internal_attr)
    else:
        field = {"_user_status": "user", "_setting": "setting", "base_speed": "speed"}.get(a._private_attribute)
    if field is None or a._target_obj.name not in names:
        return None
    return (ids.setdefault(id(ctl), len(ids)), int(ctl._priority), names.index(a._target_obj.name), field, float(a._value))


def tank_params(tank):
    pts = [] if tank.vol_curve is None else [tuple(map(float, p)) for p in tank.vol_curve.points]
    return dict(elev=float(tank.elevation), min=float(tank.min_level), max=float(tank.max_level), diam=float(tank.diameter), curve=pts)


def run_instrumented(spec, report="ALL", wn=None, keep_wn=False):
    wntr = vlib.import_wntr()
    import wntr.sim.hydraulics as hyd
    import wntr.sim.core as core
    from wntr.network import controls as C
    from wntr.network.elements import Tank

    if wn is None:
        wn = build_wn(wntr, spec, report)
    sim0 = None
    if spec.get("rerun"):
        import warnings as _w

        sim0 = wntr.sim.WNTRSimulator(wn)
        with _w.catch_warnings():
            _w.simplefilter("ignore")
            try:
                sim0.run_sim(HW_approx=spec["options"].get("hw_approx", "default"))
            except Exception:  # noqa -- the first run is only there to give the simulator object a history
                pass
        wn.reset_initial_values()
        for e in spec["rerun"]["edits"]:
            tk = wn.get_node(e["tank"])
            if e["attr"] == "add_pipe":
                if e["name"] not in wn.link_name_list:
                    wn.add_pipe(e["name"], e["value"], e["tank"], length=150.0, diameter=0.2, roughness=100.0)
            else:
                setattr(tk, e["attr"], e["value"])
        apply_control_edits(wntr, wn, spec)
        wn.reset_initial_values()
    tr = Trace()
    names = list(wn.link_name_list)
    tr.links = names
    tr.kinds = [_kind(wntr, wn.get_link(n)) for n in names]
    tr.tanks = {n: tank_params(t) for n, t in wn.tanks()}
    tr.tank_names = list(wn.tank_name_list)
    ids = {}
    sim = sim0 if (sim0 is not None and not spec["rerun"]["fresh"]) else wntr.sim.WNTRSimulator(wn)
    tr.htol, tr.qtol = float(sim._Htol), float(sim._Qtol)

    orig_upd = hyd.update_tank_heads
    orig_lvl = C.TankLevelCondition.evaluate
    orig_val = C.ValueCondition.evaluate
    orig_pre = core.WNTRSimulator._compute_next_timestep_and_run_presolve_controls_and_rules
    orig_post = core.WNTRSimulator._run_postsolve_controls
    orig_save = hyd.save_results
    orig_gatc = core.WNTRSimulator._get_all_tank_controls
    orig_gpc = core.WNTRSimulator._get_pump_controls
    orig_gvc = core.WNTRSimulator._get_valve_controls
    tr.companions = {"P": [], "V": []}

    orig_gcv = core.WNTRSimulator._get_cv_controls
    tr.own = {"T": [], "C": [], "P": [], "V": []}

    def _rec(which, orig):
        def f(self):
            out = orig(self)
            tr.own[which] = list(out)
            return out
        return f

    def _comp(which, orig):
        def f(self):
            out = orig(self)
            tr.own[which] = list(out)
            user = {id(c._condition): c for _, c in self._wn.controls()}
            for c in out:
                a = c._then_actions[0]
                if hasattr(a, "_internal_attr"):
                    continue
                src = user.get(id(c._condition))
                tr.companions[which].append(dict(link=a._target_obj.name, field={"_user_status": "user"}.get(a._private_attribute, a._private_attribute),
                                                 value=float(a._value), prio=int(c._priority), shares_condition=src is not None,
                                                 ctype=c._control_type.name, src_ctype=None if src is None else src._control_type.name))
            return out
        return f

    def upd(w):
        dt = w.sim_time - w._prev_sim_time
        before = [(n, float(t._prev_head), float(t.head), t.demand, float(dt)) for n, t in w.tanks()]
        orig_upd(w)
        for (n, ph, h, q, d), (_, t) in zip(before, w.tanks()):
            tr.upd.append(dict(tank=n, prev=ph, head=h, demand=_num(q), dt=d, out=float(t.head)))

    def lvl(self):
        t = self._source_obj
        rec = dict(tank=t.name, attr=self._source_attr, rel=_rel_name(self._relation), thr=float(self._threshold),
                   head=float(t.head), demand=None if t.demand is None else float(t.demand), last=float(self._last_value))
        try:
            r = orig_lvl(self)
        except NotImplementedError:
            rec.update(state=None, back=int(self._backtrack), last_out=float(self._last_value), raised=True)
            tr.lvl.append(rec)
            raise
        rec.update(state=bool(r), back=self._backtrack, last_out=float(self._last_value), raised=False)
        tr.lvl.append(rec)
        return r

    def val(self):
        r = orig_val(self)
        try:
            cur = float(getattr(self._source_obj, self._source_attr))
            thr = float(self._threshold)
            if math.isfinite(cur) and math.isfinite(thr):
                tr.val.append(dict(rel=_rel_name(self._relation), cur=cur, thr=thr, state=bool(r)))
        except (TypeError, ValueError):
            pass
        return r

    def _with_check(mgr, store):
        orig = mgr.check

        def chk():
            out = orig()
            store.append(out)
            return out

        mgr.check = chk
        return orig

    def pre(self, first_step):
        w = self._wn
        got = []
        orig = _with_check(self._presolve_controls, got)
        before = _fields(w, names)
        t0 = w.sim_time
        ri0 = self._rule_iter
        rule_calls = []
        orig_rcheck = self._rules.check

        def rcheck():
            out = orig_rcheck()
            rule_calls.append((w.sim_time, [r for r, _ in out]))
            return out

        self._rules.check = rcheck
        try:
            orig_pre(self, first_step)
        finally:
            del self._presolve_controls.check
            del self._rules.check
        due = []
        ok = len(got) == 1
        if ok:
            for c, b in got[0]:
                d = _ctl_desc(c, names, ids)
                if d is None or b is None:
                    ok = False
                    break
                due.append(d + (int(b),))
        has_rules = len(self._rules._controls) > 0
        table = []
        rules_ok = True
        for (tt, rules) in rule_calls:
            acts = []
            for ru in rules:
                for a in (ru._then_actions if ru._which == "then" else ru._else_actions):
                    field = {"_user_status": "user", "_setting": "setting", "base_speed": "speed"}.get(getattr(a, "_private_attribute", None))
                    if field is None or a._target_obj.name not in names:
                        rules_ok = False
                    else:
                        acts.append((int(ru._priority), names.index(a._target_obj.name), field, float(a._value)))
            if float(tt) != int(tt):
                rules_ok = False
            table.append((int(tt), acts))
        tr.pre.append(dict(first=bool(first_step), t0=t0, t1=w.sim_time, before=before, after=_fields(w, names), due=due,
                           usable=ok and not has_rules and float(t0) == int(t0),
                           usable_rules=ok and has_rules and rules_ok and float(t0) == int(t0), rules=table, ri0=int(ri0), ri1=int(self._rule_iter),
                           rule_step=int(w.options.time.rule_timestep)))

    def post(self):
        w = self._wn
        got = []
        _with_check(self._postsolve_controls, got)
        before = _fields(w, names)
        try:
            orig_post(self)
        finally:
            del self._postsolve_controls.check
        due = []
        ok = len(got) == 1
        if ok:
            for c, b in got[0]:
                d = _ctl_desc(c, names, ids)
                if d is None:
                    ok = False
                    break
                due.append(d)
        tr.post.append(dict(t=w.sim_time, before=before, after=_fields(w, names), due=due, usable=ok))

    def save(w, node_res, link_res):
        orig_save(w, node_res, link_res)
        row = dict(t=float(w.sim_time),
                   tanks={n: (float(t.head), _num(t.demand)) for n, t in w.tanks()},
                   leak={n: (_num(t.leak_demand), bool(t.leak_status)) for n, t in w.tanks()},
                   junc={n: (_num(j.head), _num(j.head) - float(j.elevation) if not j._is_isolated else 0.0, _num(j.demand)) for n, j in w.junctions()},
                   links={n: (float(int(w.get_link(n).status)), _num(w.get_link(n)._setting)) for n in names},
                   flow={n: _num(w.get_link(n).flow) for n in names},
                   priv=_fields(w, names))
        tr.rows.append(row)

    def gatc(self):
        out = orig_gatc(self)
        node_ids = {n: i for i, n in enumerate(self._wn.node_name_list)}
        for c in out:
            cond = c._condition
            a = c._then_actions[0]
            ro = None
            if isinstance(cond, C.AndCondition):
                rc, lc = cond._condition_1, cond._condition_2
                ro = (_rel_name(rc._relation), node_ids[rc._threshold_obj.name], rc._source_obj.name, rc._source_attr, rc._threshold_attr)
                cond = lc
            tr.tctl.append(dict(tank=cond._source_obj.name, link=a._target_obj.name, value=int(a._value), rel=_rel_name(cond._relation),
                                thr=float(cond._threshold), rel_other=ro, prio=int(c._priority), attr=cond._source_attr,
                                pre=c._control_type.name == "pre_and_postsolve", ctype=c._control_type.name,
                                cls=type(cond).__name__, internal=getattr(a, "_internal_attr", None)))
        return out

    hyd.update_tank_heads = upd
    C.TankLevelCondition.evaluate = lvl
    C.ValueCondition.evaluate = val
    core.WNTRSimulator._compute_next_timestep_and_run_presolve_controls_and_rules = pre
    core.WNTRSimulator._run_postsolve_controls = post
    hyd.save_results = save
    core.WNTRSimulator._get_all_tank_controls = _rec("T", gatc)
    core.WNTRSimulator._get_cv_controls = _rec("C", orig_gcv)
    core.WNTRSimulator._get_pump_controls = _comp("P", orig_gpc)
    core.WNTRSimulator._get_valve_controls = _comp("V", orig_gvc)
    try:
        import warnings

        with warnings.catch_warnings():
            warnings.simplefilter("ignore")
            res = sim.run_sim(HW_approx=spec["options"].get("hw_approx", "default"))
        tr.results = res
        if res.error_code is not None:
            tr.error = "error_code"
        tr.tracked = []
        for a in sim._change_tracker._actions.keys():
            obj, attr = a.target()
            if getattr(obj, "name", None) in names and attr in ("status", "setting", "base_speed"):
                tr.tracked.append((names.index(obj.name), {"status": "S", "setting": "V", "base_speed": "P"}[attr]))
        tr.tracked = sorted(set(tr.tracked))
        # registration order of the presolve / post-solve managers, as ids of the model's `simulatorControls`
        try:
            user = [c for _, c in wn.controls()]
            ids_of = {id(c): k for k, c in enumerate(user)}
            by_cond = {id(c._condition): k for k, c in enumerate(user)}
            for i, c in enumerate(tr.own["T"]):
                ids_of[id(c)] = 10000 + i
            for i, c in enumerate(tr.own["C"]):
                ids_of[id(c)] = 20000 + i
            for which, base, cbase in (("P", 30000, 1000), ("V", 40000, 2000)):
                n_int = 0
                for c in tr.own[which]:
                    if hasattr(c._then_actions[0], "_internal_attr"):
                        ids_of[id(c)] = base + n_int
                        n_int += 1
                    else:
                        ids_of[id(c)] = cbase + by_cond.get(id(c._condition), 999)
            tr.order = {"pre": [ids_of.get(id(c), -1) for c in sim._presolve_controls._controls],
                        "post": [ids_of.get(id(c), -1) for c in sim._postsolve_controls._controls],
                        "counts": (len(tr.own["T"]), len(tr.own["C"]),
                                   sum(1 for c in tr.own["P"] if hasattr(c._then_actions[0], "_internal_attr")),
                                   sum(1 for c in tr.own["V"] if hasattr(c._then_actions[0], "_internal_attr"))),
                        "user_link_only": all(getattr(a, "_target_obj", None) is not None and a._target_obj.name in names for c in user for a in c.actions())}
        except Exception as e:  # noqa
            tr.order = {"error": "%s: %s" % (type(e).__name__, e)}
    except NotImplementedError as e:
        tr.exception = "NotImplementedError: %s" % e
    except Exception as e:  # noqa
        tr.exception = "%s: %s" % (type(e).__name__, e)
    finally:
        hyd.update_tank_heads = orig_upd
        C.TankLevelCondition.evaluate = orig_lvl
        C.ValueCondition.evaluate = orig_val
        core.WNTRSimulator._compute_next_timestep_and_run_presolve_controls_and_rules = orig_pre
        core.WNTRSimulator._run_postsolve_controls = orig_post
        hyd.save_results = orig_save
        core.WNTRSimulator._get_all_tank_controls = orig_gatc
        core.WNTRSimulator._get_pump_controls = orig_gpc
        core.WNTRSimulator._get_valve_controls = orig_gvc
        core.WNTRSimulator._get_cv_controls = orig_gcv
    if keep_wn:
        tr.wn = wn
    return tr


# ----------------------------------------------------------------------------- Lean plumbing


class Lean:
    """collects request lines; one driver run answers them all"""

    def __init__(self):
        self.lines = []
        self.out = None
        self.pi_sent = False

    def ask(self, line):
        self.lines.append(line)
        return len(self.lines) - 1

    def run(self):
        text = "pi %s\nmode %s\n" % (F(math.pi), probe_mode()) + "\n".join(self.lines) + "\n"
        out = vlib.lean_run(DRIVER, text)
        if len(out) != len(self.lines) + 2:
            raise vlib.Infra("TankDriver returned %d lines for %d requests" % (len(out), len(self.lines) + 2))
        self.out = out[2:]
        bad = [i for i, l in enumerate(self.out) if l == "bad-op"]
        if bad:
            raise vlib.Infra("TankDriver: bad-op for request %r" % self.lines[bad[0]][:300])

    def ans(self, i):
        return self.out[i]


_MODE = None
PROBE_BROKEN = []  # (name, detail) the checks report as Broken("correspondence", ...)


def probe_mode():
    """which curve lookup the implementation under test uses: 'clamp' (np.interp clamps outside the volume curve) or
    'extrap' (the end segments are continued).  Probed on the real update_tank_heads and Tank.get_volume; the Lean model has both
    (Tank.extrap) and is told which one to be diffed against.  Never raises: anything unexpected goes to PROBE_BROKEN and the
    mode update_tank_heads shows (or, failing that, get_volume's) is used, so that the simulation oracles still run."""
    global _MODE
    if _MODE is None:
        wntr = vlib.import_wntr()
        gv = up = None
        try:
            wn, tank = make_real_tank(wntr, dict(elev=0.0, min=0.0, max=1.0, diam=1.0, curve=[(0.0, 0.0), (1.0, 10.0)]))
            gv = float(tank.get_volume(2.0))
        except Exception as e:  # noqa
            PROBE_BROKEN.append(("Tank.get_volume probe", "Tank.get_volume(2.0) on curve (0,0),(1,10) raised %s: %s" % (type(e).__name__, e)))
        try:
            wn, tank = make_real_tank(wntr, dict(elev=0.0, min=0.0, max=1.0, diam=1.0, curve=[(0.0, 0.0), (1.0, 10.0)]))
            up = real_upd(wntr, wn, tank, dict(prev=0.5, head=0.5, demand=1.0, dt=10.0))  # V 5 -> 15
        except Exception as e:  # noqa
            PROBE_BROKEN.append(("update_tank_heads probe", "update_tank_heads on a never-simulated model raised %s: %s" % (type(e).__name__, e)))
        mu = {1.0: "clamp", 1.5: "extrap"}.get(up)
        mg = {10.0: "clamp", 20.0: "extrap"}.get(gv)
        if mu is not None and mg is not None and mu != mg:
            PROBE_BROKEN.append(("curve lookup probe", "update_tank_heads %s (level %r) but Tank.get_volume %s (get_volume(2.0)=%r): the two lookups are "
                                 "no longer inverse to each other outside the curve" % (mu + "s", up, mg + "s", gv)))
        if mu is None and mg is None and not PROBE_BROKEN:
            PROBE_BROKEN.append(("curve lookup probe", "neither clamping nor end-segment extrapolation: get_volume(2.0)=%r, level after update %r" % (gv, up)))
        _MODE = mu or mg or "extrap"
    return _MODE


def curve_lookup(x, xp, fp):
    """the implementation's curve lookup in floats (mode-aware), for tolerance decisions only"""
    import numpy as np

    y = float(np.interp(x, xp, fp))
    if probe_mode() == "extrap" and len(xp) > 1:
        y += min(x - xp[0], 0.0) * (fp[1] - fp[0]) / (xp[1] - xp[0]) + max(x - xp[-1], 0.0) * (fp[-1] - fp[-2]) / (xp[-1] - xp[-2])
    return y


def tank_line(tid, p):
    pts = " ".join("%s %s" % (F(x), F(y)) for x, y in p["curve"])
    return ("tank %d %s %s %s %s %d %s" % (tid, F(p["elev"]), F(p["min"]), F(p["max"]), F(p["diam"]), len(p["curve"]), pts)).strip()


def links_line(kinds, fields):
    return "links %d " % len(kinds) + " ".join("%s %s %s %s %s" % (k, F(u), F(i), F(s), F(sp)) for k, (u, i, s, sp) in zip(kinds, fields))


def parse_rat(s):
    a, b = s.split("/")
    return Fraction(int(a), int(b))


def close(a, exact, rel=1e-9, absol=1e-12):
    e = float(exact)
    return a == e or abs(a - e) <= rel * max(abs(a), abs(e)) + absol


def parse_links(s):
    out = []
    for part in s.split(" ; "):
        u, i, st, sp = part.split(",")
        out.append((float(parse_rat(u)), float(parse_rat(i)), float(parse_rat(st)), float(parse_rat(sp))))
    return out


def spec_sig(spec):
    return json.dumps({k: v for k, v in spec.items() if k != "_orig"}, sort_keys=True)


def minimal_note(spec):
    return {"tanks": len(spec["tanks"]), "controls": len(spec["controls"]), "links": len(spec["pipes"]) + len(spec["pumps"]) + len(spec["valves"])}


# ----------------------------------------------------------------------------- batching + synthetic function-level cases


class Batch(Lean):
    """requests with callbacks: cb(answer) is called after the single driver run"""

    def __init__(self):
        super().__init__()
        self.cbs = []
        self.ntank = 0

    def ask(self, line, cb=None):
        i = super().ask(line)
        self.cbs.append(cb)
        return i

    def new_tank(self, params):
        tid = self.ntank
        self.ntank += 1
        self.ask(tank_line(tid, params))
        return tid

    def finish(self):
        if not self.lines:
            return
        self.run()
        for i, cb in enumerate(self.cbs):
            if cb is not None:
                cb(self.out[i])


def upd_line(tid, r):
    return "upd %d %s %s %s %s" % (tid, F(r["prev"]), F(r["head"]), F(r["demand"]), F(r["dt"]))


def lvl_line(tid, r):
    return "lvl %d %s %s %s %s %s %s" % (tid, r["attr"], r["rel"], F(r["thr"]), F(r["head"]),
                                        "none" if r["demand"] is None else F(r["demand"]), F(r["last"]))


def float_quotient(r, p):
    """the float the code floors in TankLevelCondition.evaluate (None when not applicable)"""
    import numpy as np

    if r["demand"] in (None, 0.0):
        return None
    cur = r["head"] if r["attr"] == "head" else r["head"] - p["elev"]
    if not p["curve"]:
        return (cur - r["thr"]) * math.pi / 4.0 * p["diam"] ** 2 / r["demand"]
    if r["attr"] == "pressure":
        return None
    off = p["elev"] if r["attr"] == "head" else 0.0
    arr = np.array(p["curve"])
    return float((curve_lookup(cur - off, arr[:, 0], arr[:, 1]) - curve_lookup(r["thr"] - off, arr[:, 0], arr[:, 1])) / r["demand"])


def near_half(x):
    """x*1e10 within 1e-3 of a half-integer: np.round(x, 10) in floats may legitimately differ from the exact rounding"""
    y = abs(x) * 1e10
    if y > 2 ** 52:
        return True  # beyond double precision at 1e-10: rounding is the identity in floats, not in Rat
    return abs((y % 1.0) - 0.5) < 1e-3


def check_lvl_answer(r, p, ans):
    """compare one observed TankLevelCondition.evaluate with the Lean answer; returns None or a mismatch text"""
    st, back, last, raised = ans.split()
    if r["raised"] != (raised == "1"):
        return "raised: impl %s model %s" % (r["raised"], raised)
    cur = r["head"] if r["attr"] == "head" else r["head"] - p["elev"]
    fuzzy = near_half(cur) or near_half(r["thr"]) or near_half(r["last"])
    if r["raised"]:
        return None if close(r["last_out"], parse_rat(last)) else "_last_value after NotImplementedError: impl %r model %s" % (r["last_out"], last)
    if r["state"] != (st == "T"):
        return None if fuzzy else "state: impl %s model %s" % (r["state"], st)
    if not close(r["last_out"], parse_rat(last)):
        return "_last_value: impl %r model %r" % (r["last_out"], float(parse_rat(last)))
    if int(r["back"]) != int(back):
        x = float_quotient(r, p)
        if fuzzy:
            return None
        if x is not None and abs(int(r["back"]) - int(back)) <= 1 and abs(x - round(x)) <= 1e-6 * max(1.0, abs(x)):
            return None
        if x is not None and abs(int(r["back"]) - int(back)) <= 1e-12 * abs(x):
            return None  # numerically-zero demand (1e-25): the quotient is ~1e25, one ulp of it is far more than 1 s
        return "_backtrack: impl %s model %s" % (r["back"], back)
    return None


def synthetic_tank(rng):
    elev = rng.choice([0.0, _r(rng, 0, 40, 2)])
    mn = rng.choice([0.0, _r(rng, 0, 2, 2)])
    mx = round(mn + rng.uniform(1, 6), 2)
    p = dict(elev=elev, min=mn, max=mx, diam=_r(rng, 1, 20, 2), curve=[])
    if rng.random() < 0.5:
        p["curve"] = [tuple(map(float, q)) for q in random_curve(rng, mn, mx, rng.random() < 0.5)]
    return p


def make_real_tank(wntr, p):
    wn = wntr.network.WaterNetworkModel()
    cname = None
    if p["curve"]:
        wn.add_curve("VC", "VOLUME", [tuple(q) for q in p["curve"]])
        cname = "VC"
    wn.add_tank("T", elevation=p["elev"], init_level=p["min"], min_level=p["min"], max_level=p["max"], diameter=p["diam"], vol_curve=cname)
    return wn, wn.get_node("T")


def synthetic_upd_cases(rng, p, n):
    out = []
    for _ in range(n):
        lvl = rng.uniform(p["min"] - 0.2, p["max"] + 0.2) if rng.random() < 0.8 else rng.choice([p["min"], p["max"]])
        prev = p["elev"] + lvl
        head = prev if rng.random() < 0.4 else prev + rng.uniform(-1, 1)
        q = rng.choice([0.0, rng.uniform(-0.2, 0.2), rng.uniform(-0.01, 0.01), rng.uniform(-3, 3)])
        dt = float(rng.choice([1, 60, 77, 900, 3600, 3599, rng.randint(1, 7200)]))
        out.append(dict(prev=prev, head=head, demand=q, dt=dt))
    return out


def synthetic_lvl_cases(rng, p, n):
    out = []
    for _ in range(n):
        attr = rng.choice(["level", "head", "pressure"])
        off = p["elev"] if attr == "head" else 0.0
        thr_l = rng.uniform(p["min"], p["max"]) if rng.random() < 0.8 else rng.choice([p["min"], p["max"]])
        thr_l = round(thr_l, rng.choice([1, 2, 6]))
        kind = rng.choice(["cross-up", "cross-down", "stay", "exact", "band", "wrong-way", "random"])
        d = rng.uniform(1e-4, 1.0)
        if kind == "cross-up":
            last, cur, q = thr_l - d, thr_l + rng.uniform(0, 1.0), rng.uniform(1e-4, 0.3)
        elif kind == "cross-down":
            last, cur, q = thr_l + d, thr_l - rng.uniform(0, 1.0), -rng.uniform(1e-4, 0.3)
        elif kind == "stay":
            last, cur, q = thr_l + d, thr_l + rng.uniform(0, 1), rng.uniform(-0.3, 0.3)
        elif kind == "exact":
            last, cur, q = thr_l - d * rng.choice([1, -1]), thr_l, rng.uniform(-0.3, 0.3)
        elif kind == "band":
            last, cur, q = thr_l - d, thr_l + rng.choice([-4e-11, 4e-11, -6e-11, 0.9e-10]), rng.uniform(1e-3, 0.3)
        elif kind == "wrong-way":
            last, cur, q = thr_l - d, thr_l + rng.uniform(0, 1.0), -rng.uniform(1e-4, 0.3)
        else:
            last, cur, q = rng.uniform(p["min"], p["max"]), rng.uniform(p["min"], p["max"]), rng.uniform(-0.3, 0.3)
        r = rng.random()
        demand = None if r < 0.05 else (0.0 if r < 0.1 else q)
        out.append(dict(attr=attr, rel=rng.choice(["ge", "gt", "le", "lt"]), thr=thr_l + off, head=cur + p["elev"],
                        demand=demand, last=last + off, kind=kind))
    return out


def safe_call(fn, *a):
    """(result, None) or (None, 'ExcType: text') -- a direct call of a real function must never abort the check"""
    try:
        return fn(*a), None
    except Exception as e:  # noqa
        return None, "%s: %s" % (type(e).__name__, e)


def real_upd(wntr, wn, tank, c):
    import wntr.sim.hydraulics as hyd

    tank._prev_head = c["prev"]
    tank._head = c["head"]
    tank._demand = c["demand"]
    wn._prev_sim_time = 1000.0
    wn.sim_time = 1000.0 + c["dt"]
    hyd.update_tank_heads(wn)
    return float(tank.head)


def real_lvl(wntr, tank, c):
    from wntr.network.controls import ValueCondition

    tank._head = c["head"]
    tank._demand = c["demand"]
    cond = ValueCondition(tank, c["attr"], REL_NAMES[c["rel"]], c["thr"])
    cond._last_value = c["last"]
    rec = dict(c, tank="T")
    try:
        st = cond.evaluate()
        rec.update(state=bool(st), back=cond._backtrack, last_out=float(cond._last_value), raised=False)
    except NotImplementedError:
        rec.update(state=None, back=int(cond._backtrack), last_out=float(cond._last_value), raised=True)
    return rec
