"""Translator for C04: regenerates, from wntr/network/controls.py as it is NOW, the bodies of
`SimTimeCondition.evaluate` and `TimeOfDayCondition.evaluate` as `TimeProg` programs (lean/WntrModel/Model/TimeProg.lean)
into lean/WntrModel/Gen/TimeConds.lean, and from wntr/sim/core.py the statement skeleton of
`_compute_next_timestep_and_run_presolve_controls_and_rules` into lean/WntrModel/Gen/PresolveShape.lean.
Props/C04.lean proves that interpreting the generated programs IS the hand-written model (evalSimTime / evalTod /
loopStep); an edit of those functions therefore breaks a named theorem.  Anything the translator does not understand
raises BrokenTie."""
import ast
import os

import sys
sys.path.insert(0, os.path.dirname(os.path.dirname(os.path.abspath(__file__))))
import vlib

VARS = {"cur_time": "curTime", "prev_time": "prevTime", "threshold": "threshold", "day": "day", "midnight": "midnight",
        "last": "last", "after": "after", "reached": "reached", "crossed": "crossed"}
ATTRS = {("self", "_threshold"): "thr", ("self", "_repeat"): "rep", ("self", "_first_day"): "firstDay",
         ("self", "_model", "sim_time"): "cur", ("self", "_model", "_prev_sim_time"): "prev",
         ("self", "_model", "_shifted_time"): "cur", ("self", "_model", "_prev_shifted_time"): "prev"}
RELS = {"eq", "ne", "gt", "ge", "lt", "le"}


class Untranslatable(Exception):
    pass


def _chain(node):
    path = []
    while isinstance(node, ast.Attribute):
        path.append(node.attr)
        node = node.value
    if isinstance(node, ast.Name):
        path.append(node.id)
        return tuple(reversed(path))
    return None


def _rel(node):
    c = _chain(node)
    if c and len(c) == 2 and c[0] == "Comparison" and c[1] in RELS:
        return ".%s" % c[1]
    raise Untranslatable("not a Comparison member: %s" % ast.dump(node))


def expr(e):
    if isinstance(e, ast.Constant):
        if e.value is True:
            return "(.lit 1)"
        if e.value is False:
            return "(.lit 0)"
        if isinstance(e.value, int):
            return "(.lit %d)" % e.value
        raise Untranslatable("constant %r" % (e.value,))
    if isinstance(e, ast.Name):
        if e.id in VARS:
            return "(.var .%s)" % VARS[e.id]
        raise Untranslatable("unknown local %s" % e.id)
    if isinstance(e, ast.Attribute):
        c = _chain(e)
        if c in ATTRS:
            return "(.var .%s)" % ATTRS[c]
        raise Untranslatable("unknown attribute %s" % (c,))
    if isinstance(e, ast.BinOp):
        ops = {ast.Add: "add", ast.Sub: "sub", ast.Mult: "mul", ast.FloorDiv: "fdiv"}
        if type(e.op) in ops:
            return "(.%s %s %s)" % (ops[type(e.op)], expr(e.left), expr(e.right))
        raise Untranslatable("operator %s" % type(e.op).__name__)
    if isinstance(e, ast.Call):
        f = e.func
        if isinstance(f, ast.Name) and f.id in ("int", "bool") and len(e.args) == 1:
            return expr(e.args[0])
        if _chain(f) == ("np", "floor") and len(e.args) == 1 and isinstance(e.args[0], ast.BinOp) and isinstance(e.args[0].op, ast.Div):
            return "(.fdiv %s %s)" % (expr(e.args[0].left), expr(e.args[0].right))
        raise Untranslatable("call %s" % ast.dump(f))
    if isinstance(e, ast.BoolOp):
        op = "and" if isinstance(e.op, ast.And) else "or"
        out = expr(e.values[-1])
        for v in reversed(e.values[:-1]):
            out = "(.%s %s %s)" % (op, expr(v), out)
        return out
    if isinstance(e, ast.UnaryOp) and isinstance(e.op, ast.Not):
        return "(.not %s)" % expr(e.operand)
    if isinstance(e, ast.Compare):
        c = _chain(e.left)
        if c == ("self", "_relation") and len(e.ops) == 1:
            if isinstance(e.ops[0], (ast.Is, ast.Eq)):
                return "(.relIn [%s])" % _rel(e.comparators[0])
            if isinstance(e.ops[0], ast.In) and isinstance(e.comparators[0], (ast.Tuple, ast.List, ast.Set)):
                return "(.relIn [%s])" % ", ".join(_rel(x) for x in e.comparators[0].elts)
            raise Untranslatable("relation test %s" % ast.dump(e))
        ops = {ast.Lt: "lt", ast.LtE: "le", ast.Gt: "gt", ast.GtE: "ge"}
        parts, left = [], e.left
        for op, right in zip(e.ops, e.comparators):
            if type(op) not in ops:
                raise Untranslatable("comparison %s" % type(op).__name__)
            parts.append("(.%s %s %s)" % (ops[type(op)], expr(left), expr(right)))
            left = right
        out = parts[-1]
        for p in reversed(parts[:-1]):
            out = "(.and %s %s)" % (p, out)
        return out
    raise Untranslatable("expression %s" % ast.dump(e))


def block(stmts, ind):
    out = []
    for st in stmts:
        if isinstance(st, ast.Expr) and isinstance(st.value, ast.Constant) and isinstance(st.value.value, str):
            continue  # docstring
        if isinstance(st, ast.Assign) and len(st.targets) == 1:
            t = st.targets[0]
            if isinstance(t, ast.Name) and t.id in VARS:
                out.append("%s.assign .%s %s" % (ind, VARS[t.id], expr(st.value)))
                continue
            if _chain(t) == ("self", "_backtrack"):
                out.append("%s.setBack %s" % (ind, expr(st.value)))
                continue
            raise Untranslatable("assignment target %s" % ast.dump(t))
        if isinstance(st, ast.Return):
            out.append("%s.ret %s" % (ind, expr(st.value) if st.value is not None else "(.lit 0)"))
            continue
        if isinstance(st, ast.If):
            out.append("%s.ite %s [\n%s] [\n%s]" % (ind, expr(st.test), block(st.body, ind + "  "), block(st.orelse, ind + "  ")))
            continue
        raise Untranslatable("statement %s" % type(st).__name__)
    return ",\n".join(out)


THR_INIT = ("if isinstance(threshold, str) and (not ':' in threshold):\n    self._threshold = float(threshold) * 3600.0\n"
            "else:\n    self._threshold = self._parse_value(threshold)")
REP_INIT = {"self._repeat = repeat": ".assignArg", "if repeat is True:\n    self._repeat = 86400": ".ifIsTrueAssign 86400"}


def init_norm(cls):
    """the statements of __init__ that deal with `repeat` / `threshold`, as tokens; anything else touching them is refused"""
    fn = next(n for n in cls.body if isinstance(n, ast.FunctionDef) and n.name == "__init__")
    rep, thr = [], None
    for st in fn.body:
        txt = ast.unparse(st)
        names = {n.id for n in ast.walk(st) if isinstance(n, ast.Name)} | {n.attr for n in ast.walk(st) if isinstance(n, ast.Attribute)}
        if txt in REP_INIT:
            rep.append(REP_INIT[txt])
        elif txt == THR_INIT:
            thr = ".hoursStringTimes3600ElseParseValue"
        elif "_repeat" in names and "_first_day" in names:
            continue  # TimeOfDayCondition: the one-shot-already-past adjustment of first_day (modelled as TodCond.mk')
        elif "repeat" in names or "_repeat" in names or "threshold" in names or "_threshold" in names:
            raise Untranslatable("%s.__init__ statement on repeat/threshold: `%s`" % (cls.name, txt.splitlines()[0]))
    if thr is None:
        raise Untranslatable("%s.__init__: threshold normalisation not found" % cls.name)
    return rep, thr


def write_time_conds():
    path = os.path.join(vlib.REPO, "wntr", "network", "controls.py")
    try:
        tree = ast.parse(open(path).read())
        progs = {}
        for cname in ("SimTimeCondition", "TimeOfDayCondition"):
            cls = next(n for n in tree.body if isinstance(n, ast.ClassDef) and n.name == cname)
            fn = next(n for n in cls.body if isinstance(n, ast.FunctionDef) and n.name == "evaluate")
            progs[cname] = block(fn.body, "  ")
            progs[cname + ".init"] = init_norm(cls)
    except (StopIteration, SyntaxError, OSError) as e:
        raise vlib.BrokenTie("cannot locate the evaluate methods in wntr/network/controls.py: %r" % (e,))
    except Untranslatable as e:
        raise vlib.BrokenTie("controls.py: evaluate() uses a construct outside the TimeProg language: %s" % e)
    text = ("-- GENERATED by harness/props/c04_translate.py from wntr/network/controls.py (Python ast of SimTimeCondition.evaluate and\n"
            "-- TimeOfDayCondition.evaluate). Do not edit.\nimport WntrModel.Model.TimeProg\nnamespace Wntr.Gen.TimeConds\nopen Wntr.TimeProg Wntr.Time\n\n"
            "/-- `SimTimeCondition.evaluate` -/\ndef simTimeEvaluate : List Stmt := [\n%s]\n\n"
            "/-- `TimeOfDayCondition.evaluate` -/\ndef todEvaluate : List Stmt := [\n%s]\n\n"
            "/-- `SimTimeCondition.__init__`: the statements that set `self._repeat` -/\ndef simTimeRepeatInit : List RepStmt := [%s]\n"
            "def simTimeThresholdInit : ThrShape := %s\n\n"
            "/-- `TimeOfDayCondition.__init__` (its `repeat` is a flag) -/\ndef todRepeatInit : List RepStmt := [%s]\n"
            "def todThresholdInit : ThrShape := %s\n\nend Wntr.Gen.TimeConds\n"
            % (progs["SimTimeCondition"], progs["TimeOfDayCondition"], ", ".join(progs["SimTimeCondition.init"][0]), progs["SimTimeCondition.init"][1],
               ", ".join(progs["TimeOfDayCondition.init"][0]), progs["TimeOfDayCondition.init"][1]))
    vlib.write_if_changed(os.path.join(vlib.GEN, "TimeConds.lean"), text)
    return progs


# ----------------------------------------------------------------------------- the pre-solve scheduler
RT = "self._rule_iter * self._wn.options.time.rule_timestep"
PCR = "presolve_controls_to_run"
PRO = {
    "self._change_tracker.set_reference_point('presolve')": ".setRef",
    "%s = self._presolve_controls.check()" % PCR: ".check",
    "%s.sort(key=lambda i: i[0]._priority)" % PCR: ".sortPrio",
    "%s.sort(key=lambda i: i[1], reverse=True)" % PCR: ".sortBackRev",
    "cnt = 0": ".cntZero",
    "self._change_tracker.remove_reference_point(key='presolve')": ".delRef",
}
FIRST_ZERO = "if first_step:\n    %s = [(c, 0) for c, b in %s]" % (PCR, PCR)
FIRST_ZERO_ELSE_CLAMP = (FIRST_ZERO + "\nelse:\n    max_back = max(int(self._wn.sim_time - self._wn._prev_sim_time) - 1, 0)\n"
                         "    %s = [(c, min(max(b, 0), max_back)) for c, b in %s]" % (PCR, PCR))
# canonical names of the locals of the method, in the order of their first assignment (a renaming of a local is harmless)
CANON_LOCALS = [PCR, "max_back", "cnt", "old_time", "rules_to_run", "control", "backtrack"]
CANON_FOR = ["rule", "rule_back"]


def _alpha_rename(fn):
    """rename the locals of the method to the canonical names by order of first assignment; comprehension variables to
    c, b; lambda parameters to i; the `for` targets over the rules to rule, rule_back.  Returns the function unchanged when
    the number of locals differs (the tables below then refuse what they do not know)."""
    stores, fors = [], []

    class V(ast.NodeVisitor):
        def visit_If(self, node):
            if ast.unparse(node.test).startswith("logger.getEffectiveLevel()"):
                return
            self.generic_visit(node)

        def visit_Lambda(self, node):
            return

        def visit_ListComp(self, node):
            return

        def visit_For(self, node):
            for n in ast.walk(node.target):
                if isinstance(n, ast.Name) and n.id not in fors:
                    fors.append(n.id)
            for st in node.body:
                self.visit(st)

        def visit_Name(self, node):
            if isinstance(node.ctx, ast.Store) and node.id not in stores and node.id not in fors:
                stores.append(node.id)

    for st in fn.body:
        V().visit(st)
    if len(stores) != len(CANON_LOCALS) or len(fors) != len(CANON_FOR):
        return fn
    ren = dict(zip(stores, CANON_LOCALS))
    ren.update(zip(fors, CANON_FOR))

    class R(ast.NodeTransformer):
        def visit_Name(self, node):
            return ast.copy_location(ast.Name(id=ren.get(node.id, node.id), ctx=node.ctx), node)

        def visit_Lambda(self, node):
            if len(node.args.args) == 1:
                old = node.args.args[0].arg
                node.args.args[0].arg = "i"
                for n in ast.walk(node.body):
                    if isinstance(n, ast.Name) and n.id == old:
                        n.id = "i"
            self.generic_visit(node)
            return node

        def visit_ListComp(self, node):
            if len(node.generators) == 1 and isinstance(node.generators[0].target, ast.Tuple) and len(node.generators[0].target.elts) == 2:
                olds = [e.id for e in node.generators[0].target.elts if isinstance(e, ast.Name)]
                if len(olds) == 2:
                    m = dict(zip(olds, ["c", "b"]))
                    for n in ast.walk(node):
                        if isinstance(n, ast.Name) and n.id in m:
                            n.id = m[n.id]
            self.generic_visit(node)
            return node

    return ast.fix_missing_locations(R().visit(fn))
CONDS = {
    "cnt >= len(%s)" % PCR: ".cntGeLen",
    "self._wn.sim_time - backtrack < %s" % RT: ".beforeRule",
    "self._wn.sim_time - backtrack == %s" % RT: ".atRule",
    "self._change_tracker.changes_made(ref_point='presolve')": ".changed",
    "not first_step": ".notFirst",
}
ACTS = {
    "old_time = self._wn.sim_time": ".saveOldTime",
    "self._wn.sim_time = %s" % RT: ".setTimeToRule",
    "self._wn.sim_time = old_time": ".restoreOldTime",
    "wntr.sim.hydraulics.update_tank_heads(self._wn)": ".updateTankHeads",
    "self._rule_iter += 1": ".incRuleIter",
    "rules_to_run = self._check_rules()": ".checkRules",
    "rules_to_run.sort(key=lambda i: i[0]._priority)": ".sortRules",
    "control, backtrack = %s[cnt]" % PCR: ".pickControl",
    "control.run_control_action()": ".runControl",
    "cnt += 1": ".incCnt",
    "self._wn.sim_time -= backtrack": ".subBack",
    "self._wn.sim_time += backtrack": ".addBack",
}
LOOP_COND = "cnt < len(%s) or %s <= self._wn.sim_time" % (PCR, RT)
GROUP_COND = "cnt < len(%s) and %s[cnt][1] == backtrack" % (PCR, PCR)


def _is_logging(st):
    txt = ast.unparse(st)
    if isinstance(st, ast.If) and txt.startswith("if logger.getEffectiveLevel()"):
        return True
    if isinstance(st, ast.Expr) and txt.startswith("logger."):
        return True
    if isinstance(st, ast.Expr) and isinstance(st.value, ast.Constant) and isinstance(st.value.value, str):
        return True
    return False


def _strip(stmts):
    return [st for st in stmts if not _is_logging(st)]


def sched_block(stmts, ind):
    out = []
    for st in _strip(stmts):
        txt = ast.unparse(st)
        if txt in ACTS:
            out.append("%s.act %s" % (ind, ACTS[txt]))
        elif isinstance(st, ast.Break):
            out.append("%s.brk" % ind)
        elif isinstance(st, ast.For) and ast.unparse(st.target) in ("(rule, rule_back)", "rule, rule_back") and ast.unparse(st.iter) == "rules_to_run" \
                and [ast.unparse(x) for x in _strip(st.body)] == ["rule.run_control_action()"] and not st.orelse:
            out.append("%s.act .runRules" % ind)
        elif isinstance(st, ast.While) and ast.unparse(st.test) == GROUP_COND \
                and [ast.unparse(x) for x in _strip(st.body)] == ["%s[cnt][0].run_control_action()" % PCR, "cnt += 1"] and not st.orelse:
            out.append("%s.act .runGroupRest" % ind)
        elif isinstance(st, ast.If):
            c = ast.unparse(st.test)
            if c not in CONDS:
                raise Untranslatable("scheduler condition `%s`" % c)
            out.append("%s.ite %s [\n%s] [\n%s]" % (ind, CONDS[c], sched_block(st.body, ind + "  "), sched_block(st.orelse, ind + "  ")))
        else:
            raise Untranslatable("scheduler statement `%s`" % txt.splitlines()[0])
    return ",\n".join(out)


def write_presolve_shape():
    path = os.path.join(vlib.REPO, "wntr", "sim", "core.py")
    try:
        tree = ast.parse(open(path).read())
        cls = next(n for n in tree.body if isinstance(n, ast.ClassDef) and n.name == "WNTRSimulator")
        fn = next(n for n in cls.body if isinstance(n, ast.FunctionDef) and n.name == "_compute_next_timestep_and_run_presolve_controls_and_rules")
        fn = _alpha_rename(fn)
        pro, loop_cond, body = [], None, None
        for st in _strip(fn.body):
            txt = ast.unparse(st)
            if isinstance(st, ast.While):
                if loop_cond is not None:
                    raise Untranslatable("second while loop")
                if txt.splitlines()[0] != "while %s:" % LOOP_COND or st.orelse:
                    raise Untranslatable("loop condition `%s`" % ast.unparse(st.test))
                loop_cond = ".cntLtLenOrRuleDue"
                body = sched_block(st.body, "  ")
            elif txt in PRO:
                pro.append(PRO[txt])
            elif txt == FIRST_ZERO_ELSE_CLAMP:
                pro.append(".firstStepZeroElseClamp")
            elif txt == FIRST_ZERO:
                raise Untranslatable("the first-step override without the clamp of the other backtracks into the step (shape before /repo 7d8c4ce1) is refused")
            else:
                raise Untranslatable("prologue statement `%s`" % txt.splitlines()[0])
        if loop_cond is None:
            raise Untranslatable("no while loop")
    except (StopIteration, SyntaxError, OSError) as e:
        raise vlib.BrokenTie("cannot locate _compute_next_timestep_and_run_presolve_controls_and_rules in wntr/sim/core.py: %r" % (e,))
    except Untranslatable as e:
        raise vlib.BrokenTie("core.py: the pre-solve scheduler uses a construct outside the PresolveProg tokens: %s" % e)
    text = ("-- GENERATED by harness/props/c04_translate.py from wntr/sim/core.py (Python ast of\n"
            "-- WNTRSimulator._compute_next_timestep_and_run_presolve_controls_and_rules; logging dropped). Do not edit.\n"
            "import WntrModel.Model.PresolveProg\nnamespace Wntr.Gen.PresolveShape\nopen Wntr.PresolveProg\n\n"
            "/-- the statements around the `while` loop, in source order -/\ndef prologue : List Pro := [%s]\n\n"
            "def loopCond : LoopCond := %s\n\n/-- the body of the `while` loop -/\ndef body : List Stmt := [\n%s]\n\nend Wntr.Gen.PresolveShape\n"
            % (", ".join(pro), loop_cond, body))
    vlib.write_if_changed(os.path.join(vlib.GEN, "PresolveShape.lean"), text)


def write_all():
    write_time_conds()
    write_presolve_shape()


if __name__ == "__main__":
    write_all()
    print(open(os.path.join(vlib.GEN, "PresolveShape.lean")).read())
