import ast, json, sys, os
REPO = os.environ.get("VERIF_REPO", "/repo")

class Bad(Exception): pass

def fn(tree, name, cls=None):
    for n in ast.walk(tree):
        if cls and isinstance(n, ast.ClassDef) and n.name == cls:
            for m in n.body:
                if isinstance(m, ast.FunctionDef) and m.name == name:
                    return m
        if not cls and isinstance(n, ast.FunctionDef) and n.name == name:
            return n
    raise Bad("function %s not found" % name)

def U(n): return ast.unparse(n)

class Inline(ast.NodeTransformer):
    def __init__(self, env): self.env = env
    def visit_Name(self, n):
        if isinstance(n.ctx, ast.Load) and n.id in self.env:
            return self.visit(ast.parse(self.env[n.id], mode="eval").body)
        return n

def inline(expr, env):
    return U(Inline(env).visit(ast.parse(U(expr), mode="eval").body))

def local_env(stmts, names_only=None):
    """single-assignment simple locals `x = expr` of a statement list (not nested)"""
    cnt, val = {}, {}
    for s in stmts:
        if isinstance(s, ast.Assign) and len(s.targets) == 1 and isinstance(s.targets[0], ast.Name):
            k = s.targets[0].id
            cnt[k] = cnt.get(k, 0) + 1
            val[k] = U(s.value)
    return {k: v for k, v in val.items() if cnt[k] == 1 and (names_only is None or k in names_only)}

ADD_PIPE = ["name", "start_node_name", "end_node_name", "length", "diameter", "roughness", "minor_loss", "initial_status", "check_valve"]
ADD_PIPE_DEF = {"length": "304.8", "diameter": "0.3048", "roughness": "100", "minor_loss": "0.0", "initial_status": "'OPEN'", "check_valve": "False"}

def call_args(call, names, defaults, env):
    out = dict(defaults)
    for i, a in enumerate(call.args):
        out[names[i]] = inline(a, env)
    for k in call.keywords:
        out[k.arg] = inline(k.value, env)
    return out

def split_shape(src):
    tree = ast.parse(src)
    f = fn(tree, "_split_or_break_pipe")
    env = local_env(f.body, {"original_length", "upstream_length", "downstream_length", "start_node", "end_node"})
    env = {k: v for k, v in env.items() if k not in ("start_node", "end_node")}
    # inline transitively
    for _ in range(3):
        env = {k: inline(ast.parse(v, mode="eval").body, {a: b for a, b in env.items() if a != k}) for k, v in env.items()}
    sh = {}
    branch = [s for s in f.body if isinstance(s, ast.If) and U(s.test) == "add_pipe_at_end"]
    if len(branch) != 1: raise Bad("if add_pipe_at_end: not found")
    LEN = {"pipe.length * split_at_point": "timesF", "pipe.length * (1 - split_at_point)": "times1mF",
           "pipe.length - pipe.length * split_at_point": "times1mF"}
    VERT = {"first_vertices": "first", "last_vertices": "last"}
    nps = []
    for tag, body in (("end", branch[0].body), ("start", branch[0].orelse)):
        calls = [s.value for s in body if isinstance(s, ast.Expr) and isinstance(s.value, ast.Call) and U(s.value.func).endswith(".add_pipe")]
        if len(calls) != 1: raise Bad("add_pipe call in branch %s" % tag)
        a = call_args(calls[0], ADD_PIPE, ADD_PIPE_DEF, env)
        assigns = [(U(s.targets[0]), inline(s.value, env)) for s in body if isinstance(s, ast.Assign) and len(s.targets) == 1]
        d = dict(assigns)
        sh[tag + "OldLen"] = LEN.get(d.get("pipe.length", ""), "bad")
        sh[tag + "NewLen"] = LEN.get(a["length"], "bad")
        sh[tag + "OldVerts"] = VERT.get(d.get("pipe.vertices", ""), "bad")
        sh[tag + "NewVerts"] = VERT.get(d.get("new_pipe.vertices", ""), "bad")
        sh[tag + "Ends"] = [a["name"], a["start_node_name"], a["end_node_name"]] + ["%s = %s" % kv for kv in assigns if kv[0] in ("pipe.end_node", "pipe.start_node")]
        sh[tag + "Stmts"] = [U(s) for s in body if not (isinstance(s, ast.Expr) and isinstance(s.value, ast.Call) and U(s.value.func).endswith(".add_pipe"))]
        nps.append(a)
    def src(slot, table):
        v = set(a[slot] for a in nps)
        return table.get(v.pop(), "bad") if len(v) == 1 else "bad"
    sh["newPipe"] = dict(diam=src("diameter", {"pipe.diameter": "orig"}), rough=src("roughness", {"pipe.roughness": "orig"}),
                         minor=src("minor_loss", {"pipe.minor_loss": "orig", "0.0": "zero", "0": "zero"}),
                         status=src("initial_status", {"pipe.status": "orig", "'OPEN'": "one", "LinkStatus.Open": "one"}),
                         cv=src("check_valve", {"pipe.check_valve": "orig", "False": "no"}))
    # elevation rule
    elev = [s for s in f.body if isinstance(s, ast.If) and "Reservoir" in U(s.test)]
    if len(elev) != 1:
        sh["elevation"] = ["<no reservoir if-chain>"] + [U(s) for s in f.body if "elevation" in U(s) and not isinstance(s, (ast.For, ast.If))]
    else:
        chain, node = [], elev[0]
        while True:
            e = local_env(node.body)
            chain.append("%s -> %s" % (U(node.test), inline(ast.parse(e.get("junction_elevation", "None"), mode="eval").body, {k: v for k, v in e.items() if k != "junction_elevation"})))
            if len(node.orelse) == 1 and isinstance(node.orelse[0], ast.If):
                node = node.orelse[0]
            else:
                e = local_env(node.orelse)
                for _ in range(2):
                    e = {k: inline(ast.parse(v, mode="eval").body, {a: b for a, b in e.items() if a != k}) for k, v in e.items()}
                chain.append("else -> %s" % e.get("junction_elevation", "None"))
                break
        sh["elevation"] = chain
    sh["checks"] = [U(s.test) + " => " + U(s.body[0]).split("(")[0] for s in f.body if isinstance(s, ast.If) and len(s.body) == 1 and isinstance(s.body[0], ast.Raise)]
    geo = [s for s in f.body if isinstance(s, ast.If) and U(s.test) == "pipe.vertices"]
    if len(geo) != 1: raise Bad("if pipe.vertices: not found")
    sh["geometry"] = [U(n) for n in ast.walk(geo[0]) if isinstance(n, ast.Compare)] + \
                     [U(s) for s in ast.walk(geo[0]) if isinstance(s, ast.Assign) and any(k in U(s.targets[0]) for k in ("junction_coordinates", "split_length", "split_at", "segment_length", "pipe_vertices"))] + \
                     [U(s) for s in ast.walk(geo[0]) if isinstance(s, ast.AugAssign)]
    sh["geometry"] += [U(s.value) for s in ast.walk(geo[0]) if isinstance(s, ast.Expr) and isinstance(s.value, ast.Call) and "append" in U(s.value.func)]
    aj = [n for n in ast.walk(f) if isinstance(n, ast.Call) and U(n.func).endswith(".add_junction")]
    sh["newJunction"] = [U(a) for c in aj for a in c.args] + sorted("%s=%s" % (k.arg, U(k.value)) for c in aj for k in c.keywords)
    fl = [s for s in f.body if isinstance(s, ast.If) and "flag" in U(s.test)]
    sh["flags"] = [U(n.test) + " => " + "; ".join(U(b) for b in n.body) for s in fl for n in ast.walk(s) if isinstance(n, ast.If)]
    sh["copy"] = [U(s.test) + " => " + "; ".join(U(b) for b in s.body) + " | " + "; ".join(U(b) for b in s.orelse) for s in f.body if isinstance(s, ast.If) and U(s.test) == "return_copy"]
    return sh

CMP = {ast.Lt: "lt", ast.LtE: "le", ast.Gt: "gt", ast.GtE: "ge"}

def is_log(s):
    return isinstance(s, ast.Expr) and isinstance(s.value, ast.Call) and U(s.value.func).startswith("logger.")

def is_doc(s):
    return isinstance(s, ast.Expr) and isinstance(s.value, ast.Constant) and isinstance(s.value.value, str)

def flat(stmts, guards, effects):
    for s in stmts:
        if is_log(s) or is_doc(s):
            continue
        if isinstance(s, ast.If) and len(s.body) == 1 and isinstance(s.body[0], ast.Continue) and not s.orelse:
            guards.append(U(s.test))
        elif isinstance(s, ast.For):
            effects.append("for %s in %s:" % (U(s.target), U(s.iter)))
            flat(s.body, guards, effects)
            effects.append("end for")
        elif isinstance(s, ast.Try):
            effects.append("try: " + "; ".join(U(b) for b in s.body) + " except: " + "; ".join(U(b) for h in s.handlers for b in h.body))
        elif isinstance(s, ast.If):
            effects.append(U(s).replace("\n", " ; "))
        else:
            effects.append(" ".join(U(s).split()))

def skel_shape(src):
    tree = ast.parse(src)
    sh = {}
    thr = []
    for name, key in (("branch_trim", "trim"), ("series_pipe_merge", "series"), ("parallel_pipe_merge", "parallel")):
        m = fn(tree, name, "_Skeletonize")
        g, e = [], []
        flat(m.body, g, e)
        sh[key + "Guards"], sh[key + "Effects"] = g, e
        for n in ast.walk(m):
            if isinstance(n, ast.Compare) and len(n.ops) == 1 and U(n.comparators[0]) == "pipe_threshold" and U(n.left).endswith(".diameter"):
                thr.append(CMP.get(type(n.ops[0]), "bad"))
    sh["thr"] = thr[0] if thr and len(set(thr)) == 1 and len(thr) == 5 else "bad"
    m = fn(tree, "_select_dominant_pipe", "_Skeletonize")
    ifs = [s for s in m.body if isinstance(s, ast.If)]
    sh["dom"] = "bad"
    if len(ifs) == 1 and isinstance(ifs[0].test, ast.Compare) and len(ifs[0].test.ops) == 1 and U(ifs[0].test.left) == "pipe0.diameter" \
            and U(ifs[0].test.comparators[0]) == "pipe1.diameter" and [U(b) for b in ifs[0].body] == ["dominant_pipe = pipe0"] and [U(b) for b in ifs[0].orelse] == ["dominant_pipe = pipe1"]:
        sh["dom"] = CMP.get(type(ifs[0].test.ops[0]), "bad")
    m = fn(tree, "series_pipe_merge", "_Skeletonize")
    sh["closest"] = "bad"
    for n in ast.walk(m):
        if isinstance(n, ast.If) and isinstance(n.test, ast.Compare) and U(n.test.left) == "pipe0.length" and U(n.test.comparators[0]) == "pipe1.length" \
                and [U(b) for b in n.body] == ["closest_junc = neigh_junc0"] and [U(b) for b in n.orelse] == ["closest_junc = neigh_junc1"]:
            sh["closest"] = CMP.get(type(n.test.ops[0]), "bad")
    for name, key in (("_series_merge_properties", "seriesProps"), ("_parallel_merge_properties", "parallelProps"), ("run", "run")):
        m = fn(tree, name, "_Skeletonize")
        sh[key] = [" ".join(U(s).split()) for s in m.body if not is_doc(s) and not is_log(s)]
    m = fn(tree, "__init__", "_Skeletonize")
    sh["exclusions"] = [" ".join(U(s).split()) for s in ast.walk(m) if isinstance(s, (ast.Assign, ast.Expr)) and any(k in U(s) for k in ("junc_to_exclude", "pipe_to_exclude", "junc_with_controls", "pipe_with_controls", "skel_map", "skeleton_map"))
                        and not isinstance(getattr(s, "value", None), ast.Constant)]
    return sh

if __name__ == "__main__" and len(sys.argv) > 1 and sys.argv[1] == "dump":
    a = split_shape(open(REPO + "/wntr/morph/link.py").read())
    b = skel_shape(open(REPO + "/wntr/morph/skel.py").read())
    print(json.dumps(a, indent=1)); print(json.dumps(b, indent=1))


# ----------------------------------------------------------------------------- Lean printer

SPLIT_TEXT_KEYS = ["endEnds", "endStmts", "startEnds", "startStmts", "elevation", "checks", "geometry", "newJunction", "flags", "copy"]
SKEL_TEXT_KEYS = ["trimGuards", "trimEffects", "seriesGuards", "seriesEffects", "parallelGuards", "parallelEffects", "seriesProps", "parallelProps",
                  "run", "exclusions"]


def lstr(s):
    return json.dumps(s, ensure_ascii=False)


def texts(sh, keys, ind):
    rows = []
    for k in keys:
        rows.append("%s(%s, [\n%s])" % (ind, lstr(k), ",\n".join("%s  %s" % (ind, lstr(x)) for x in sh[k])))
    return "[\n" + ",\n".join(rows) + "]"


def lean_split(sh, name):
    np_ = sh["newPipe"]
    return ("def %s : SplitShape :=\n  { newPipe := { diam := .%s, rough := .%s, minor := .%s, status := .%s, cv := .%s },\n"
            "    endOldLen := .%s, endNewLen := .%s, startOldLen := .%s, startNewLen := .%s,\n"
            "    endOldVerts := .%s, endNewVerts := .%s, startOldVerts := .%s, startNewVerts := .%s,\n    texts := %s }\n") % (
        name, np_["diam"], np_["rough"], np_["minor"], np_["status"], np_["cv"], sh["endOldLen"], sh["endNewLen"], sh["startOldLen"], sh["startNewLen"],
        sh["endOldVerts"], sh["endNewVerts"], sh["startOldVerts"], sh["startNewVerts"], texts(sh, SPLIT_TEXT_KEYS, "      "))


def lean_skel(sh, name):
    return "def %s : SkelShape :=\n  { thr := .%s, dom := .%s, closest := .%s,\n    texts := %s }\n" % (
        name, sh["thr"], sh["dom"], sh["closest"], texts(sh, SKEL_TEXT_KEYS, "      "))


def gen_file(repo):
    a = split_shape(open(os.path.join(repo, "wntr/morph/link.py")).read())
    b = skel_shape(open(os.path.join(repo, "wntr/morph/skel.py")).read())
    return ("/- GENERATED by harness/props/c19_translate.py from wntr/morph/link.py (`_split_or_break_pipe`) and wntr/morph/skel.py (`_Skeletonize`).\n"
            "   Do not edit: rewritten on every run of check C19.  Props/C19.lean proves `Gen.splitShape = codeSplitShape` and\n"
            "   `Gen.skelShape = codeSkelShape`, the shapes Model/Morph.lean is defined from. -/\n"
            "import WntrModel.Model.MorphShape\nnamespace Wntr.Morph.Gen\nopen Wntr.Morph\n\n" + lean_split(a, "splitShape") + "\n" + lean_skel(b, "skelShape") +
            "\nend Wntr.Morph.Gen\n")


# ----------------------------------------------------------------------------- merge formulas as expression trees


def mx(node, props):
    """Python expression -> Lean term of type MX"""
    from fractions import Fraction

    if isinstance(node, ast.BinOp):
        op = {ast.Add: "add", ast.Sub: "sub", ast.Mult: "mul", ast.Div: "div", ast.Pow: "pow"}.get(type(node.op))
        if op is None:
            raise Bad("operator %s in a merge formula" % type(node.op).__name__)
        return "(.%s %s %s)" % (op, mx(node.left, props), mx(node.right, props))
    if isinstance(node, ast.UnaryOp) and isinstance(node.op, ast.USub):
        return "(.neg %s)" % mx(node.operand, props)
    if isinstance(node, ast.Constant) and isinstance(node.value, (int, float)) and not isinstance(node.value, bool):
        fr = Fraction(repr(node.value))
        return "(.lit %d %d)" % (fr.numerator, fr.denominator)
    if isinstance(node, ast.Attribute) and isinstance(node.value, ast.Name):
        owner = {"pipe0": "pipe0", "pipe1": "pipe1", "dominant_pipe": "dominant"}.get(node.value.id)
        if owner is None:
            raise Bad("unknown object %s in a merge formula" % node.value.id)
        return "(.var %s)" % lstr("%s.%s" % (owner, node.attr))
    if isinstance(node, ast.Subscript) and U(node.value) == "props":
        k = node.slice.value if isinstance(node.slice, ast.Constant) else None
        if k not in props:
            raise Bad("props[%r] used before it is set" % k)
        return props[k]
    raise Bad("cannot translate %s" % U(node))


def merge_mx(src, fname):
    m = fn(ast.parse(src), fname, "_Skeletonize")
    props, status = {}, None
    dom = [U(s) for s in m.body if isinstance(s, ast.Assign) and U(s.targets[0]) == "dominant_pipe"]
    if dom != ["dominant_pipe = self._select_dominant_pipe(pipe0, pipe1)"]:
        raise Bad("%s: dominant pipe is %s" % (fname, dom))
    for s in m.body:
        if isinstance(s, ast.Assign) and isinstance(s.targets[0], ast.Subscript) and U(s.targets[0].value) == "props":
            k = s.targets[0].slice.value
            if k == "status":
                status = U(s.value)
            else:
                props[k] = mx(s.value, props)
    if set(props) != {"length", "diameter", "minorloss", "roughness"} or status is None:
        raise Bad("%s sets %s" % (fname, sorted(props)))
    return props, status


def lean_merge(src, fname, name):
    p, st = merge_mx(src, fname)
    return "def %s : MergeMX :=\n  { length := %s,\n    diam := %s,\n    minor := %s,\n    status := %s,\n    rough := %s }\n" % (
        name, p["length"], p["diameter"], p["minorloss"], lstr(st), p["roughness"])


_gen_file0 = gen_file


def gen_file(repo):
    base = _gen_file0(repo)
    src = open(os.path.join(repo, "wntr/morph/skel.py")).read()
    extra = lean_merge(src, "_series_merge_properties", "seriesMX") + "\n" + lean_merge(src, "_parallel_merge_properties", "parallelMX")
    return base.replace("\nend Wntr.Morph.Gen\n", "\n" + extra + "\nend Wntr.Morph.Gen\n")
