"""C15 -- the compiled AML evaluator returns true residuals and Jacobian.

Ties
  E (expression layer): every constraint expression built on the real `wntr.sim.aml` is reflected (operator LIST with
     repeats, object identities) and sent to the Lean driver: `get_rpn` ints, denoted tree, `evaluate()`, `reverse_sd` trees
     and values are compared with the Lean transliterations (`getRpn`, `denote`, `pyEvaluate`, `reverseSd`, `D`).
  F (overloads): random overload applications on native numbers / Float objects / leaves vs the Lean `sAdd ... sIfElse`.
  M (bookkeeping layer): random add / remove / set_structure / set-value / load_x histories on a real `aml.Model`
     (evaluator compiled fresh from the tree's C++ sources) vs the Lean `Model`/`Evaluator` fed with the same ops and the real addresses.
Oracle on the implementation (independent of the Lean model): forward-mode dual numbers on the INTENDED term.
"""
import json
import math
import os
import pickle
import struct
import sys
import traceback
from fractions import Fraction

sys.path.insert(0, os.path.dirname(os.path.dirname(os.path.abspath(__file__))))
import vlib
from vlib import Broken, Failure, Check
from translate import amldump

BINOPS = ["add", "sub", "mul", "div", "pow"]
UNOPS = ["neg", "abs", "sign", "exp", "log", "sin", "cos", "tan", "asin", "acos", "atan"]
NV, NP = 6, 3


class Domain(Exception):
    """the assignment is outside (or too close to the edge of) the domain of definition"""


# ----------------------------------------------------------------------------- truth: forward-mode dual numbers


class Dual:
    __slots__ = ("v", "d")

    def __init__(self, v, d=None):
        self.v = float(v)
        self.d = d or {}


def ineqe_plain(t):
    """("ineqe", body, "lb"|"ub", e): `inequality(body, lb=e)` / `inequality(body, ub=e)` with a NON-numeric bound e (Var, Param,
    Float object or expression).  Its meaning is  e <= body  /  body <= e, i.e. the numeric form applied to `body - e` with bound 0
    (that is also the expression inequality() builds), so model, truth and tree sides are fed the rewritten term while the real
    side calls inequality with the expression-valued bound."""
    body = ("bin", "sub", t[1], t[3])
    return ("ineq", body, 0.0, None) if t[2] == "lb" else ("ineq", body, None, 0.0)


class Truth:
    """evaluates an intended term with dual numbers; records the largest intermediate magnitude and kink distance"""

    def __init__(self, varvals, parvals, shared):
        self.var, self.par, self.shared = varvals, parvals, shared
        self.mag = 0.0
        self.kink = math.inf  # distance to the nearest abs/sign kink or branch boundary
        self.memo = {}
        self.branches = []
        self.lazy = False  # an if_else whose UNSELECTED branch is undefined at this point was met

    def note(self, x):
        if not math.isfinite(x) or abs(x) > 1e6:
            raise Domain("magnitude")
        self.mag = max(self.mag, abs(x))

    def mk(self, v, d):
        self.note(v)
        for x in d.values():
            self.note(x)
        return Dual(v, d)

    @staticmethod
    def lin(a, ca, b=None, cb=0.0):
        d = {}
        for k, x in a.d.items():
            d[k] = d.get(k, 0.0) + ca * x
        if b is not None:
            for k, x in b.d.items():
                d[k] = d.get(k, 0.0) + cb * x
        return d

    def ev(self, t):
        tag = t[0]
        if tag == "ref":
            if t[1] not in self.memo:
                self.memo[t[1]] = self.ev(self.shared[t[1]])
            return self.memo[t[1]]
        if tag == "var":
            return Dual(self.var[t[1]], {t[1]: 1.0})
        if tag == "param":
            return Dual(self.par[t[1]])
        if tag in ("num", "fobj"):
            return Dual(t[1])
        if tag == "bin":
            a, b = self.ev(t[2]), self.ev(t[3])
            op = t[1]
            if op == "add":
                return self.mk(a.v + b.v, self.lin(a, 1.0, b, 1.0))
            if op == "sub":
                return self.mk(a.v - b.v, self.lin(a, 1.0, b, -1.0))
            if op == "mul":
                return self.mk(a.v * b.v, self.lin(a, b.v, b, a.v))
            if op == "div":
                if abs(b.v) < 0.05:
                    raise Domain("div")
                return self.mk(a.v / b.v, self.lin(a, 1.0 / b.v, b, -a.v / (b.v * b.v)))
            # pow
            const_exp = t[3][0] in ("num", "fobj", "param")
            int_exp = t[3][0] in ("num", "fobj") and float(t[3][1]).is_integer()
            if a.v < 0.05 and not int_exp:
                raise Domain("pow base")
            if int_exp and b.v < 1 and abs(a.v) < 0.05:
                raise Domain("pow 0 ** nonpositive / flat")
            if abs(b.v) > 8:
                raise Domain("pow exponent")
            val = a.v ** b.v
            if isinstance(val, complex):
                raise Domain("complex")
            da = b.v * a.v ** (b.v - 1.0)
            self.note(da)
            if const_exp or not b.d:
                return self.mk(val, self.lin(a, da))
            db = val * math.log(a.v)
            self.note(db)
            return self.mk(val, self.lin(a, da, b, db))
        if tag == "un":
            a = self.ev(t[2])
            op = t[1]
            if op == "neg":
                return self.mk(-a.v, self.lin(a, -1.0))
            if op == "abs":
                self.kink = min(self.kink, abs(a.v))
                return self.mk(abs(a.v), self.lin(a, 1.0 if a.v >= 0 else -1.0))
            if op == "sign":
                self.kink = min(self.kink, abs(a.v))
                return Dual(1.0 if a.v >= 0 else -1.0)
            if op == "exp":
                if a.v > 10:
                    raise Domain("exp")
                return self.mk(math.exp(a.v), self.lin(a, math.exp(a.v)))
            if op == "log":
                if a.v < 0.05:
                    raise Domain("log")
                return self.mk(math.log(a.v), self.lin(a, 1.0 / a.v))
            if op == "sin":
                return self.mk(math.sin(a.v), self.lin(a, math.cos(a.v)))
            if op == "cos":
                return self.mk(math.cos(a.v), self.lin(a, -math.sin(a.v)))
            if op == "tan":
                if abs(math.cos(a.v)) < 0.2:
                    raise Domain("tan")
                return self.mk(math.tan(a.v), self.lin(a, 1.0 / math.cos(a.v) ** 2))
            if op in ("asin", "acos"):
                if abs(a.v) > 0.9:
                    raise Domain(op)
                s = 1.0 / math.sqrt(1.0 - a.v * a.v)
                return self.mk(getattr(math, op)(a.v), self.lin(a, s if op == "asin" else -s))
            if op == "atan":
                return self.mk(math.atan(a.v), self.lin(a, 1.0 / (1.0 + a.v * a.v)))
        if tag == "ineqe":
            return self.ev(ineqe_plain(t))
        if tag == "ineq":
            b = self.ev(t[1])
            lo = -math.inf if t[2] is None else t[2]
            hi = math.inf if t[3] is None else t[3]
            for bd in (lo, hi):
                if math.isfinite(bd):
                    self.kink = min(self.kink, abs(b.v - bd))
            return Dual(1.0 if lo <= b.v <= hi else 0.0)
        if tag == "ite":
            c = self.ev(t[1])
            # the value (and the derivative) of an if/else is that of the SELECTED branch; the other branch may be undefined
            # at this point (that is what if/else is written for): then the term is still inside its domain of definition
            sel, uns = (t[2], t[3]) if c.v == 1.0 else (t[3], t[2])
            a = self.ev(sel)
            try:
                self.ev(uns)
            except (Domain, OverflowError, ZeroDivisionError, ValueError):
                self.lazy = True
            self.branches.append(c.v == 1.0)
            return a
        if tag == "cond":  # ConditionalExpression: [(cond, expr)..., (None, final)]
            res = None
            for i, (c, e) in enumerate(t[1]):
                cv = 1.0 if c is None else self.ev(c).v
                ev = self.ev(e)
                if res is None and cv == 1.0:
                    res = ev
                    self.branches.append(i)
            return res
        raise ValueError(t)


def term_tree(t, shared):
    """the intended term as an amldump tree (native numbers and Float objects are constants)"""
    tag = t[0]
    if tag == "ref":
        return term_tree(shared[t[1]], shared)
    if tag == "var":
        return ("var", str(t[1]))
    if tag == "param":
        return ("param", str(t[1]))
    if tag in ("num", "fobj"):
        return ("const", Fraction(float(t[1])))
    if tag == "bin":
        return ("bin", t[1], term_tree(t[2], shared), term_tree(t[3], shared))
    if tag == "un":
        return ("un", t[1], term_tree(t[2], shared))
    if tag == "ineqe":
        return term_tree(ineqe_plain(t), shared)
    if tag == "ineq":
        return ("ineq", term_tree(t[1], shared), None if t[2] is None else Fraction(float(t[2])), None if t[3] is None else Fraction(float(t[3])))
    if tag == "ite":
        return ("ifElse", term_tree(t[1], shared), term_tree(t[2], shared), term_tree(t[3], shared))
    if tag == "cond":
        return amldump.cond_tree([(("const", Fraction(1)) if c is None else term_tree(c, shared), term_tree(e, shared)) for c, e in t[1]])
    raise ValueError(t)


def term_ops(t, shared, acc):
    tag = t[0]
    if tag == "ref":
        acc["shared"] = acc.get("shared", 0) + 1
        return term_ops(shared[t[1]], shared, acc)
    if tag in ("var", "param", "num", "fobj"):
        acc[tag] = acc.get(tag, 0) + 1
        return acc
    if tag in ("bin", "un"):
        acc[t[1]] = acc.get(t[1], 0) + 1
        for s in t[2:]:
            term_ops(s, shared, acc)
        return acc
    if tag == "ineqe":
        acc["inequality_expr_%s" % t[2]] = acc.get("inequality_expr_%s" % t[2], 0) + 1
        return term_ops(ineqe_plain(t), shared, acc)
    if tag == "ineq":
        acc["inequality"] = acc.get("inequality", 0) + 1
        return term_ops(t[1], shared, acc)
    if tag == "ite":
        acc["if_else"] = acc.get("if_else", 0) + 1
        for s in t[1:]:
            term_ops(s, shared, acc)
        return acc
    if tag == "cond":
        acc["conditional"] = acc.get("conditional", 0) + 1
        for c, e in t[1]:
            if c is not None:
                term_ops(c, shared, acc)
            term_ops(e, shared, acc)
        return acc
    raise ValueError(t)


# ----------------------------------------------------------------------------- generator


class Gen:
    def __init__(self, rng):
        self.rng = rng

    def num(self, nonzero=False):
        r = self.rng.random()
        if r < 0.35:
            x = float(self.rng.choice([1, 2, 3, -1, -2, 4]))
        elif r < 0.6:
            x = self.rng.choice([0.5, 1.5, 2.5, 0.25, 1.852, -0.5, 0.75])
        else:
            x = round(self.rng.uniform(-3, 3), 3)
        if nonzero and x == 0:
            x = 1.5
        return x

    def leaf(self):
        r = self.rng.random()
        if r < 0.62:
            return ("var", self.rng.randrange(NV))
        if r < 0.82:
            return ("param", self.rng.randrange(NP))
        if r < 0.97:
            return ("num", self.num())
        return ("fobj", self.num(nonzero=True))

    def positive(self, depth, shared):
        """a sub-term that is positive whatever the values"""
        e = self.term(depth - 1, shared)
        r = self.rng.random()
        if r < 0.4:
            return ("bin", "add", ("un", "abs", e), ("num", self.rng.choice([0.5, 1.0, 2.0])))
        if r < 0.7:
            return ("bin", "add", ("bin", "pow", e, ("num", 2)), ("num", self.rng.choice([0.25, 1.0])))
        return ("un", "exp", ("un", "sin", e))

    def bounded(self, depth, shared):
        """a sub-term in (-0.9, 0.9)"""
        e = self.term(depth - 1, shared)
        return ("bin", "mul", ("num", self.rng.choice([0.5, 0.8, -0.7])), ("un", self.rng.choice(["sin", "cos"]), e))

    def cond(self, depth, shared, simple=False):
        if simple or self.rng.random() < 0.6:
            body = self.rng.choice([("var", self.rng.randrange(NV)),
                                    ("bin", "sub", ("var", self.rng.randrange(NV)), ("param", self.rng.randrange(NP))),
                                    ("bin", "add", ("var", self.rng.randrange(NV)), ("var", self.rng.randrange(NV)))])
        else:
            body = self.term(depth - 1, shared)
        if self.rng.random() < 0.25:
            # a bound that is NOT a number: Param / Var / Float object / small expression (never folds to a native number)
            rng = self.rng
            e = rng.choice([("param", rng.randrange(NP)), ("param", rng.randrange(NP)), ("var", rng.randrange(NV)),
                            ("fobj", rng.choice([0.5, 1.0, -1.0, 2.0])),
                            ("bin", "add", ("param", rng.randrange(NP)), ("num", rng.choice([0.25, 0.5, -1.0]))),
                            ("bin", "sub", ("var", rng.randrange(NV)), ("param", rng.randrange(NP))),
                            ("bin", "mul", ("num", rng.choice([2.0, 0.5, -1.5])), ("var", rng.randrange(NV)))])
            return ("ineqe", body, rng.choice(["lb", "lb", "ub"]), e)
        r = self.rng.random()
        k = float(self.rng.choice([-1, 0, 0.5, 1, 2]))
        if r < 0.4:
            return ("ineq", body, None, k)
        if r < 0.8:
            return ("ineq", body, k, None)
        return ("ineq", body, k, k + self.rng.choice([0.0, 1.0, 2.5]))

    def term(self, depth, shared):
        rng = self.rng
        if depth <= 0 or rng.random() < 0.12:
            if shared and rng.random() < 0.35:
                return ("ref", rng.randrange(len(shared)))
            return self.leaf()
        r = rng.random()
        if r < 0.1 and shared:
            return ("ref", rng.randrange(len(shared)))
        if r < 0.5:
            op = rng.choice(BINOPS)
            if op == "div":
                a = self.term(depth - 1, shared)
                if rng.random() < 0.25:
                    return ("bin", "div", a, ("num", self.num(nonzero=True) if rng.random() < 0.8 else 1.0))
                if rng.random() < 0.1:
                    return ("bin", "div", ("num", 0.0 if rng.random() < 0.5 else self.num()), self.positive(depth, shared))
                return ("bin", "div", a, self.positive(depth, shared))
            if op == "pow":
                q = rng.random()
                if q < 0.45:  # integer literal exponent, any base
                    return ("bin", "pow", self.term(depth - 1, shared), ("num", float(rng.choice([2, 3, 2, 1, 0, 4]))))
                if q < 0.6:   # real literal / parameter exponent, positive base
                    ex = ("num", rng.choice([1.852, 0.5, 2.5, 1.5])) if rng.random() < 0.7 else ("param", rng.randrange(NP))
                    return ("bin", "pow", self.positive(depth, shared), ex)
                if q < 0.7:   # number base
                    return ("bin", "pow", ("num", rng.choice([2.0, 0.5, 1.0, 2.5, 0.0])), self.positive(depth, shared))
                return ("bin", "pow", self.positive(depth, shared), self.bounded(depth, shared) if rng.random() < 0.5 else self.term(depth - 2, shared))
            a, b = self.term(depth - 1, shared), self.term(depth - 1, shared)
            if rng.random() < 0.08:
                b = ("num", float(rng.choice([0, 1])))  # the shortcuts x+0, x*1, x*0 ...
            elif rng.random() < 0.08:
                a = ("num", float(rng.choice([0, 1])))
            return ("bin", op, a, b)
        if r < 0.85:
            op = rng.choice(UNOPS)
            if op == "log":
                return ("un", "log", self.positive(depth, shared))
            if op in ("asin", "acos"):
                return ("un", op, self.bounded(depth, shared))
            if op == "exp":
                return ("un", "exp", self.bounded(depth, shared) if rng.random() < 0.5 else ("un", "sin", self.term(depth - 1, shared)))
            if op == "tan":
                return ("un", "tan", self.bounded(depth, shared))
            return ("un", op, self.term(depth - 1, shared))
        if rng.random() < 0.5:
            return self.guarded(depth, shared)
        return ("ite", self.cond(depth, shared), self.term(depth - 1, shared), self.term(depth - 1, shared))

    def guarded(self, depth, shared):
        """an if/else that GUARDS a partial function: the branch that is not selected is undefined (NaN/inf in floating
        point) on part of the value range -- signed square root, guarded log / reciprocal root / asin / real power"""
        rng = self.rng
        i, j = rng.randrange(NV), rng.randrange(NV)
        b = rng.choice([("var", i), ("bin", "sub", ("var", i), ("param", rng.randrange(NP))), ("bin", "add", ("var", i), ("var", j))])
        c = rng.choice([("param", rng.randrange(NP)), ("num", rng.choice([0.6, 1.5, 2.0]))])
        kind = rng.choice(["ssqrt", "ssqrt", "log", "rsqrt", "asin", "pow15"])
        if kind == "ssqrt":
            return ("ite", ("ineq", b, 0.0, None), ("bin", "mul", c, ("bin", "pow", b, ("num", 0.5))),
                    ("un", "neg", ("bin", "mul", c, ("bin", "pow", ("un", "neg", b), ("num", 0.5)))))
        if kind == "log":
            return ("ite", ("ineq", b, 0.25, None), ("un", "log", b), ("bin", "sub", b, ("num", 1.625)))
        if kind == "rsqrt":
            return ("ite", ("ineq", b, 0.25, None), ("bin", "div", c, ("bin", "pow", b, ("num", 0.5))), ("bin", "sub", ("num", 2.0), b))
        if kind == "asin":
            return ("ite", ("ineq", b, -0.75, 0.75), ("un", rng.choice(["asin", "acos"]), b), ("bin", "mul", c, b))
        return ("ite", ("ineq", b, 0.5, None), ("bin", "pow", b, ("num", 1.5)), ("bin", "mul", b, b))

    def conditional(self, depth, shared):
        n = self.rng.choice([1, 2, 2, 3])
        pairs = [(self.cond(depth, shared, simple=self.rng.random() < 0.7), self.term(depth, shared)) for _ in range(n)]
        pairs.append((None, self.term(depth, shared)))
        return ("cond", pairs)


def has_leaf(t, shared):
    tag = t[0]
    if tag == "ref":
        return has_leaf(shared[t[1]], shared)
    if tag in ("var", "param"):
        return True
    if tag in ("num", "fobj"):
        return False
    if tag == "cond":
        return True
    return any(has_leaf(s, shared) for s in t[1:] if isinstance(s, tuple))


# ----------------------------------------------------------------------------- building on the real aml


class Builder:
    def __init__(self, E, vars_, params, shared_terms):
        self.E, self.vars, self.params = E, vars_, params
        self.shared_terms = shared_terms
        self.shared_objs = {}

    def build(self, t):
        E = self.E
        tag = t[0]
        if tag == "ref":
            if t[1] not in self.shared_objs:
                self.shared_objs[t[1]] = self.build(self.shared_terms[t[1]])
            return self.shared_objs[t[1]]
        if tag == "var":
            return self.vars[t[1]]
        if tag == "param":
            return self.params[t[1]]
        if tag == "num":
            x = t[1]
            return int(x) if float(x).is_integer() and abs(x) < 10 and (hash((x, "i")) % 2 == 0) else float(x)
        if tag == "fobj":
            return E.Float(float(t[1]))
        if tag == "bin":
            a, b = self.build(t[2]), self.build(t[3])
            op = t[1]
            if op == "add":
                return a + b
            if op == "sub":
                return a - b
            if op == "mul":
                return a * b
            if op == "div":
                return a / b
            return a ** b
        if tag == "un":
            a = self.build(t[2])
            if t[1] == "neg":
                return -a
            return getattr(E, t[1])(a)
        if tag == "ineq":
            return E.inequality(self.build(t[1]), lb=t[2], ub=t[3])
        if tag == "ineqe":
            if t[2] == "lb":
                return E.inequality(self.build(t[1]), lb=self.build(t[3]))
            return E.inequality(self.build(t[1]), ub=self.build(t[3]))
        if tag == "ite":
            return E.if_else(self.build(t[1]), self.build(t[2]), self.build(t[3]))
        if tag == "cond":
            ce = E.ConditionalExpression()
            for c, e in t[1]:
                x = self.build(e)
                if type(x) in (int, float):
                    x = E.Float(x)
                cb = None if c is None else self.build(c)
                if type(cb) in (bool, int, float):
                    # a condition that folded to a native truth value (constant body): the user-level meaning is kept
                    if not cb:
                        continue
                    cb = None
                if cb is None:
                    ce.add_final_expr(x)
                    break
                ce.add_condition(cb, x)
            return ce
        raise ValueError(t)


# ----------------------------------------------------------------------------- wire formats


def bits(x):
    return str(struct.unpack("<Q", struct.pack("<d", float(x)))[0])


def unbits(s):
    return struct.unpack("<d", struct.pack("<Q", int(s)))[0]


def rat(fr):
    fr = Fraction(fr)
    return "%d/%d" % (fr.numerator, fr.denominator)


def tree_wire(t):
    tag = t[0]
    if tag == "var":
        return "v%s" % t[1]
    if tag == "param":
        return "p%s" % t[1]
    if tag == "const":
        return "c" + rat(t[1])
    if tag == "bin":
        return "B%s %s %s" % (t[1], tree_wire(t[2]), tree_wire(t[3]))
    if tag == "un":
        return "U%s %s" % (t[1], tree_wire(t[2]))
    if tag == "ifElse":
        return "I %s %s %s" % tuple(tree_wire(s) for s in t[1:])
    if tag == "ineq":
        ob = lambda b: "n" if b is None else rat(b)
        return "Q %s %s %s" % (tree_wire(t[1]), ob(t[2]), ob(t[3]))
    raise ValueError(t)


def parse_tree(toks, i=0):
    t = toks[i]
    k, rest = t[0], t[1:]
    if k == "v":
        return ("var", rest), i + 1
    if k == "p":
        return ("param", rest), i + 1
    if k == "c":
        return ("const", Fraction(rest)), i + 1
    if k == "B":
        a, i = parse_tree(toks, i + 1)
        b, i = parse_tree(toks, i)
        return ("bin", rest, a, b), i
    if k == "U":
        a, i = parse_tree(toks, i + 1)
        return ("un", rest, a), i
    if k == "I":
        c, i = parse_tree(toks, i + 1)
        a, i = parse_tree(toks, i)
        b, i = parse_tree(toks, i)
        return ("ifElse", c, a, b), i
    if k == "Q":
        b, i = parse_tree(toks, i + 1)
        lb = None if toks[i] == "n" else Fraction(toks[i])
        ub = None if toks[i + 1] == "n" else Fraction(toks[i + 1])
        return ("ineq", b, lb, ub), i + 2
    raise ValueError("tree token %r" % t)


def parse_sval(s):
    """`none` | `n p/q` | `e <tree>`  ->  None | ('num', Fraction) | ('ex', tree)"""
    s = s.strip()
    if s in ("none", "err"):
        return None
    if s.startswith("n"):
        return ("num", Fraction(s[1:]))
    toks = s.split()[1:]
    t, i = parse_tree(toks)
    if i != len(toks):
        raise ValueError("trailing tokens in " + s)
    return ("ex", t)


def trees_equal(a, b, tol=1e-13):
    """structural equality; constants within `tol` relative (Python folds native numbers in floating point)"""
    if a[0] != b[0]:
        return False
    if a[0] in ("var", "param"):
        return str(a[1]) == str(b[1])
    if a[0] == "const":
        x, y = float(a[1]), float(b[1])
        return x == y or abs(x - y) <= tol * max(abs(x), abs(y))
    if a[0] in ("bin", "un"):
        return a[1] == b[1] and all(trees_equal(x, y, tol) for x, y in zip(a[2:], b[2:]))
    if a[0] == "ifElse":
        return all(trees_equal(x, y, tol) for x, y in zip(a[1:], b[1:]))
    if a[0] == "ineq":
        def beq(p, q):
            if p is None or q is None:
                return p is None and q is None
            return float(p) == float(q)
        return trees_equal(a[1], b[1], tol) and beq(a[2], b[2]) and beq(a[3], b[3])
    return False


def closen(a, b, scale=0.0, rel=1e-12):
    """`close`, and NaN agrees with NaN (model and implementation both compute 0*NaN / sqrt(-1) in IEEE arithmetic)"""
    if a is not None and b is not None and isinstance(a, float) and isinstance(b, float) and math.isnan(a) and math.isnan(b):
        return True
    return close(a, b, scale, rel)


def close(a, b, scale=0.0, rel=1e-12):
    if a == b:
        return True
    if a is None or b is None or not (math.isfinite(a) and math.isfinite(b)):
        return False
    return abs(a - b) <= rel * (max(abs(a), abs(b)) + scale) + 1e-300


# ----------------------------------------------------------------------------- reflection of the real objects


class Reflect:
    """numbers the Python objects of one model (Float objects and operators by identity)"""

    def __init__(self, E, vars_, params):
        self.E = E
        self.var_ix = {id(v): i for i, v in enumerate(vars_)}
        self.par_ix = {id(p): i for i, p in enumerate(params)}
        self.float_ids, self.op_ids, self.keep = {}, {}, []

    def namer(self, leaf):
        if id(leaf) in self.var_ix:
            return str(self.var_ix[id(leaf)])
        return str(self.par_ix[id(leaf)])

    def fid(self, f):
        if id(f) not in self.float_ids:
            self.float_ids[id(f)] = len(self.float_ids)
            self.keep.append(f)
        return self.float_ids[id(f)]

    def oid(self, o):
        if id(o) not in self.op_ids:
            self.op_ids[id(o)] = len(self.op_ids)
            self.keep.append(o)
        return self.op_ids[id(o)]

    def leaf_wire(self, leaf):
        E = self.E
        if isinstance(leaf, E.Var):
            return "v%d" % self.var_ix[id(leaf)]
        if isinstance(leaf, E.Param):
            return "p%d" % self.par_ix[id(leaf)]
        v = float(leaf.value)
        if math.isinf(v):
            return "f%d:%s" % (self.fid(leaf), "-" if v < 0 else "+")
        return "f%d:%s" % (self.fid(leaf), rat(Fraction(v)))

    def tree(self, x):
        """amldump tree of whatever the Python layer returned (number, leaf, expression, ConditionalExpression)"""
        if type(x) in (int, float, bool):
            return ("const", Fraction(float(x)))
        return amldump.expr_tree(x, self.namer)

    def oplist_wire(self, expr, ndx_map):
        """`L.. N.. X..` of an `expression` (None for a leaf)"""
        E = self.E
        if expr.is_leaf():
            return None
        leaves, lix, nodes = [], {}, []

        def opd(o):
            if o.is_leaf():
                if id(o) not in lix:
                    lix[id(o)] = len(leaves)
                    leaves.append(o)
                return "l%d" % lix[id(o)]
            return "o%d" % self.oid(o)

        for o in expr.operators():
            if isinstance(o, E.BinaryOperator):
                nodes.append("%d B%s %s %s" % (self.oid(o), amldump.BIN[int(o.operation_enum)], opd(o._operand1), opd(o._operand2)))
            elif isinstance(o, E.IfElseOperator):
                nodes.append("%d I %s %s %s" % (self.oid(o), opd(o._if_arg), opd(o._then_arg), opd(o._else_arg)))
            elif isinstance(o, E.InequalityOperator):
                nodes.append("%d Q %s %s %s" % (self.oid(o), opd(o._body), opd(o._lb), opd(o._ub)))
            elif isinstance(o, E.UnaryOperator):
                nodes.append("%d U%s %s" % (self.oid(o), amldump.UN[int(o.operation_enum)], opd(o._operand)))
            else:
                raise vlib.BrokenTie("unknown operator class %s" % type(o).__name__)
        nrep = len(nodes) - len(set(n.split()[0] for n in nodes))
        xs = [ndx_map[l] for l in leaves]
        return ("L%d %s N%d %s X%d %s" % (len(leaves), " ".join(self.leaf_wire(l) for l in leaves), len(nodes), " ".join(nodes),
                                          len(xs), " ".join(map(str, xs)))).replace("  ", " "), nrep


def rpn_interp(rpn, vals):
    """Python twin of the C++ `_evaluate` (diagnosis only)"""
    st = []
    for t in rpn:
        if t >= 0:
            st.append(vals[t])
            continue
        if t in (-1, -2, -3, -4, -5):
            b, a = st.pop(), st.pop()
            st.append({-1: lambda: a + b, -2: lambda: a - b, -3: lambda: a * b, -4: lambda: a / b, -5: lambda: a ** b}[t]())
        elif t == -8:
            e, th, c = st.pop(), st.pop(), st.pop()
            st.append(th if c == 1 else e)
        elif t == -9:
            ub, lb, b = st.pop(), st.pop(), st.pop()
            st.append(1.0 if lb <= b <= ub else 0.0)
        else:
            a = st.pop()
            f = {-6: abs, -7: lambda x: 1.0 if x >= 0 else -1.0, -10: math.exp, -11: math.log, -12: lambda x: -x, -13: math.sin,
                 -14: math.cos, -15: math.tan, -16: math.asin, -17: math.acos, -18: math.atan}[t]
            st.append(f(a))
    return st[-1]


def leaf_order(expr):
    """(vars, params, floats) and the leaf_ndx_map `_register_constraint` builds"""
    vs, ps, fs = list(expr.get_vars()), list(expr.get_params()), list(expr.get_floats())
    m = {}
    for l in vs + ps + fs:
        m[l] = len(m)
    return vs, ps, fs, m


# ----------------------------------------------------------------------------- histories


def rand_value(rng, dyadic=True):
    if dyadic or rng.random() < 0.7:
        return rng.randrange(-24, 25) / 8.0
    return round(rng.uniform(-3, 3), 4)


def live_ok(live, shared, vv, pv):
    try:
        for t in live.values():
            Truth(vv, pv, shared).ev(t)
        return True
    except (Domain, OverflowError, ZeroDivisionError, ValueError):
        return False


def boundary_targets(t, shared, out):
    """(var, bound, other) for simple inequality bodies: setting var = bound (+ other) puts the body exactly on the bound"""
    tag = t[0]
    if tag == "ref":
        return boundary_targets(shared[t[1]], shared, out)
    if tag == "ineqe":
        return boundary_targets(ineqe_plain(t), shared, out)
    if tag == "ineq":
        for bd in (t[2], t[3]):
            if bd is None:
                continue
            b = t[1]
            if b[0] == "var":
                out.append((b[1], bd, None))
            elif b[0] == "bin" and b[1] == "sub" and b[2][0] == "var" and b[3][0] == "param":
                out.append((b[2][1], bd, ("param", b[3][1])))
        boundary_targets(t[1], shared, out)
    elif tag == "cond":
        for c, e in t[1]:
            if c is not None:
                boundary_targets(c, shared, out)
            boundary_targets(e, shared, out)
    elif tag in ("bin", "un"):
        for s in t[2:]:
            boundary_targets(s, shared, out)
    elif tag == "ite":
        for s in t[1:]:
            boundary_targets(s, shared, out)
    return out


def ineqe_nodes(t, shared, out):
    """the inequalities with a non-numeric bound inside a term (shared sub-terms resolved)"""
    if not isinstance(t, tuple) or not t:
        return out
    if t[0] == "ref":
        return ineqe_nodes(shared[t[1]], shared, out)
    if t[0] == "ineqe":
        out.append(t)
    if t[0] == "cond":
        for c, e in t[1]:
            if c is not None:
                ineqe_nodes(c, shared, out)
            ineqe_nodes(e, shared, out)
        return out
    for s in t[1:]:
        if isinstance(s, tuple):
            ineqe_nodes(s, shared, out)
    return out


def make_history(rng, quick, nops=None):
    g = Gen(rng)
    depth = rng.choice([2, 3, 3, 4])
    shared = []
    for _ in range(rng.choice([0, 2, 3, 4])):
        for _try in range(10):
            t = g.term(rng.choice([1, 2]), shared)
            if t[0] in ("bin", "un", "ite") and has_leaf(t, shared):
                shared.append(t)
                break
    if shared and rng.random() < 0.7:
        # a shared sub-expression that contains a constant: `2*x`
        shared.append(("bin", "mul", ("num", rng.choice([2.0, 2.5, -1.5])), ("var", rng.randrange(NV))))
    vv = [rand_value(rng) for _ in range(NV)]
    pv = [rand_value(rng) for _ in range(NP)]
    hist = [("init", list(vv), list(pv), shared)]
    live, ncid, dirty = {}, 0, True
    nops = nops or rng.randint(8, 22 if quick else 40)
    for _ in range(nops):
        r = rng.random()
        if r < 0.34 or not live:
            conditional = rng.random() < 0.3
            for _try in range(12):
                t = g.conditional(depth - 1, shared) if conditional else g.term(depth, shared)
                if not has_leaf(t, shared):
                    continue
                trial = dict(live)
                trial[ncid] = t
                if live_ok(trial, shared, vv, pv):
                    live[ncid] = t
                    hist.append(("add", ncid, t, rng.choice(["attr", "dict"])))
                    ncid += 1
                    dirty = True
                    break
        elif r < 0.40:
            cid = rng.choice(sorted(live))
            del live[cid]
            hist.append(("del", cid))
            dirty = True
        elif r < 0.43:
            # a REFUSED insertion: the name / key is occupied -> ValueError, and nothing may have been registered
            for _try in range(6):
                t = g.term(depth, shared)
                if has_leaf(t, shared):
                    hist.append(("dupadd", rng.choice(sorted(live)), t))
                    break
        elif r < 0.46:
            # a ConstraintDict attribute with one constraint, removed again as a whole (`del m.<dict>`)
            for _try in range(6):
                t = g.term(depth, shared)
                if not has_leaf(t, shared):
                    continue
                trial = dict(live)
                trial[ncid] = t
                if live_ok(trial, shared, vv, pv):
                    hist.append(("add", ncid, t, "tmpdict"))
                    hist.append(("del", ncid))
                    if rng.random() < 0.75:
                        # the DETACHED dict is used on: a new constraint is stored in it / its old key is deleted.  It belongs to
                        # no model any more, so the model (constraint set, residual vector, Jacobian) must not notice
                        for _try2 in range(6):
                            t2 = g.term(rng.choice([1, 2]), shared)
                            if has_leaf(t2, shared):
                                hist.append(("detuse", ncid, t2, rng.choice(["set", "set+del", "set+del", "del"])))
                                break
                    ncid += 1
                    dirty = True
                    break
        elif r < 0.66:
            # values
            targets = []
            for t in live.values():
                boundary_targets(t, shared, targets)
            for _try in range(10):
                nv, np_ = list(vv), list(pv)
                kind = "value"
                q = rng.random()
                if targets and q < 0.3:
                    i, bd, other = rng.choice(targets)
                    nv[i] = bd + (pv[other[1]] if other else 0.0)
                    kind = "boundary"
                elif targets and q < 0.6:
                    # move ACROSS a branch boundary: to the other side of the bound, through the Var or through the Param
                    i, bd, other = rng.choice(targets)
                    cur = vv[i] - (pv[other[1]] if other else 0.0)
                    step = rng.choice([0.5, 1.0, 2.0]) * (-1.0 if cur >= bd else 1.0)
                    if other and rng.random() < 0.5:
                        np_[other[1]] = vv[i] - (bd + step)
                    else:
                        nv[i] = bd + step + (pv[other[1]] if other else 0.0)
                    kind = "cross"
                elif rng.random() < 0.75:
                    nv[rng.randrange(NV)] = rand_value(rng, dyadic=rng.random() < 0.6)
                else:
                    np_[rng.randrange(NP)] = rand_value(rng)
                if live_ok(live, shared, nv, np_):
                    for i in range(NV):
                        if nv[i] != vv[i]:
                            hist.append(("setv", i, nv[i], kind))
                    for i in range(NP):
                        if np_[i] != pv[i]:
                            hist.append(("setp", i, np_[i]))
                    vv, pv = nv, np_
                    # Jacobian evaluated FIRST (no x, no residual evaluation in between) at the values just written through
                    # Var.value / Param.value: the Jacobian is a function of the current values only
                    if not dirty and rng.random() < 0.6:
                        hist.append(("jcheck",))
                    break
        elif r < 0.74:
            hist.append(("struct",))
            dirty = False
        elif r < 0.82 and live:
            # load_var_values_from_x on a freshly structured model, checked at once, then every variable (also the ones
            # without a C object, which load_x does not reach) is set explicitly so that generator and executor agree
            for _try in range(10):
                nv = [rand_value(rng, dyadic=rng.random() < 0.5) for _ in range(NV)]
                if live_ok(live, shared, nv, pv):
                    if dirty:
                        hist.append(("struct",))
                        dirty = False
                    hist.append(("loadx", nv))
                    hist.append(("check",))
                    # set a variable BACK to the value it had before the load (written through Var.value while the Python-side
                    # `_value` still holds that old value): the assignment must reach the evaluator all the same
                    back = list(nv)
                    cand = [k for k in range(NV) if nv[k] != vv[k]]
                    rng.shuffle(cand)
                    moved = False
                    for k in cand[:2]:
                        t = list(back)
                        t[k] = vv[k]
                        if rng.random() < 0.8 and live_ok(live, shared, t, pv):
                            back = t
                            hist.append(("setv", k, vv[k], "back-to-value-before-load"))
                            moved = True
                    if moved:
                        hist.append(("check",))
                    for i in range(NV):
                        hist.append(("setv", i, back[i], "value"))
                    vv = back
                    break
        else:
            if dirty and rng.random() < 0.9:
                hist.append(("struct",))
                dirty = False
            hist.append(("check",) if not dirty else ("badcheck",))
    if dirty:
        hist.append(("struct",))
    hist.append(("check",))
    return hist


def _vars_of(t, shared, acc):
    tag = t[0]
    if tag == "ref":
        return _vars_of(shared[t[1]], shared, acc)
    if tag == "var":
        acc.add(t[1])
    elif tag == "cond":
        for c, e in t[1]:
            if c is not None:
                _vars_of(c, shared, acc)
            _vars_of(e, shared, acc)
    elif tag not in ("param", "num", "fobj"):
        for s in t[1:]:
            if isinstance(s, tuple):
                _vars_of(s, shared, acc)
    return acc


def totuple(x):
    if isinstance(x, (list, tuple)):
        return tuple(totuple(y) for y in x)
    return x


class Stop(Exception):
    pass


class Run:
    """executes one history on the real aml.Model; collects oracle failures, E-level request lines and M-level ops"""

    def __init__(self, wntr, hist, ctx=None):
        import wntr.sim.aml.expr as E
        import wntr.sim.aml.aml as A

        self.E, self.A, self.hist, self.ctx = E, A, hist, ctx
        self.raw = []          # oracle findings: dict(key, what, op_index, detail)
        self.expr_lines = []   # phase-1 lines
        self.expr_meta = []    # per line: dict(cid, kind, vars, real observations)
        self.mops = []         # phase-2 ops (before jac trees are known)
        self.obs = []          # real observations per check, aligned with the `aml.check` ops
        self.stats = {}

    def count(self, k, n=1):
        self.stats[k] = self.stats.get(k, 0) + n
        if self.ctx is not None:
            self.ctx.count(k, n)

    # -- helpers
    def truth(self, term):
        tr = Truth(self.vv, self.pv, self.shared)
        d = tr.ev(term)
        return d, tr

    def fail(self, key, what, i, **detail):
        self.raw.append({"key": key, "what": what, "op_index": i, "detail": detail})

    def expr_request(self, cid, kind, expr, jvars, lazy=False):
        """E-level: one `expr` line + the real observations it is compared with"""
        E = self.E
        vs, ps, fs, ndx = leaf_order(expr)
        w = self.refl.oplist_wire(expr, ndx)
        if w is None:
            return None
        wire, nrep = w
        meta = {"cid": cid, "kind": kind, "nrep": nrep, "jvars": jvars, "own": [self.refl.var_ix[id(v)] for v in vs], "lazy": lazy}
        try:
            meta["rpn"] = [int(t) for t in expr.get_rpn(ndx)]
        except Exception as e:
            meta["rpn_exc"] = "%s: %s" % (type(e).__name__, e)
        try:
            meta["ev"] = float(expr.evaluate())
        except Exception as e:
            meta["ev_exc"] = "%s: %s" % (type(e).__name__, e)
        meta["tree"] = self.refl.tree(expr)
        leafvals = {ndx[l]: float(l.value) for l in ndx}
        if "rpn" in meta and "ev" in meta:
            try:
                meta["rpn_val"] = float(rpn_interp(meta["rpn"], leafvals))
            except Exception as e:
                meta["rpn_val"] = None
        if jvars:
            try:
                sd = expr.reverse_sd()
                ad = expr.reverse_ad()
            except Exception as e:
                meta["sd_exc"] = "%s: %s" % (type(e).__name__, e)
                sd = ad = None
            if sd is not None:
                meta["sd_tree"], meta["sd_val"], meta["ad_val"], meta["sd_rpn_val"] = {}, {}, {}, {}
                for v in jvars:
                    obj = self.vars[v]
                    j = sd.get(obj, 0)
                    meta["sd_tree"][v] = self.refl.tree(j)
                    try:
                        meta["sd_val"][v] = float(j if type(j) in (int, float) else j.evaluate())
                    except Exception as e:
                        meta["sd_val"][v] = None
                    a = ad.get(obj, 0)
                    try:
                        meta["ad_val"][v] = float(a if type(a) in (int, float) else a.value)
                    except Exception:
                        meta["ad_val"][v] = None  # complex / NaN through an undefined unselected branch
                    if type(j) not in (int, float) and not j.is_leaf():
                        _, _, _, jn = leaf_order(j)
                        try:
                            meta["sd_rpn_val"][v] = float(rpn_interp(j.get_rpn(jn), {jn[l]: float(l.value) for l in jn}))
                        except Exception:
                            meta["sd_rpn_val"][v] = None
        line = "expr %s V%d %s P%d %s J%d %s" % (wire, NV, " ".join(bits(x) for x in self.cur_var_values()), NP,
                                                " ".join(bits(x) for x in self.cur_par_values()), len(jvars), " ".join(map(str, jvars)))
        self.expr_lines.append(" ".join(line.split()))
        self.expr_meta.append(meta)
        return len(self.expr_lines) - 1

    def cur_var_values(self):
        return [float(v.value) for v in self.vars]

    def cur_par_values(self):
        return [float(p.value) for p in self.params]

    # -- execution
    def execute(self):
        try:
            for i, op in enumerate(self.hist):
                getattr(self, "op_" + op[0])(i, *op[1:])
        except Stop:
            pass
        return self

    def op_init(self, i, vv, pv, shared):
        E, A = self.E, self.A
        self.vv, self.pv, self.shared = list(vv), list(pv), [totuple(t) for t in shared]
        self.m = A.Model()
        self.vars = [E.Var(x) for x in vv]
        self.params = [E.Param(x) for x in pv]
        for k, v in enumerate(self.vars):
            setattr(self.m, "v%d" % k, v)
        for k, p in enumerate(self.params):
            setattr(self.m, "p%d" % k, p)
        self.m.cd = A.ConstraintDict()
        self.builder = Builder(E, self.vars, self.params, self.shared)
        self.refl = Reflect(E, self.vars, self.params)
        self.dirty = True
        self.live = {}   # cid -> dict(term, con, path, conditional, vars(list of indices), params, floats)
        self.mops.append(("reset",))
        for k, x in enumerate(vv):
            self.mops.append(("setv", k, x))
        for k, x in enumerate(pv):
            self.mops.append(("setp", k, x))

    def op_add(self, i, cid, term, path):
        E, A = self.E, self.A
        term = totuple(term)
        conditional = term[0] == "cond"
        try:
            obj = self.builder.build(term)
        except Exception as e:
            self.fail("build-exception-%s" % type(e).__name__, "building a valid expression raised %s: %s" % (type(e).__name__, e), i, term=term)
            raise Stop()
        if type(obj) in (int, float, bool):
            self.count("folded_to_number")
            return
        ops = term_ops(term, self.shared, {})
        for k, n in ops.items():
            self.count("op:" + k, n)
        con = A.Constraint(obj)
        try:
            if path == "attr":
                setattr(self.m, "c%d" % cid, con)
            elif path == "tmpdict":
                cdx = A.ConstraintDict()
                cdx[cid] = con                      # not registered yet: the dict belongs to no model
                self._cdx = cdx
                self.m.cdx = cdx                    # Model.__setattr__ registers every constraint of the dict
            else:
                self.m.cd[cid] = con
        except Exception as e:
            shared_float = False
            try:
                exprs = (list(obj._conditions) + list(obj._exprs)) if conditional else [obj]
                for x in exprs:
                    for f in x.get_floats():
                        if self.m._refcounts.get(f, 0) > 1 or (f in self.m._float_cfloat_map and self.m._refcounts.get(f, 0) > 0):
                            shared_float = True
            except Exception:
                pass
            if isinstance(e, KeyError) and shared_float:
                key = "register-shared-float-keyerror"
            else:
                key = "register-exception-%s" % type(e).__name__
            self.fail(key, "registering a constraint with a valid expression raised %s: %s" % (type(e).__name__, e), i, term=term, cid=cid)
            raise Stop()
        self.count("registered")
        self.dirty = True
        # what the Python layer hands to the evaluator, recomputed independently of Model's own records
        if conditional:
            vs, ps, fs = [], [], []
            for x in list(obj._conditions) + list(obj._exprs):
                for l, acc in ((x.get_vars(), vs), (x.get_params(), ps), (x.get_floats(), fs)):
                    for y in l:
                        if not any(y is z for z in acc):
                            acc.append(y)
            branches = []
            for c, x in zip(obj._conditions, obj._exprs):
                branches.append((c, x))
        else:
            vs, ps, fs, _ = leaf_order(obj)
            branches = [(None, obj)]
        vix = [self.refl.var_ix[id(v)] for v in vs]
        pix = [self.refl.par_ix[id(p)] for p in ps]
        rec = {"term": term, "con": con, "path": path, "conditional": conditional, "vars": vix, "params": pix,
               "floats": [self.refl.fid(f) for f in fs], "float_objs": fs, "obj": obj}
        if path == "tmpdict":
            rec["cdx"] = self._cdx
        self.live[cid] = rec
        brs = []
        try:
            lazy = self.truth(term)[1].lazy
        except (Domain, OverflowError, ZeroDivisionError, ValueError):
            lazy = True
        if lazy:
            self.count("add_with_undefined_unselected_branch")
        for c, x in branches:
            cl = None if c is None or c.is_leaf() else self.expr_request(cid, "cond", c, [], lazy)
            ctree = self.refl.tree(c) if c is not None else ("const", Fraction(1))
            jv = [v for v in vix]
            xl = None if x.is_leaf() else self.expr_request(cid, "fn", x, jv, lazy)
            brs.append({"cond_tree": ctree, "cond_line": cl, "fn_tree": self.refl.tree(x), "fn_line": xl,
                        "leaf_var": self.refl.var_ix.get(id(x)) if x.is_leaf() else None})
        self.mops.append(("add", cid, conditional, int(con._c_obj.this),
                          [(k, int(self.vars[k]._c_obj.this)) for k in vix], [(k, int(self.params[k]._c_obj.this)) for k in pix],
                          rec["floats"], brs))

    def op_del(self, i, cid):
        if cid not in self.live:
            return
        rec = self.live.pop(cid)
        try:
            if rec["path"] == "attr":
                delattr(self.m, "c%d" % cid)
            elif rec["path"] == "tmpdict":
                delattr(self.m, "cdx")              # Model.__delattr__ must remove every constraint of the dict
            else:
                del self.m.cd[cid]
        except Exception as e:
            self.fail("remove-exception-%s" % type(e).__name__, "removing a constraint raised %s: %s" % (type(e).__name__, e), i, cid=cid)
            raise Stop()
        if rec["path"] == "tmpdict":
            self.detached = (cid, rec["cdx"])
        if rec["path"] == "tmpdict" and rec["con"] in self.m._con_ccon_map:
            self.fail("delattr-constraintdict-keeps-constraints",
                      "`del m.<ConstraintDict attribute>` removed the attribute but its constraint is still registered with the "
                      "evaluator (%d registered constraints, %d expected)" % (len(self.m._con_ccon_map), len(self.live)), i, cid=cid)
            raise Stop()
        self.count("removed")
        self.dirty = True
        self.mops.append(("del", cid))

    def _registry(self):
        m = self.m
        return {"constraints": len(m._con_ccon_map), "cons()": len(list(m.cons())), "C vars": len(m._var_cvar_map),
                "C params": len(m._param_cparam_map), "C floats": len(m._float_cfloat_map), "refcounts": sorted(m._refcounts.values()),
                "vars with C object": [v._c_obj is not None for v in self.vars]}

    def op_detuse(self, i, cid, term, how="set+del"):
        """the ConstraintDict that `del m.<dict>` detached from the model is used on as a free-standing dict: a new constraint is
        stored in it and/or its old key is deleted.  Neither may raise, neither may change what is registered with the model, and
        set_structure / evaluate_residuals / evaluate_jacobian of the model go on as if nothing had happened (the following
        struct/check ops see to that: the model side of the history does not contain this op)."""
        det = getattr(self, "detached", None)
        if det is None or det[0] != cid:
            return
        cdx = det[1]
        self.detached = None
        try:
            obj = self.builder.build(totuple(term))
        except Exception:
            return
        if type(obj) in (int, float, bool):
            return
        before = self._registry()
        con = self.A.Constraint(obj)
        step = None
        try:
            if "set" in how:
                step = "storing a new constraint in"
                cdx["n%d" % cid] = con
            if "del" in how:
                step = "deleting the old key of"
                del cdx[cid]
        except Exception as e:
            self.fail("detached-constraintdict-still-wired",
                      "%s a ConstraintDict that was removed from the model with `del m.<dict>` raised %s: %s" % (step, type(e).__name__, e),
                      i, cid=cid, how=how, term=term)
            raise Stop()
        after = self._registry()
        if after != before or con in self.m._con_ccon_map:
            diff = ", ".join("%s %s -> %s" % (k, before[k], after[k]) for k in before if before[k] != after[k])
            self.fail("detached-constraintdict-still-wired",
                      "using (%s) a ConstraintDict that was removed from the model with `del m.<dict>` changed what is registered with "
                      "the model: %s (a phantom residual row)" % (how, diff), i, cid=cid, how=how, term=term)
            raise Stop()
        self.count("detached_dict_reused(%s)" % how)

    def op_dupadd(self, i, cid, term):
        """insert a constraint under an OCCUPIED name / key: must raise ValueError and leave the model as it was"""
        if cid not in self.live:
            return
        rec = self.live[cid]
        if rec["path"] == "tmpdict":
            return
        try:
            obj = self.builder.build(totuple(term))
        except Exception:
            return
        if type(obj) in (int, float, bool):
            return
        m = self.m
        before = (len(m._con_ccon_map), len(m._var_cvar_map), len(m._param_cparam_map), len(m._float_cfloat_map), sorted(m._refcounts.values()),
                  [v._c_obj is not None for v in self.vars])
        con = self.A.Constraint(obj)
        try:
            if rec["path"] == "attr":
                setattr(m, "c%d" % cid, con)
            else:
                m.cd[cid] = con
            self.fail("occupied-key-accepted", "inserting a constraint under the occupied %s %r did not raise" % (
                "attribute" if rec["path"] == "attr" else "ConstraintDict key", cid), i, cid=cid)
            raise Stop()
        except ValueError:
            self.count("refused:occupied_key(%s)" % rec["path"])
        after = (len(m._con_ccon_map), len(m._var_cvar_map), len(m._param_cparam_map), len(m._float_cfloat_map), sorted(m._refcounts.values()),
                 [v._c_obj is not None for v in self.vars])
        if after != before or con in m._con_ccon_map:
            self.fail("refused-insertion-not-atomic",
                      "a refused insertion (occupied %s) left the refused constraint registered: registered constraints %d -> %d, C vars %d -> %d" % (
                          "attribute" if rec["path"] == "attr" else "ConstraintDict key", before[0], after[0], before[1], after[1]), i, cid=cid,
                      term=term)
            raise Stop()

    def op_setv(self, i, k, x, kind="value"):
        self.vars[k].value = x
        self.vv[k] = x
        self.count("set:" + kind)
        self.mops.append(("setv", k, x))

    def op_setp(self, i, k, x):
        self.params[k].value = x
        self.pv[k] = x
        self.mops.append(("setp", k, x))

    def op_struct(self, i):
        try:
            self.m.set_structure()
        except Exception as e:
            self.fail("set_structure-exception", "set_structure raised %s: %s" % (type(e).__name__, e), i)
            raise Stop()
        self.count("set_structure")
        self.dirty = False
        self.mops.append(("struct",))

    def op_loadx(self, i, nv):
        try:
            x = self.m.get_x()
        except Exception as e:
            self.fail("get_x-exception", "get_x raised %s: %s" % (type(e).__name__, e), i)
            raise Stop()
        xs = [float(t) for t in x]
        for k, v in enumerate(self.vars):
            if v._c_obj is not None:
                ix = v.index
                if ix is None or not (0 <= ix < len(xs)):
                    self.fail("index-var-range", "var.index %r outside get_x() of length %d" % (ix, len(xs)), i)
                    raise Stop()
                xs[ix] = nv[k]
                self.vv[k] = nv[k]
        import numpy as np
        self.m.load_var_values_from_x(np.array(xs, dtype=float))
        self.count("load_x")
        self.mops.append(("loadx", xs))

    def op_badcheck(self, i):
        """evaluate without a structure: must be refused, not crash or return garbage"""
        if not self.dirty:
            return self.op_check(i)   # the add/remove that preceded folded away: the structure is still valid
        try:
            self.m.evaluate_residuals()
            self.fail("evaluate-without-structure", "evaluate_residuals() on a model whose structure is not set did not raise", i)
        except RuntimeError:
            self.count("refused:no_structure")
        self.mops.append(("check", "bad"))
        self.obs.append({"bad": True})

    def op_jcheck(self, i):
        """like `check`, but the Jacobian is evaluated BEFORE the residuals (evaluate_jacobian() without x right after values
        were written through Var.value / Param.value, possibly since the last residual evaluation)"""
        if self.dirty:
            return
        self.count("jacobian_before_residuals")
        return self.op_check(i, jac_first=True)

    def op_check(self, i, jac_first=False):
        import numpy as np

        m = self.m
        ncon = len(self.live)
        o = {"bad": False, "op_index": i}
        try:
            nnz = m._evaluator.nnz
            if jac_first:
                vals, cols, rows = m._evaluator.evaluate_csr_jacobian(nnz, nnz, ncon + 1)
                vals, cols, rows = [float(t) for t in vals], [int(t) for t in cols], [int(t) for t in rows]
            r = [float(t) for t in m.evaluate_residuals()]
            if not jac_first:
                vals, cols, rows = m._evaluator.evaluate_csr_jacobian(nnz, nnz, ncon + 1)
            vals, cols, rows = [float(t) for t in vals], [int(t) for t in cols], [int(t) for t in rows]
            xs = [float(t) for t in m.get_x()]
        except Exception as e:
            self.fail("evaluate-exception-%s" % type(e).__name__, "evaluating a structured valid model raised %s: %s" % (type(e).__name__, e), i)
            raise Stop()
        self.count("check")
        cids = sorted(self.live)
        o.update(res=r, jac=(vals, cols, rows), x=xs, cids=cids,
                 cidx=[self.live[c]["con"].index for c in cids], vidx=[v.index if v._c_obj is not None else None for v in self.vars])
        # reference counts / C objects / values as the implementation reports them
        fobjs = {}
        for c in cids:
            for fid, f in zip(self.live[c]["floats"], self.live[c]["float_objs"]):
                fobjs[fid] = f
        for fid, f in zip(getattr(self, "_dead_fids", []), getattr(self, "_dead_fobjs", [])):
            fobjs.setdefault(fid, f)
        fids = sorted(fobjs)
        o["fids"] = fids
        o["rc"] = [m._refcounts.get(v, 0) for v in self.vars] + [m._refcounts.get(p, 0) for p in self.params] + [m._refcounts.get(fobjs[f], 0) for f in fids]
        o["live"] = [int(v._c_obj is not None) for v in self.vars] + [int(p._c_obj is not None) for p in self.params] + [int(fobjs[f]._c_obj is not None) for f in fids]
        o["vv"] = [float(v.value) for v in self.vars]
        o["pv"] = [float(p.value) for p in self.params]
        self.obs.append(o)
        self.mops.append(("check", "ok", cids, fids))
        self.oracle(i, o)

    # -- the property on the implementation
    def oracle(self, i, o):
        m = self.m
        cids = o["cids"]
        ncon = len(cids)
        r = o["res"]
        vals, cols, rows = o["jac"]
        # indices
        if sorted(x for x in o["cidx"] if x is not None) != list(range(ncon)) or len(r) != ncon:
            self.fail("index-constraints", "constraint indices %s are not 0..%d" % (o["cidx"], ncon - 1), i)
            return
        livev = [k for k, v in enumerate(self.vars) if v._c_obj is not None]
        if sorted(o["vidx"][k] for k in livev) != list(range(len(livev))) or len(o["x"]) != len(livev):
            self.fail("index-variables", "variable indices %s are not 0..%d" % (o["vidx"], len(livev) - 1), i)
            return
        # values: every leaf keeps the value it was last given (also across add/remove), get_x agrees
        for k in range(NV):
            if o["vv"][k] != self.vv[k]:
                self.fail("value-lost", "var %d has value %r, last set to %r" % (k, o["vv"][k], self.vv[k]), i)
            if k in livev and o["x"][o["vidx"][k]] != self.vv[k]:
                self.fail("get_x-order", "get_x()[var.index] = %r, var value %r" % (o["x"][o["vidx"][k]], self.vv[k]), i)
        for k in range(NP):
            if o["pv"][k] != self.pv[k]:
                self.fail("value-lost", "param %d has value %r, last set to %r" % (k, o["pv"][k], self.pv[k]), i)
        # reference counts = number of registered constraints that mention the leaf; C object iff count > 0
        exp_rc = [sum(1 for c in cids if k in self.live[c]["vars"]) for k in range(NV)] + \
                 [sum(1 for c in cids if k in self.live[c]["params"]) for k in range(NP)] + \
                 [sum(1 for c in cids if f in self.live[c]["floats"]) for f in o["fids"]]
        if o["rc"] != exp_rc:
            self.fail("refcount", "reference counts %s, expected %s" % (o["rc"], exp_rc), i)
        if o["live"] != [int(x > 0) for x in exp_rc]:
            self.fail("c-object-liveness", "leaves with a C object %s, reference counts %s" % (o["live"], exp_rc), i)
        if len(rows) != ncon + 1 or rows[0] != 0 or any(rows[k] > rows[k + 1] for k in range(ncon)) or rows[-1] != len(vals):
            self.fail("csr-structure", "row pointer %s is not a CSR row pointer for %d values" % (rows, len(vals)), i)
            return
        # residuals and Jacobian against the intended terms
        for c, row in zip(cids, o["cidx"]):
            rec = self.live[c]
            try:
                d, tr = self.truth(rec["term"])
            except (Domain, OverflowError, ZeroDivisionError, ValueError):
                self.count("oracle_skipped_domain")
                continue
            if self.ctx is not None:
                self.ctx.case(("con", json.dumps(rec["term"], default=str), tuple(self.vv), tuple(self.pv)), True)
            if tr.kink == 0.0:
                self.count("at_branch_boundary")
            for b in tr.branches:
                self.count("branch:%s" % b)
            scale = tr.mag
            if not close(r[row], d.v, scale, 1e-10):
                self.diagnose(i, c, "residual", None, r[row], d.v)
            entries = {}
            for q in range(rows[row], rows[row + 1]):
                entries[cols[q]] = entries.get(cols[q], 0.0) + vals[q]
                if not (0 <= cols[q] < len(o["x"])):
                    self.fail("csr-structure", "column index %d outside 0..%d" % (cols[q], len(o["x"]) - 1), i, cid=c)
            if tr.kink == 0.0 and any(t == "abs0" for t in ()):
                continue
            for k in range(NV):
                tv = d.d.get(k, 0.0)
                if self.vars[k]._c_obj is None:
                    if tv != 0.0:
                        self.fail("jacobian-missing-variable", "constraint depends on a variable without a C object", i, cid=c, var=k)
                    continue
                got = entries.get(o["vidx"][k], 0.0)
                if tr.lazy and isinstance(got, float) and math.isnan(got) and math.isfinite(r[row]):
                    # reverse_sd multiplies the partial derivative of the UNSELECTED branch (NaN/inf here) by
                    # if_else(cond, 0, der): 0 * NaN = NaN in IEEE arithmetic, although the residual is the selected branch
                    self.fail("jacobian-nan-unselected-branch",
                              "Jacobian entry of constraint %d w.r.t. var %d is NaN (true %r): an if_else whose unselected branch is "
                              "undefined at this point; the residual %r is right" % (c, k, tv, r[row]),
                              i, cid=c, var=k, observed="nan", expected=tv, term=rec["term"],
                              values={"vars": list(self.vv), "params": list(self.pv)})
                    continue
                if not close(got, tv, scale, 1e-9):
                    if self.abs_kink(rec["term"]):
                        self.count("jacobian_skipped_at_abs_kink")
                        continue
                    self.diagnose(i, c, "jacobian", k, got, tv)
        # the public square-only entry point agrees with the raw CSR
        if len(livev) == ncon and ncon > 0:
            try:
                J = m.evaluate_jacobian()
                import numpy as np
                import scipy.sparse as sp
                ref = sp.csr_matrix((np.array(vals), np.array(cols), np.array(rows)), shape=(ncon, ncon))
                if not np.array_equal(J.toarray(), ref.toarray(), equal_nan=True):
                    self.fail("evaluate_jacobian-differs", "Model.evaluate_jacobian() differs from evaluate_csr_jacobian", i)
                self.count("square_jacobian")
            except Exception as e:
                self.fail("evaluate-exception-%s" % type(e).__name__, "evaluate_jacobian raised %s: %s" % (type(e).__name__, e), i)

    def abs_kink(self, term):
        """an abs/sign argument is exactly 0 at the current point (the derivative there is a convention)"""
        found = []

        class T(Truth):
            def ev(s, t):
                d = Truth.ev(s, t)
                if t[0] == "un" and t[1] in ("abs", "sign"):
                    a = Truth.ev(s, t[2])
                    if a.v == 0.0:
                        found.append(1)
                return d
        try:
            T(self.vv, self.pv, self.shared).ev(term)
        except Exception:
            return True
        return bool(found)

    def diagnose(self, i, cid, what, var, got, want):
        """attribute a wrong residual / Jacobian entry to the Python-layer routine that produced it"""
        rec = self.live[cid]
        metas = [mm for mm in self.expr_meta if mm["cid"] == cid]
        key = "%s-value" % what
        why = ""
        vals_now = None
        # an inequality with a NON-numeric bound whose truth value (on the expression layer, at the current values) is not that of
        # `lb <= body` / `body <= ub`: the wrong branch is selected whatever the evaluator does afterwards
        for sub in ineqe_nodes(rec["term"], self.shared, []):
            try:
                tv = self.truth(sub)[0].v
                cobj = self.builder.build(sub)
                cv = float(cobj if type(cobj) in (bool, int, float) else cobj.evaluate())
            except Exception:
                continue
            if cv != tv:
                self.fail("inequality-expression-bound-branch",
                          "%s of constraint %d%s: evaluator %r, true %r [inequality(body, %s=<non-numeric bound>) is %r where %s is %r]" % (
                              what, cid, "" if var is None else " w.r.t. var %d" % var, got, want, sub[2], cv,
                              "bound <= body" if sub[2] == "lb" else "body <= bound", tv),
                          i, cid=cid, var=var, observed=got, expected=want, term=rec["term"], condition=sub,
                          values={"vars": list(self.vv), "params": list(self.pv)})
                return
        if what == "residual":
            obj = rec["obj"]
            exprs = (list(obj._conditions) + list(obj._exprs)) if rec["conditional"] else [obj]
            for x in exprs:
                if x.is_leaf():
                    continue
                try:
                    _, _, _, n = leaf_order(x)
                    rv = float(rpn_interp(x.get_rpn(n), {n[l]: float(l.value) for l in n}))
                    if not close(rv, float(x.evaluate()), 1.0, 1e-9):
                        key, why = "get_rpn-aliased-list", "get_rpn() of a constraint expression does not evaluate to expression.evaluate()"
                except Exception:
                    pass
        if what == "jacobian":
            # recompute on the current values
            obj = rec["obj"]
            if rec["conditional"]:
                pairs = list(zip(obj._exprs, [e for c, e in rec["term"][1] if True][-len(obj._exprs):]))
            else:
                pairs = [(obj, rec["term"])]
            sd_wrong = rpn_wrong = False
            nrep = 0
            for x, xterm in pairs:
                if x.is_leaf():
                    continue
                try:
                    want_x = self.truth(xterm)[0].d.get(var, 0.0)
                except Exception:
                    continue
                ids = [id(o) for o in x.operators()]
                nrep += len(ids) - len(set(ids))
                try:
                    j = x.reverse_sd().get(self.vars[var], 0)
                    if type(j) not in (int, float) and not j.is_leaf():
                        _, _, _, jn = leaf_order(j)
                        jv = float(j.evaluate())
                        rv = float(rpn_interp(j.get_rpn(jn), {jn[l]: float(l.value) for l in jn}))
                        if not close(jv, rv, 1.0, 1e-9):
                            rpn_wrong = True
                        jids = [id(o) for o in j.operators()]
                    else:
                        jv = float(j if type(j) in (int, float) else j.value)
                    if not close(jv, want_x, 1.0 + abs(want_x), 1e-8):
                        sd_wrong = True
                except Exception:
                    pass
            if sd_wrong and nrep > 0:
                key, why = "reverse_sd-repeated-operator", "reverse_sd() of an expression whose operator list repeats an operator"
            elif rpn_wrong:
                key, why = "get_rpn-aliased-list", "get_rpn() of the derivative expression does not evaluate to its evaluate()"
            elif sd_wrong:
                key, why = "reverse_sd-value", "reverse_sd() gives a wrong derivative expression"
        self.fail(key, "%s of constraint %d%s: evaluator %r, true %r%s" % (
            what, cid, "" if var is None else " w.r.t. var %d" % var, got, want, (" [" + why + "]") if why else ""),
            i, cid=cid, var=var, observed=got, expected=want, term=rec["term"], values={"vars": list(self.vv), "params": list(self.pv)})


# ----------------------------------------------------------------------------- Lean side


def parse_fields(line):
    out = {}
    for f in line.split(";"):
        k, _, v = f.partition(":")
        out[k] = v
    return out


def sval_tree(sv):
    if sv is None:
        return None
    return ("const", sv[1]) if sv[0] == "num" else sv[1]


def phase2_lines(run, p1):
    """M-level op lines; the Jacobian trees of each branch are the Lean `reverseSd` results of phase 1"""
    lines = []
    for op in run.mops:
        k = op[0]
        if k == "reset":
            lines.append("aml.reset")
        elif k == "setv":
            lines.append("aml.setv %d %s" % (op[1], bits(op[2])))
        elif k == "setp":
            lines.append("aml.setp %d %s" % (op[1], bits(op[2])))
        elif k == "del":
            lines.append("aml.del %d" % op[1])
        elif k == "struct":
            lines.append("aml.struct")
        elif k == "loadx":
            lines.append("aml.loadx X%d %s" % (len(op[1]), " ".join(bits(x) for x in op[1])))
        elif k == "check":
            if op[1] == "bad":
                lines.append("aml.check C0 V0 P0 F0")
            else:
                cids, fids = op[2], op[3]
                lines.append("aml.check C%d %s V%d %s P%d %s F%d %s" % (len(cids), " ".join(map(str, cids)), NV, " ".join(map(str, range(NV))),
                                                                     NP, " ".join(map(str, range(NP))), len(fids), " ".join(map(str, fids))))
        elif k == "add":
            _, cid, cond, addr, va, pa, fids, brs = op
            parts = []
            for b in brs:
                jac = []
                for (v, _a) in va:
                    if b["fn_line"] is None:
                        t = ("const", Fraction(1 if b["leaf_var"] == v else 0))
                    else:
                        sv = parse_sval(p1[b["fn_line"]].get("d%d" % v, "none"))
                        t = sval_tree(sv) or ("const", Fraction(0))
                    jac.append("%d %s" % (v, tree_wire(t)))
                parts.append("%s %s JAC%d %s" % (tree_wire(b["cond_tree"]), tree_wire(b["fn_tree"]), len(jac), " ".join(jac)))
            lines.append("aml.add %d %d %d VA%d %s PA%d %s F%d %s BR%d %s" % (
                cid, int(cond), addr, len(va), " ".join("%d:%d" % x for x in va), len(pa), " ".join("%d:%d" % x for x in pa),
                len(fids), " ".join(map(str, fids)), len(parts), " ".join(parts)))
        else:
            raise ValueError(op)
    return [" ".join(l.split()) for l in lines]


def compare_expr(run, meta, f, broken, tag):
    """E-level: Lean transliterations vs the real Python layer for one expression"""
    def brk(name, detail):
        broken.append(Broken("correspondence", "C15 expression layer: " + name, "%s\n%s" % (detail, tag)))

    lean_rpn = None if f.get("rpn") in (None, "none") else [int(x) for x in f["rpn"].split(",") if x]
    lean_rpnA = None if f.get("rpnA") in (None, "none") else [int(x) for x in f["rpnA"].split(",") if x]
    if meta.get("lazy"):
        # some if/else of this expression has an unselected branch that is undefined at the current point: Python's eager
        # evaluate()/reverse_ad() may raise or go complex there and Lean's Float gives NaN -- only the structure is compared
        run.count("expr_structure_only(undefined unselected branch)")
        if "rpn_exc" in meta:
            run.fail("python-layer-exception", "get_rpn of a valid expression raised: %s" % meta["rpn_exc"], -1, cid=meta["cid"])
            return
        if f.get("wf") != "true":
            brk("well-formedness", "reflected operator list is not well formed (operand used before it is defined)")
            return
        if lean_rpn != meta["rpn"]:
            brk("get_rpn", "real get_rpn %s\nLean getRpn %s" % (meta["rpn"], lean_rpn))
        toks = f.get("tree", "none").split()
        lt = parse_tree(toks)[0] if toks and toks[0] != "none" else None
        if lt is None or not trees_equal(lt, meta["tree"], 0.0):
            brk("denote", "tree of the reflected operator list differs from amldump's tree of the object")
        return
    if "rpn_exc" in meta or "ev_exc" in meta or "sd_exc" in meta:
        run.fail("python-layer-exception", "get_rpn/evaluate/reverse_sd of a valid expression raised: %s" % (
            meta.get("rpn_exc") or meta.get("ev_exc") or meta.get("sd_exc")), -1, cid=meta["cid"])
        return
    if f.get("wf") != "true":
        brk("well-formedness", "reflected operator list is not well formed (operand used before it is defined)")
        return
    if lean_rpn != meta["rpn"]:
        if lean_rpnA == meta["rpn"]:
            run.count("explained:get_rpn_aliasing")
            if meta.get("rpn_val") is not None and not close(meta["rpn_val"], meta["ev"], 1.0, 1e-9):
                if not any(r["key"] == "get_rpn-aliased-list" for r in run.raw):
                    run.fail("get_rpn-aliased-list", "get_rpn() of a %s expression of constraint %d evaluates (stack machine) to %r, expression.evaluate() = %r" % (
                        meta["kind"], meta["cid"], meta["rpn_val"], meta["ev"]), -1, cid=meta["cid"], rpn=meta["rpn"], expected_rpn=lean_rpn)
        else:
            brk("get_rpn", "real get_rpn %s\nLean getRpn %s\nLean getRpnAliased %s" % (meta["rpn"], lean_rpn, lean_rpnA))
    toks = f.get("tree", "none").split()
    lt = parse_tree(toks)[0] if toks and toks[0] != "none" else None
    if lt is None or not trees_equal(lt, meta["tree"], 0.0):
        brk("denote", "tree of the reflected operator list differs from amldump's tree of the object")
    lev = None if f.get("ev") in (None, "none") else unbits(f["ev"])
    if not close(lev, meta["ev"], 1.0, 1e-12):
        brk("evaluate", "expression.evaluate() = %r, Lean pyEvaluate = %r" % (meta["ev"], lev))
    levr = None if f.get("evrpn") in (None, "none") else unbits(f["evrpn"])
    if not close(levr, lev, 1.0, 1e-12):
        brk("evalRpn", "Lean evalRpn(getRpn) = %r, Lean pyEvaluate = %r" % (levr, lev))
    for v in meta["jvars"]:
        if "sd_tree" not in meta:
            break
        if v not in meta["own"]:
            continue  # a variable of another branch of the conditional: `_deriv[v] = Float(0)` in the code, no entry in reverse_sd
        sv = parse_sval(f.get("d%d" % v, "none"))
        lt = sval_tree(sv)
        dv = None if f.get("dv%d" % v) in (None, "none") else unbits(f["dv%d" % v])
        dc = None if f.get("dc%d" % v) in (None, "none") else unbits(f["dc%d" % v])
        DD = None if f.get("D%d" % v) in (None, "none") else unbits(f["D%d" % v])
        real = meta["sd_val"][v]
        scale = 1.0 + abs(dv or 0.0)
        if not close(dv, DD, scale, 1e-9):
            brk("reverseSd vs D", "Lean eval(reverseSd) = %r, Lean eval(D v (denote e)) = %r (var %d)" % (dv, DD, v))
        same_struct = lt is not None and trees_equal(lt, meta["sd_tree"][v])
        if same_struct:
            run.count("sd_tree_identical")
        elif real is not None and close(real, dv, scale, 1e-9):
            # same value, different shape: python folded a native transcendental/real power eagerly (documented deviation)
            run.count("sd_tree_differs_value_equal")
        elif meta["nrep"] > 0 and real is not None and close(real, dc, scale, 1e-9):
            run.count("explained:reverse_sd_repeats")
        else:
            brk("reverse_sd", "real reverse_sd()[v%d] = %s (value %r)\nLean reverseSd = %s (value %r; as coded %r)" % (
                v, tree_wire(meta["sd_tree"][v]), real, f.get("d%d" % v), dv, dc))


def compare_model(run, outs, broken, tag):
    """M-level: Lean Model/Evaluator vs the real aml.Model at every check"""
    def brk(name, detail):
        broken.append(Broken("correspondence", "C15 bookkeeping layer: " + name, "%s\n%s" % (detail, tag)))

    checks = [o for op, o in zip(run.mops, outs) if op[0] == "check"]
    for op, out in zip(run.mops, outs):
        if out.startswith("bad-op"):
            raise vlib.Infra("AmlDriver rejected %r: %s" % (op[0], out))
        if op[0] in ("add", "del", "struct", "loadx") and out != "ok":
            brk(op[0], "Lean model answers %s where the implementation succeeded" % out)
            return
    for o, out in zip(run.obs, checks):
        f = parse_fields(out)
        if o["bad"]:
            if f.get("res") != "structureNotSet":
                brk("structure flag", "implementation refuses to evaluate (structure not set), Lean model: %s" % f.get("res"))
            continue
        if f.get("res") in ("structureNotSet", "machine") or f.get("jac") in ("structureNotSet", "machine"):
            brk("evaluate", "Lean evaluator: res=%s jac=%s" % (f.get("res"), f.get("jac", "")[:40]))
            continue
        res = [unbits(x) for x in f["res"].split(",") if x]
        jv, jc, jr = f["jac"].split("|")
        jv = [unbits(x) for x in jv.split(",") if x]
        jc = [int(x) for x in jc.split(",") if x]
        jr = [int(x) for x in jr.split(",") if x]
        vals, cols, rows = o["jac"]
        scale = 1.0 + max([abs(x) for x in o["res"] + vals if math.isfinite(x)] + [0.0])
        ints = lambda s: [None if x == "-" else int(x) for x in s.split(",") if x]
        if ints(f["cidx"]) != o["cidx"]:
            brk("con.index", "implementation %s, Lean %s" % (o["cidx"], f["cidx"]))
        if ints(f["vidx"]) != o["vidx"]:
            brk("var.index", "implementation %s, Lean %s" % (o["vidx"], f["vidx"]))
        if jc != cols or jr != rows:
            brk("CSR structure", "implementation col=%s row=%s, Lean col=%s row=%s" % (cols, rows, jc, jr))
        elif len(jv) != len(vals) or any(not closen(a, b, scale, 1e-10) for a, b in zip(jv, vals)):
            brk("CSR values", "implementation %s, Lean %s" % (vals, jv))
        if len(res) != len(o["res"]) or any(not closen(a, b, scale, 1e-10) for a, b in zip(res, o["res"])):
            brk("residuals", "implementation %s, Lean %s" % (o["res"], res))
        if ints(f["rc"]) != o["rc"]:
            brk("_refcounts", "implementation %s, Lean %s" % (o["rc"], f["rc"]))
        if ints(f["live"]) != o["live"]:
            brk("_c_obj", "implementation %s, Lean %s" % (o["live"], f["live"]))
        if [unbits(x) for x in f["vv"].split(",") if x] != o["vv"] or [unbits(x) for x in f["pv"].split(",") if x] != o["pv"]:
            brk("leaf values", "implementation vars %s params %s, Lean %s / %s" % (o["vv"], o["pv"], f["vv"], f["pv"]))
        if [unbits(x) for x in f["x"].split(",") if x] != o["x"]:
            brk("get_x", "implementation %s" % o["x"])


# ----------------------------------------------------------------------------- overload folding stream


def gen_fold(rng, depth):
    if depth <= 0 or rng.random() < 0.3:
        r = rng.random()
        if r < 0.4:
            return ("n", rng.choice([0.0, 1.0, 0.0, 1.0, 2.0, -1.0, 0.5, 3.0, -2.5]))
        if r < 0.6:
            return ("F", rng.choice([2.0, 0.5, -1.5, 3.0, 1.0]))
        if r < 0.85:
            return ("v", rng.randrange(3))
        return ("p", rng.randrange(2))
    r = rng.random()
    if r < 0.7:
        return ("B", rng.choice(BINOPS), gen_fold(rng, depth - 1), gen_fold(rng, depth - 1))
    if r < 0.85:
        return ("U", rng.choice(["neg", "abs", "sign", "sin", "exp", "cos", "atan"]), gen_fold(rng, depth - 1))
    return ("I", ("Q", gen_fold(rng, depth - 1), rng.choice([None, 0.0, 1.0]), rng.choice([None, 2.0])), gen_fold(rng, depth - 1), gen_fold(rng, depth - 1))


def fold_wire(t):
    k = t[0]
    if k == "n":
        return "n" + rat(Fraction(t[1]))
    if k == "F":
        return "F" + rat(Fraction(t[1]))
    if k in ("v", "p"):
        return "%s%d" % (k, t[1])
    if k == "B":
        return "B%s %s %s" % (t[1], fold_wire(t[2]), fold_wire(t[3]))
    if k == "U":
        return "U%s %s" % (t[1], fold_wire(t[2]))
    if k == "Q":
        ob = lambda b: "n" if b is None else rat(Fraction(b))
        return "Q %s %s %s" % (fold_wire(t[1]), ob(t[2]), ob(t[3]))
    return "I %s %s %s" % tuple(fold_wire(s) for s in t[1:])


class NotRational(Exception):
    pass


def fold_real(E, t, vs, ps):
    """apply the real overloads; NotRational when python computes a native transcendental / real power (outside the Rat model)"""
    k = t[0]
    if k == "n":
        return float(t[1])
    if k == "F":
        return E.Float(float(t[1]))
    if k == "v":
        return vs[t[1]]
    if k == "p":
        return ps[t[1]]
    native = lambda x: type(x) in (int, float, bool) or isinstance(x, E.Float)
    if k == "B":
        a, b = fold_real(E, t[2], vs, ps), fold_real(E, t[3], vs, ps)
        if t[1] == "pow" and native(a) and native(b):
            bv = b.value if isinstance(b, E.Float) else b
            if not (float(bv).is_integer() and bv >= 0):
                raise NotRational()
        return {"add": lambda: a + b, "sub": lambda: a - b, "mul": lambda: a * b, "div": lambda: a / b, "pow": lambda: a ** b}[t[1]]()
    if k == "U":
        a = fold_real(E, t[2], vs, ps)
        if native(a) and t[1] not in ("neg", "abs", "sign"):
            raise NotRational()
        return -a if t[1] == "neg" else getattr(E, t[1])(a)
    if k == "Q":
        b = fold_real(E, t[1], vs, ps)
        if type(b) is bool:
            raise NotRational()  # an inequality of a native truth value is not a valid call
        return E.inequality(b, lb=t[2], ub=t[3])
    c = fold_real(E, t[1], vs, ps)
    return E.if_else(c, fold_real(E, t[2], vs, ps), fold_real(E, t[3], vs, ps))


# ----------------------------------------------------------------------------- the check


def run_history_real(wntr, hist, ctx=None):
    return Run(wntr, hist, ctx).execute()


def shrink(wntr, hist, key, budget=60):
    """greedy removal of ops (and of whole constraints) while the same key reproduces on the real implementation"""
    def fails(h):
        try:
            return any(r["key"] == key for r in run_history_real(wntr, h).raw)
        except Exception:
            return False

    cur = list(hist)
    changed = True
    while changed and budget > 0:
        changed = False
        for i in range(len(cur) - 1, 0, -1):
            if budget <= 0:
                break
            if cur[i][0] == "check" and i == len(cur) - 1:
                continue
            cand = cur[:i] + cur[i + 1:]
            if cur[i][0] == "add":
                cand = [op for op in cand if not (op[0] in ("del", "detuse") and op[1] == cur[i][1])]
            budget -= 1
            if fails(cand):
                cur, changed = cand, True
                break
    # then shrink the terms: replace a (sub)term by one of its children, drop unused shared terms' bodies to leaves
    def children(t):
        if t[0] in ("bin", "un"):
            return [x for x in t[2:]]
        if t[0] == "ite":
            return [t[2], t[3]]
        if t[0] == "cond":
            return [e for c, e in t[1]]
        return []

    def rewrites(t):
        """terms one step smaller than t"""
        for c in children(t):
            yield c
        if t[0] in ("bin", "un", "ite"):
            for k in range(1 if t[0] == "ite" else 2, len(t)):
                if isinstance(t[k], tuple) and t[k][0] not in ("ineq", "ineqe"):
                    for r in rewrites(t[k]):
                        yield t[:k] + (r,) + t[k + 1:]

    changed = True
    while changed and budget > 0:
        changed = False
        for i, op in enumerate(cur):
            cands = []
            if op[0] == "add":
                cands = [cur[:i] + [("add", op[1], r, op[3])] + cur[i + 1:] for r in rewrites(totuple(op[2]))]
            elif op[0] == "init":
                sh = [totuple(x) for x in op[3]]
                for k, t in enumerate(sh):
                    for r in rewrites(t):
                        if r[0] in ("bin", "un", "ite"):
                            cands.append([("init", op[1], op[2], sh[:k] + [r] + sh[k + 1:])] + cur[1:])
            for cand in cands:
                if budget <= 0:
                    break
                budget -= 1
                if fails(cand):
                    cur, changed = cand, True
                    break
            if changed:
                break
    return cur



# ----------------------------------------------------------------------------- crash isolation
# The real aml.Model (C++ evaluator compiled from the tree) is driven in a FORKED CHILD: an edit of evaluator.cpp that makes
# `evaluate` / `evaluate_csr_jacobian` read out of bounds kills the child with a signal, not the check. The parent then finds the
# first history that crashes (one child per history), shrinks it, and reports it as a concrete failing input ("evaluator-crash").


def _in_child(fn):
    """run fn() in a forked child -> ('ok', value) | ('signal', n) | ('infra', text) | ('brokentie', text) | ('exc', text)"""
    sys.stdout.flush()
    sys.stderr.flush()
    r, w = os.pipe()
    pid = os.fork()
    if pid == 0:
        os.close(r)
        try:
            try:
                res = ("ok", fn())
            except vlib.Infra as e:
                res = ("infra", str(e))
            except vlib.BrokenTie as e:
                res = ("brokentie", str(e))
            except BaseException:
                res = ("exc", traceback.format_exc())
            with os.fdopen(w, "wb") as f:
                pickle.dump(res, f)
            sys.stdout.flush()
        finally:
            os._exit(0)
    os.close(w)
    with os.fdopen(r, "rb") as f:
        data = f.read()
    _, status = os.waitpid(pid, 0)
    if os.WIFSIGNALED(status):
        return ("signal", os.WTERMSIG(status))
    if not data:
        return ("signal", -1)
    return pickle.loads(data)


def _ctx_state(ctx):
    return dict(hist=ctx.hist, evaluations=ctx.evaluations, distinct=ctx.distinct, samples=ctx.samples, cov=ctx.cov)


def crashes(wntr, hist):
    """signal number if driving the real model through `hist` kills the process, else None"""
    def go():
        run_history_real(wntr, hist)
        return None
    r = _in_child(go)
    return r[1] if r[0] == "signal" else None


def locate_crash(wntr, hists, tags, budget=80):
    for h, tag in zip(hists, tags):
        sig = crashes(wntr, h)
        if sig is None:
            continue
        small = list(h)
        # drop whole ops (never the init op), last first, while it still crashes
        i = len(small) - 1
        while i >= 1 and budget > 0:
            cand = small[:i] + small[i + 1:]
            budget -= 1
            if crashes(wntr, cand) is not None:
                small = cand
            i -= 1
        # what was being executed: run op by op in a child that reports progress through a pipe
        return Failure(
            "evaluator-crash",
            "the compiled evaluator crashed the process (signal %s) while the real aml.Model was driven through a %d-op history "
            "(add/remove/set_structure/evaluate): out-of-bounds access in evaluator.cpp" % (sig, len(small)),
            {"history": small, "from": tag, "signal": sig, "crash": True},
        )
    return None


class C15(Check):
    pid = "C15"
    level = "proof"
    prop_modules = ["WntrModel.Props.C15"]
    extra_targets = ["WntrModel.Model.AmlModel", "WntrModel.Gen.EvaluatorShape", "WntrModel.Gen.OverloadShape"]
    manifest = dict(
        category="proof",
        text="Lean theorems (Props/C15.lean) for ALL expression trees, ALL Python operator lists (an operator used twice occurs twice) and ALL "
        "add/remove/set-value/set_structure histories: the RPN emitted by the repaired get_rpn, run by the C++ stack machine, equals direct evaluation "
        "(rpn_correct, rpn_correct_conditional, getRpn_correct, getRpn_total); the overload shortcuts preserve values (constant_folding_sound; the one "
        "that does not, 0**x at x=0, is kept as ConstantFoldingFull + counterexample); reverse_sd equals the formal derivative D for every well-formed "
        "operator list incl. repeated operators (reverseSd_is_derivative) and D is the analytic derivative (HasDerivAt) on the polynomial/rational fragment "
        "(D_is_analytic_derivative_rational); reference counts = mentions by registered constraints, C object iff count > 0, registration never fails, "
        "values survive removal (registration_refcount_inv, refcount_eq_number_of_constraints, cobject_iff_refcount_pos, register_never_fails, "
        "values_survive_removal); set_structure numbers variables/constraints 0..n-1 without gaps or repeats (set_structure_unique_indices) and residual / "
        "CSR rows of ALL constraints are the constraint's own programs on its own leaves with col_ndx/row_nnz as reported -- plain constraints "
        "(csr_rows_partial) and conditional ones, whose condition_ndx/jac_ndx strides select the FIRST branch whose condition evaluates to 1 "
        "(csr_rows_conditional, conditional_selects_first_true, csr_rows; row_entries_are_eval_and_derivative); over the reals D is the analytic "
        "derivative for all 18 operators on the interior of the domain (D_is_analytic_derivative_real, jacobian_entry_is_true_partial_derivative; "
        "abs/sign at 0, inequality boundaries and the unselected if_else branch are excluded points). The pre-fix defects stay visible as counterexample theorems (getRpn_asCoded_counterexample, "
        "reverseSd_asCoded_counterexample, register_asCoded_counterexample). The models are tied to the code on every run: reflected operator lists / trees / "
        "RPN / derivative trees and whole Model histories are replayed through the Lean driver and diffed against the real aml.Model with the evaluator "
        "compiled from the tree's C++ sources; an independent dual-number oracle judges residuals, Jacobian, indices and reference counts on the implementation.",
        design_ref="DESIGN.md §5 C15, §4 M6",
        note="modelled, not verified: IEEE arithmetic and libm (theorems are over a field with abstract pow/exp/log/trig, `LawfulOps`; Float only in the driver, "
        "compared at 1e-10..1e-12 relative); pointer order of std::set is an abstract address order fed from the real pointers; Float leaves are "
        "represented by value inside the C++ constraint model; SWIG marshalling is exercised, not modelled. NOT proved: that a conditional "
        "constraint always has a true branch is a hypothesis of csr_rows_conditional (firstTrue_isSome derives it from 'every condition evaluates and the "
        "last is Float(1)'); that the leaves vector of a "
        "registered constraint resolves to the right C objects (address injectivity) is a hypothesis of row_entries_are_eval_and_derivative; D is connected to Mathlib's analytic derivative over any normed field "
        "for the polynomial/rational fragment and over the reals (realOps: Real.rpow/exp/log/trig) for everything; reverseSd_is_derivative has the domain side condition sdDomAll "
        "(no power whose base folded to the native number 0; native if_else conditions are 0/1); NaN/inf are outside the field model: the IF_ELSE opcode is proved "
        "lazy in the unselected VALUE (ifElse_opcode_lazy, evalRpn_ifElse_lazy) but 0*NaN in the reverse_sd Jacobian of an if_else with an undefined "
        "unselected branch is only seen by the oracle (known finding jacobian-nan-unselected-branch)",
        technique="Lean 4 proofs over hand models + differential runs against the Lean driver + independent oracle on the implementation",
    )
    rule = (
        "obligations: theorems of Props/C15.lean. correspondence cases: one per (constraint, value assignment) judged by the oracle at a check op; "
        "distinct = distinct (intended term, values); every case is non-trivial (has at least one leaf; constants-only constraints are skipped)"
    )
    trusted_base = [
        "harness/props/c15.py (reflection of operator lists by object identity, dual-number oracle) and harness/translate/amldump.py",
        "harness/props/c15_evalshape.py (parser of the `_evaluate` opcode chain / constants / loop strides of evaluator.cpp, OperationEnum of expr.py)",
        "Lean Float = IEEE double with the platform libm (driver only)",
        "g++/CPython/SWIG for the freshly compiled evaluator",
    ]
    assumptions = [
        "values stay inside the domain of definition with a margin (denominators/log arguments >= 0.05, |asin/acos argument| <= 0.9, |cos| >= 0.2 under tan, magnitudes <= 1e6)",
        "at an abs/sign kink the Jacobian is not judged; at a branch boundary the closed side is the selected branch",
        "a conditional constraint always has a final (else) expression",
        "an if_else is inside its domain of definition where its condition and its SELECTED branch are; the unselected branch may be "
        "undefined there (a regular share of generated if_else nodes guard sqrt/log/real powers/asin that way): residuals are judged, "
        "a NaN Jacobian entry at such a point is the recorded finding jacobian-nan-unselected-branch",
    ]

    def translate(self, ctx):
        # Gen/EvaluatorShape.lean: the opcode cases of `_evaluate`, the opcode constants, OperationEnum and the loop strides, re-read
        # from the current C++ / Python sources (Props/C15.lean §12 proves that this table IS the hand-written machine)
        import c15_evalshape
        sh = c15_evalshape.translate()
        ov = c15_evalshape.translate_overloads()   # Gen/OverloadShape.lean: the `if other == k: return …` shortcuts of ExpressionBase
        ctx.cov["overload_shape"] = {n: len(sc) for n, sc, fin in ov}
        ctx.cov["evaluator_shape"] = {"opcode_cases": len(sh["cases"]), "cpp_constants": len(sh["consts"]), "OperationEnum": len(sh["enum"]),
                                      "evaluate_updates": len(sh["strides"]["evaluate"][0]),
                                      "csr_updates": len(sh["strides"]["evaluate_csr_jacobian"][0])}

    # -- one batch: real runs, two driver passes, comparisons
    def batch(self, ctx, hists, tags):
        wntr = vlib.import_wntr()
        runs = []
        for h in hists:
            runs.append(Run(wntr, h, ctx).execute())
        broken, failures = [], []
        # phase 1
        lines, owner = [], []
        for ri, r in enumerate(runs):
            for li, l in enumerate(r.expr_lines):
                lines.append(l)
                owner.append((ri, li))
        out = vlib.lean_run("Drivers/AmlDriver.lean", "\n".join(lines) + "\n") if lines else []
        if len(out) != len(lines):
            raise vlib.Infra("AmlDriver returned %d lines for %d requests" % (len(out), len(lines)))
        p1 = [dict() for _ in runs]
        for (ri, li), o, l in zip(owner, out, lines):
            if o.startswith("bad-op"):
                raise vlib.Infra("AmlDriver rejected an expr line: %s\n%s" % (o, l[:300]))
            p1[ri][li] = parse_fields(o)
        for ri, r in enumerate(runs):
            for li, meta in enumerate(r.expr_meta):
                compare_expr(r, meta, p1[ri][li], broken, "history %s, expr line: %s" % (tags[ri], r.expr_lines[li][:400]))
        # phase 2
        lines, spans = [], []
        for ri, r in enumerate(runs):
            ls = phase2_lines(r, p1[ri])
            spans.append((len(lines), len(lines) + len(ls)))
            lines += ls
        out = vlib.lean_run("Drivers/AmlDriver.lean", "\n".join(lines) + "\n") if lines else []
        if len(out) != len(lines):
            raise vlib.Infra("AmlDriver returned %d lines for %d requests" % (len(out), len(lines)))
        for ri, r in enumerate(runs):
            a, b = spans[ri]
            compare_model(r, out[a:b], broken, "history %s" % tags[ri])
        for ri, r in enumerate(runs):
            seen = set()
            for raw in r.raw:
                if raw["key"] in seen:
                    continue
                seen.add(raw["key"])
                failures.append((raw, hists[ri], tags[ri]))
        return runs, failures, broken


    # -- crash-isolated entry points (see "crash isolation" above)
    def _histories(self, ctx_seed_rng, quick):
        """the same corpus + seeded histories `_correspondence_inproc` generates (the parent's rng was not advanced)"""
        hists, tags = [], []
        for fn, item in vlib.corpus_items("C15"):
            hists.append([totuple(op) for op in item["history"]])
            tags.append("corpus/" + fn)
        n = 150 if quick else 1200
        for k in range(n):
            hists.append(make_history(ctx_seed_rng, quick))
            tags.append("seed/%d" % k)
        return hists, tags

    def _guard(self, ctx, fn, regen):
        wntr = vlib.import_wntr()
        rng_state = ctx.rng.getstate()

        def go():
            out = fn()
            return out, _ctx_state(ctx)

        r = _in_child(go)
        if r[0] == "ok":
            out, st = r[1]
            ctx.hist, ctx.evaluations, ctx.distinct, ctx.samples = st["hist"], st["evaluations"], st["distinct"], st["samples"]
            ctx.cov.update(st["cov"])
            return out
        if r[0] == "infra":
            raise vlib.Infra(r[1])
        if r[0] == "brokentie":
            raise vlib.BrokenTie(r[1])
        if r[0] == "exc":
            raise vlib.Infra("C15 child raised:\n" + r[1])
        # the child was killed by a signal: find the history that does it
        ctx.rng.setstate(rng_state)
        hists, tags = regen()
        ctx.count("crash:signal-%s" % r[1])
        f = locate_crash(wntr, hists, tags)
        if f is None:
            raise vlib.Infra("the check's child process died with signal %s but no single history reproduces it" % r[1])
        return f

    def correspondence(self, ctx):
        out = self._guard(ctx, lambda: self._correspondence_inproc(ctx), lambda: self._histories(ctx.rng, ctx.quick))
        if isinstance(out, Failure):
            return [out], []
        return out

    def search(self, ctx, broken):
        def regen():
            hs = [make_history(ctx.rng, False) for _ in range(400 if ctx.quick else 3000)]
            return hs, ["search/%d" % k for k in range(len(hs))]
        out = self._guard(ctx, lambda: self._search_inproc(ctx, broken), regen)
        if isinstance(out, Failure):
            return [out]
        return out

    def replay(self, ctx, path):
        wntr = vlib.import_wntr()
        r = json.load(open(path if os.path.isabs(path) else os.path.join(vlib.VERIF, path)))
        rep = r.get("replay", {})
        if rep.get("crash"):
            hist = [totuple(op) for op in rep["history"]]
            for op in hist:
                print("  op", json.dumps(op, default=str)[:400])
            sig = crashes(wntr, hist)
            print("replay: %s" % ("REPRODUCED the evaluator kills the process with signal %s" % sig if sig is not None
                                  else "not reproduced on the current tree"))
            return 1 if sig is not None else 0
        res = _in_child(lambda: self._replay_inproc(ctx, path))
        if res[0] == "ok":
            return res[1]
        if res[0] == "signal":
            print("replay: REPRODUCED differently: the process was killed by signal %s" % res[1])
            return 1
        raise vlib.Infra("replay failed: %s" % (res[1],))

    def _correspondence_inproc(self, ctx):
        wntr = vlib.import_wntr()
        rng = ctx.rng
        hists, tags = [], []
        for fn, item in vlib.corpus_items("C15"):
            hists.append([totuple(op) for op in item["history"]])
            tags.append("corpus/" + fn)
        n = 150 if ctx.quick else 1200
        for k in range(n):
            hists.append(make_history(rng, ctx.quick))
            tags.append("seed%d/%d" % (ctx.seed, k))
        runs, fails, broken = self.batch(ctx, hists, tags)
        failures = []
        done = set()
        for raw, h, tag in fails:
            if raw["key"] in done:
                continue
            done.add(raw["key"])
            small = shrink(wntr, h, raw["key"], budget=250 if ctx.quick else 600)
            rr = [x for x in run_history_real(wntr, small).raw if x["key"] == raw["key"]]
            best = rr[0] if rr else raw
            failures.append(Failure(raw["key"], best["what"], {"history": small, "from": tag, "detail": best["detail"], "op_index": best["op_index"]}))
        # samples for the evidence
        for r in runs[:3]:
            for o in r.obs[:1]:
                if not o.get("bad"):
                    ctx.sample({"constraints": {c: json.dumps(r.live[c]["term"], default=str)[:200] for c in o["cids"] if c in r.live},
                                "con.index": o["cidx"], "var.index": o["vidx"], "residuals": o["res"], "csr": o["jac"]})
        failures += self.fold_stream(ctx, broken)
        # only a few Broken records are kept (one per name)
        uniq = {}
        for b in broken:
            uniq.setdefault(b.name, b)
        ctx.cov["histories"] = len(hists)
        ctx.cov["expr_lines"] = sum(len(r.expr_lines) for r in runs)
        return failures, list(uniq.values())

    def fold_stream(self, ctx, broken):
        wntr = vlib.import_wntr()
        import wntr.sim.aml.expr as E

        rng = ctx.rng
        vs = [E.Var(1.0) for _ in range(3)]
        ps = [E.Param(1.0) for _ in range(2)]
        refl = Reflect(E, vs, ps)
        n = 300 if ctx.quick else 3000
        terms, reals = [], []
        for _ in range(n):
            t = gen_fold(rng, rng.choice([1, 2, 2, 3]))
            try:
                r = fold_real(E, t, vs, ps)
                if type(r) is complex:
                    continue
                real = ("num", float(r)) if type(r) in (int, float, bool) else ("ex", refl.tree(r))
            except NotRational:
                continue
            except (ZeroDivisionError, ValueError, OverflowError):
                real = None
            except AssertionError:
                continue  # `if_else` on a non-relational object: not a valid call
            terms.append(t)
            reals.append(real)
        out = vlib.lean_run("Drivers/AmlDriver.lean", "\n".join("fold " + fold_wire(t) for t in terms) + "\n")
        for t, real, o in zip(terms, reals, out):
            ctx.count("fold:" + ("error" if real is None else real[0]))
            model = parse_sval(o)
            ok = (model is None) == (real is None)
            if ok and model is not None:
                if model[0] != real[0]:
                    ok = False
                elif model[0] == "num":
                    ok = close(float(model[1]), real[1], 0.0, 1e-12)
                else:
                    ok = trees_equal(model[1], real[1])
            if not ok:
                broken.append(Broken("correspondence", "C15 overload folding", "term %s\nimplementation %s\nLean %s" % (fold_wire(t), real, o)))
                break
        return []

    def _search_inproc(self, ctx, broken):
        """wider failing-input search on the real implementation only (oracle = dual numbers)"""
        wntr = vlib.import_wntr()
        found = {}
        for k in range(400 if ctx.quick else 3000):
            h = make_history(ctx.rng, False)
            r = run_history_real(wntr, h)
            for raw in r.raw:
                if raw["key"] not in found:
                    small = shrink(wntr, h, raw["key"], budget=60)
                    rr = [x for x in run_history_real(wntr, small).raw if x["key"] == raw["key"]]
                    best = rr[0] if rr else raw
                    found[raw["key"]] = Failure(raw["key"], best["what"], {"history": small, "detail": best["detail"], "op_index": best["op_index"]})
        return list(found.values())

    def _replay_inproc(self, ctx, path):
        wntr = vlib.import_wntr()
        r = json.load(open(path if os.path.isabs(path) else os.path.join(vlib.VERIF, path)))
        rep = r.get("replay", {})
        if "history" not in rep:
            print(json.dumps(r, indent=1)[:3000])
            print("replay: nothing to execute (no failing input was recorded)")
            return 0
        hist = [totuple(op) for op in rep["history"]]
        for op in hist:
            print("  op", json.dumps(op, default=str)[:400])
        run = run_history_real(wntr, hist)
        hit = [x for x in run.raw if x["key"] == r.get("key")]
        for x in run.raw:
            print("  observed:", x["key"], "-", x["what"][:400])
        print("replay: %s" % ("REPRODUCED " + hit[0]["what"] if hit else "not reproduced on the current tree"))
        return 1 if hit else 0


if __name__ == "__main__":
    vlib.run_check(C15)
