"""C13 -- to_dict/from_dict and write_json/read_json reproduce the model exactly.

Tie (T): `Gen/SchemaDict.lean` is regenerated on every run: per element class the keys `to_dict` EMITS (reflection on
populated instances built through the API) and the way `from_dict` USES each key (Python `ast` of
wntr/network/io.py:from_dict -- passed to which argument of which call, assigned to which attribute, under a guard or
not), plus the attribute values of an element re-created from a minimal dictionary (defaults).
Props/C13.lean proves the round trip for every object / every list of elements from the table condition and decides
the condition on the generated tables.
Tie (C) + oracle: seeded API-built models and the example INP files: to_dict(from_dict(to_dict(wn))) (plain, through
JSON text, through write_json/read_json files, appended to an empty model) compared key by key with the original after
the documented normalisations; the Lean driver predicts per element which keys survive.
"""
import ast
import copy
import io as _io
import json
import os
import re
import sys

sys.path.insert(0, os.path.dirname(os.path.dirname(os.path.abspath(__file__))))
sys.path.insert(0, os.path.dirname(os.path.abspath(__file__)))
import vlib
from vlib import BrokenTie, Broken, Failure, Check
import c12c13_gen as G

SEP = "\x1f"

# ------------------------------------------------------------------------------------------------ translator


def zoo_spec():
    """one populated element of every emission class"""
    return {
        "patterns": [{"name": "p1", "mult": [1.0, 2.0]}],
        "curves": [{"name": "hc", "type": "HEAD", "pts": [[0.0, 30.0], [0.05, 20.0], [0.1, 5.0]]},
                   {"name": "gc", "type": "HEADLOSS", "pts": [[0.0, 0.0], [0.1, 5.0]]}],
        "junctions": [{"name": "J1", "elev": 1.0, "coords": [1.0, 2.0], "demands": [[0.01, "p1", "c"]]},
                      {"name": "J2", "elev": 1.0, "coords": [3.0, 2.0], "demands": [[0.01, None, None]]}],
        "tanks": [{"name": "T1", "elev": 20.0, "init": 3.0, "min": 1.0, "max": 5.0, "diam": 10.0, "minvol": 0.0, "overflow": False, "coords": [5.0, 5.0]}],
        "reservoirs": [{"name": "R1", "head": 50.0, "pat": "p1", "coords": [0.0, 0.0]}],
        "pipes": [{"name": "P1", "a": "J1", "b": "J2", "len": 100.0, "diam": 0.3, "rough": 100.0, "mloss": 0.0, "status": "OPEN", "cv": False, "vertices": []}],
        "pumps": [{"name": "PUH", "a": "R1", "b": "J1", "type": "HEAD", "param": "hc", "speed": 1.0, "pat": None, "status": "OPEN", "vertices": []},
                  {"name": "PUP", "a": "R1", "b": "J1", "type": "POWER", "param": 1000.0, "speed": 1.0, "pat": None, "status": "OPEN", "vertices": []}],
        "valves": [{"name": "VP", "a": "J1", "b": "J2", "diam": 0.2, "type": "PRV", "mloss": 0.0, "setting": 10.0, "status": "ACTIVE", "vertices": []},
                   {"name": "VG", "a": "J1", "b": "J2", "diam": 0.2, "type": "GPV", "mloss": 0.0, "setting": "gc", "status": "ACTIVE", "vertices": []}],
        "sources": [{"name": "S1", "node": "J1", "type": "CONCEN", "strength": 1.0, "pat": "p1"}],
        "controls": [],
        "options": {},
    }


ZOO_CLASS = {"J1": "Junction", "T1": "Tank", "R1": "Reservoir", "P1": "Pipe", "PUH": "HeadPump", "PUP": "PowerPump", "VP": "Valve", "VG": "GPValve"}
BRANCH_CLASSES = {  # from_dict branch (section, type string) -> emission classes it serves
    ("nodes", "Junction"): ["Junction"], ("nodes", "Tank"): ["Tank"], ("nodes", "Reservoir"): ["Reservoir"],
    ("links", "Pipe"): ["Pipe"], ("links", "Pump"): ["HeadPump", "PowerPump"], ("links", "Valve"): ["Valve", "GPValve"],
    ("curves", None): ["Curve"], ("patterns", None): ["Pattern"], ("sources", None): ["Source"],
}


def class_of_element(e):
    if "node_type" in e:
        return e["node_type"]
    if e.get("link_type") == "Pump":
        return "HeadPump" if e.get("pump_type") == "HEAD" else "PowerPump"
    if e.get("link_type") == "Valve":
        return "GPValve" if e.get("valve_type") == "GPV" else "Valve"
    return e.get("link_type")


def reflect_emitted(wntr):
    wn = G.realise(wntr, zoo_spec())
    d = wntr.network.to_dict(wn)
    em = {}
    for e in d["nodes"] + d["links"]:
        if e["name"] in ZOO_CLASS:
            em[ZOO_CLASS[e["name"]]] = list(e.keys())
    em["Curve"] = list(d["curves"][0].keys())
    em["Pattern"] = list(d["patterns"][0].keys())
    em["Source"] = list(d["sources"][0].keys())
    # defaults: the attribute values of an element created through the API with the required arguments only
    # (what an attribute keeps when from_dict calls add_* and then does not touch it)
    w = wntr.network.WaterNetworkModel()
    w.add_curve("hc", "HEAD", [(0.0, 30.0), (0.05, 20.0), (0.1, 5.0)])
    w.add_curve("gc", "HEADLOSS", [(0.0, 0.0), (0.1, 5.0)])
    w.add_junction("J1")
    w.add_junction("J2")
    w.add_tank("T1")
    w.add_reservoir("R1")
    w.add_pipe("P1", "J1", "J2")
    w.add_pump("PUH", "R1", "J1", "HEAD", "hc")
    w.add_pump("PUP", "R1", "J1", "POWER", 1000.0)
    w.add_valve("VP", "J1", "J2", valve_type="PRV")
    w.add_valve("VG", "J1", "J2", valve_type="GPV", initial_setting="gc")
    d2 = G.jsonify(wntr.network.to_dict(w))
    dfl = {}
    for e in d2["nodes"] + d2["links"]:
        if e["name"] in ZOO_CLASS:
            dfl[ZOO_CLASS[e["name"]]] = {k: json.dumps(v, sort_keys=True) for k, v in e.items()}
    return em, dfl


class _FromDictReader:
    """ast of from_dict -> rows (class, key, use, target, xform)"""

    def __init__(self, src):
        tree = ast.parse(src)
        fn = [n for n in tree.body if isinstance(n, ast.FunctionDef) and n.name == "from_dict"]
        if not fn:
            raise BrokenTie("wntr/network/io.py has no function from_dict")
        self.fn = fn[0]
        self.rows = {}  # class -> list of (key, use, target, xform)

    # --- helpers
    @staticmethod
    def _const_str(n):
        return n.value if isinstance(n, ast.Constant) and isinstance(n.value, str) else None

    def keys_of(self, expr, elem, env, seen=None):
        """keys of the element dictionary `elem` (and of resolved local names) an expression reads"""
        out = []
        seen = seen or set()
        for n in ast.walk(expr):
            if isinstance(n, ast.Subscript) and isinstance(n.value, ast.Name) and n.value.id == elem:
                k = self._const_str(n.slice)
                if k is not None:
                    out.append(k)
            elif (isinstance(n, ast.Call) and isinstance(n.func, ast.Attribute) and n.func.attr in ("setdefault", "get")
                  and isinstance(n.func.value, ast.Name) and n.func.value.id == elem and n.args):
                k = self._const_str(n.args[0])
                if k is not None:
                    out.append(k)
            elif isinstance(n, ast.Name) and n.id in env and n.id not in seen:
                for e2 in env[n.id]:
                    out += self.keys_of(e2, elem, env, seen | {n.id})
        res = []
        for k in out:
            if k not in res:
                res.append(k)
        return res

    @staticmethod
    def xform_of(expr, elem):
        """"" when the expression is the dictionary read itself (possibly a conditional between reads or a local name);
        "tuples" for `[tuple(p) for p in <read>]`; otherwise the source text"""
        def plain(e):
            if isinstance(e, ast.Name):
                return True
            if isinstance(e, ast.Subscript):
                return plain(e.value) or isinstance(e.value, ast.Name)
            if isinstance(e, ast.Call) and isinstance(e.func, ast.Attribute) and e.func.attr in ("setdefault", "get"):
                return True
            if isinstance(e, ast.IfExp):
                return plain(e.body) and plain(e.orelse)
            return False

        if plain(expr):
            return ""
        if (isinstance(expr, ast.ListComp) and len(expr.generators) == 1 and isinstance(expr.elt, ast.Call)
                and isinstance(expr.elt.func, ast.Name) and expr.elt.func.id == "tuple" and plain(expr.generators[0].iter)
                and not expr.generators[0].ifs):
            return "tuples"
        return ast.unparse(expr)[:60]

    def read_body(self, body, elem, classes, guarded=False, env=None):
        env = {} if env is None else env
        # first pass: local assignments name = expr (anywhere in the body, including nested ifs)
        for st in body:
            for n in ast.walk(st):
                if isinstance(n, ast.Assign) and len(n.targets) == 1 and isinstance(n.targets[0], ast.Name):
                    env.setdefault(n.targets[0].id, []).append(n.value)
        self._stmts(body, elem, classes, guarded, env)

    def _add(self, classes, key, use, target, xform):
        for c in classes:
            r = (key, use, target, xform)
            if r not in self.rows.setdefault(c, []):
                self.rows[c].append(r)

    def _calls(self, node, elem, classes, env):
        for n in ast.walk(node):
            if isinstance(n, ast.Call) and isinstance(n.func, ast.Attribute) and n.func.attr.startswith("add_"):
                own = n.func.attr
                is_wn = isinstance(n.func.value, ast.Name) and n.func.value.id == "wn"
                for i, a in enumerate(n.args):
                    for k in self.keys_of(a, elem, env):
                        self._add(classes, k, "ctor", str(i) if is_wn else "%s.%d" % (own, i), self.xform_of(a, elem))
                for kw in n.keywords:
                    for k in self.keys_of(kw.value, elem, env):
                        self._add(classes, k, "ctor", kw.arg if is_wn else "%s.%s" % (own, kw.arg), self.xform_of(kw.value, elem))

    def _stmts(self, body, elem, classes, guarded, env):
        for st in body:
            if isinstance(st, ast.Assign) and len(st.targets) == 1 and isinstance(st.targets[0], ast.Attribute) \
                    and isinstance(st.targets[0].value, ast.Name) and st.targets[0].value.id not in (elem, "wn"):
                for k in self.keys_of(st.value, elem, env):
                    self._add(classes, k, "guarded" if guarded else "assign", st.targets[0].attr, self.xform_of(st.value, elem))
            elif isinstance(st, ast.Expr):
                self._calls(st, elem, classes, env)
            elif isinstance(st, ast.Assign):
                self._calls(st, elem, classes, env)
            elif isinstance(st, ast.If):
                self._stmts(st.body, elem, classes, True, env)
                self._stmts(st.orelse, elem, classes, True, env)
            elif isinstance(st, ast.For):
                # `for attr in list(set(node.keys()) - set(dir(j))): setattr(...)` (custom attributes) restores nothing emitted
                if any(isinstance(n, ast.Call) and isinstance(n.func, ast.Name) and n.func.id == "setattr" for n in ast.walk(st)):
                    continue
                self._stmts(st.body, elem, classes, guarded, env)

    def run(self):
        found = set()
        for st in ast.walk(self.fn):
            if not (isinstance(st, ast.For) and isinstance(st.target, ast.Name) and isinstance(st.iter, ast.Subscript)
                    and isinstance(st.iter.value, ast.Name) and st.iter.value.id == "d"):
                continue
            sec = self._const_str(st.iter.slice)
            elem = st.target.id
            if sec in ("curves", "patterns", "sources"):
                self.read_body(st.body, elem, BRANCH_CLASSES[(sec, None)])
                found.add((sec, None))
            elif sec in ("nodes", "links"):
                tkey = "node_type" if sec == "nodes" else "link_type"
                # statements before the if-chain (name = node["name"]) are shared by every branch
                pre = [s for s in st.body if not isinstance(s, ast.If)]
                chain = [s for s in st.body if isinstance(s, ast.If)]
                if len(chain) != 1:
                    raise BrokenTie("from_dict: expected one if/elif chain over %s in the %s loop" % (tkey, sec))
                node = chain[0]
                while isinstance(node, ast.If):
                    t = node.test
                    ok = (isinstance(t, ast.Compare) and len(t.ops) == 1 and isinstance(t.ops[0], ast.Eq)
                          and self.keys_of(t.left, elem, {}) == [tkey] and self._const_str(t.comparators[0]) is not None)
                    if not ok:
                        raise BrokenTie("from_dict: branch test not of the form %s[%r] == '<Type>': %s" % (elem, tkey, ast.unparse(t)))
                    typ = self._const_str(t.comparators[0])
                    if (sec, typ) not in BRANCH_CLASSES:
                        raise BrokenTie("from_dict: unknown element type branch %r" % typ)
                    classes = BRANCH_CLASSES[(sec, typ)]
                    self._add(classes, tkey, "dispatch", "", "")
                    self.read_body(pre + node.body, elem, classes)
                    found.add((sec, typ))
                    node = node.orelse[0] if len(node.orelse) == 1 and isinstance(node.orelse[0], ast.If) else None
        missing = set(BRANCH_CLASSES) - found
        if missing:
            raise BrokenTie("from_dict: no code found that re-creates %s" % sorted(missing, key=str))
        return self.rows


def read_from_dict_rows():
    src = open(os.path.join(vlib.REPO, "wntr", "network", "io.py")).read()
    return _FromDictReader(src).run()


def _ls(s):
    return json.dumps(s, ensure_ascii=True)


def gen_schema_lean(em, dfl, rows):
    order = ["Junction", "Tank", "Reservoir", "Pipe", "HeadPump", "PowerPump", "Valve", "GPValve", "Curve", "Pattern", "Source"]
    out = ["-- GENERATED by harness/props/c13.py from wntr/network/io.py:from_dict (ast) and to_dict (reflection). Do not edit.",
           "import WntrModel.Model.Schema", "namespace Wntr.Schema.Gen", "open Wntr.Schema", ""]
    names = []
    for c in order:
        if c not in em:
            raise BrokenTie("no emitted key set for class %s" % c)
        nm = "t" + c
        names.append(nm)
        out.append("def %s : ClassTable :=" % nm)
        out.append("  { cls := %s," % _ls(c))
        out.append("    emitted := [%s]," % ", ".join(_ls(k) for k in em[c]))
        rs = []
        for (k, use, target, xf) in rows.get(c, []):
            u = ".dispatch" if use == "dispatch" else "(.%s %s)" % (use, _ls(target))
            rs.append("      { key := %s, use := %s, xform := %s }" % (_ls(k), u, _ls(xf)))
        out.append("    rows := [\n%s]," % ",\n".join(rs))
        ds = ["(%s, %s)" % (_ls(k), _ls(v)) for k, v in dfl.get(c, {}).items()]
        out.append("    defaults := [%s] }" % ", ".join(ds))
        out.append("")
    out.append("def tables : List ClassTable := [%s]" % ", ".join(names))
    out.append("")
    out.append("end Wntr.Schema.Gen")
    return "\n".join(out) + "\n"


# ------------------------------------------------------------------------------------------------ normalisation (the statement's)


def normalise(d, default_pattern):
    """the documented normalisations applied to the ORIGINAL dictionary: JSON (tuples -> lists), empty pattern names
    -> None, a junction without demands -> one zero demand (API default: no category, the default pattern)."""
    d = G.jsonify(d)
    for n in d["nodes"]:
        if n.get("node_type") == "Junction":
            dl = n.get("demand_timeseries_list")
            if dl is not None and len(dl) == 0:
                n["demand_timeseries_list"] = [{"base_val": 0.0, "pattern_name": default_pattern, "category": None}]
                n["base_demand"], n["demand_pattern"], n["demand_category"] = 0.0, default_pattern, None
                n["_no_demands"] = True
    _empty_names(d)
    return d


def _empty_names(d):
    for n in d["nodes"]:
        for ts in n.get("demand_timeseries_list") or []:
            if ts.get("pattern_name") == "":
                ts["pattern_name"] = None
        for k in ("demand_pattern", "head_pattern_name"):
            if n.get(k) == "":
                n[k] = None
    for l in d["links"]:
        if l.get("speed_pattern_name") == "":
            l["speed_pattern_name"] = None
    for s in d["sources"]:
        if s.get("pattern") == "":
            s["pattern"] = None
    return d


def compare(orig_norm, new):
    """differences between the normalised original and the re-created dictionary; returns list of (class, path, key, old, new)"""
    new = _empty_names(G.jsonify(new))
    out = []
    o = copy.deepcopy(orig_norm)
    for n, m in zip(o["nodes"], new["nodes"]):
        if n.pop("_no_demands", False):
            # part of the documented case: the re-created junction carries the looked-up `pattern_name` key
            m.pop("pattern_name", None)
    for sec in ("nodes", "links", "curves", "patterns", "sources"):
        a, b = o.get(sec, []), new.get(sec, [])
        if [e.get("name") for e in a] != [e.get("name") for e in b]:
            out.append((sec, "/" + sec, "#names", [e.get("name") for e in a], [e.get("name") for e in b]))
            continue
        for ea, eb in zip(a, b):
            cls = class_of_element(ea) if sec in ("nodes", "links") else sec[:-1].capitalize()
            for (p, x, y) in G.diff(ea, eb):
                key = p.split("/")[1].split("[")[0].split("#")[0] if p.startswith("/") else p
                out.append((cls, "/%s[%s]%s" % (sec, ea.get("name"), p), key, x, y))
    for (p, x, y) in G.diff(o.get("options"), new.get("options")):
        out.append(("Options", "/options" + p, p.strip("/").replace("/", "."), x, y))
    ca, cb = o.get("controls", []), new.get("controls", [])
    if len(ca) != len(cb):
        out.append(("Controls", "/controls", "#len", len(ca), len(cb)))
    else:
        for i, (x, y) in enumerate(zip(ca, cb)):
            for (p, u, v) in G.diff(x, y):
                out.append(("Control:" + str(x.get("type")), "/controls[%d]%s" % (i, p), p.strip("/").split("[")[0], u, v))
    for k in ("name", "references", "comment", "version"):
        if o.get(k) != new.get(k):
            out.append(("Model", "/" + k, k, o.get(k), new.get(k)))
    return out


def classify(cls, key, old, new, spec_ctrl=None):
    """stable failure key for one difference"""
    if cls.startswith("Control"):
        # the statement is about the DICTIONARY: the two condition TEXTS are compared as they are; when they differ in
        # spacing only, the spacing shows another nesting of AND/OR (str() of And/OrCondition pads its operands) -- the
        # dictionary path wrote the tree in order until fb98e708
        if key == "condition" and isinstance(old, str) and isinstance(new, str) and old.split() == new.split():
            return "rule-condition-mixed-and-or-regrouped"
        return "control-%s-%s" % (cls.split(":")[1], key)
    return "from_dict-%s-%s" % (cls, key)


# ------------------------------------------------------------------------------------------------ the check


class C13(Check):
    pid = "C13"
    level = "proof"
    prop_modules = ["WntrModel.Props.C13"]
    manifest = dict(
        category="proof",
        text="Lean theorems: for ANY list of elements, to_dict(from_dict(to_dict m)) = norm(to_dict m) provided every emitted key is "
        "restored faithfully or recomputed (dict_roundtrip_generic / dict_roundtrip_tables), and that condition is decided on the tables "
        "regenerated from the current from_dict (ast) and to_dict (reflection) on every run (dict_tables_ok); append-to-empty equals "
        "create; the rule text form (AND of OR-groups since fb98e708) re-parses to the normal form of EVERY condition tree, with the same "
        "groups and truth value (the old in-order text is kept as pinned counterexample). The real from_dict / JSON / read_json / append paths are run on generated API-built models "
        "and the example INP files and compared key by key.",
        design_ref="DESIGN.md §5 C13",
        note="modelled, not verified: attribute values are opaque (the per-type setters/validators of elements.py are exercised by the "
        "correspondence only); options are restored by Options.__init__(**d) and checked by the correspondence only; a truthiness-guarded "
        "assignment is taken as faithful for truthy values; trusted: the ast/reflection translator in harness/props/c13.py",
        technique="Lean 4 proof over translator-regenerated schema tables + differential run against the Lean driver + round-trip oracle on the implementation",
    )
    rule = ("obligations: theorems of Props/C13.lean over Gen/SchemaDict.lean. correspondence cases: (model, path) with path in "
            "{dict, json text, write_json/read_json file, append to empty, the same dict object created-from and then appended}; distinct = distinct feature signature of the generated model; "
            "non-trivial = the model has at least one of vertices / several demands / leak / rule with ELSE / source / curve")
    trusted_base = ["translator harness/props/c13.py (ast of from_dict, reflection of to_dict on a populated zoo model)",
                    "Python dict/JSON semantics; element attribute setters (exercised, not modelled)"]
    assumptions = ["attribute values are opaque to the model: a restored key is assumed to be stored and re-emitted unchanged up to the JSON normalisation",
                   "derived keys (Junction.base_demand/demand_pattern/demand_category, GPValve.headloss_curve) are functions of restored attributes"]

    def translate(self, ctx):
        wntr = vlib.import_wntr()
        em, dfl = reflect_emitted(wntr)
        rows = read_from_dict_rows()
        self.em, self.rows = em, rows
        ctx.cov["schema_classes"] = len(em)
        ctx.cov["schema_rows"] = sum(len(v) for v in rows.values())
        vlib.write_if_changed(os.path.join(vlib.GEN, "SchemaDict.lean"), gen_schema_lean(em, dfl, rows))

    # ---------------------------------------------------------------- cases
    def _cases(self, ctx, wntr):
        """yield (label, spec_or_None, wn builder)"""
        for fn, item in vlib.corpus_items("C13"):
            yield ("corpus:" + fn, item["spec"], None)
        n = 25 if ctx.quick else 150
        for i in range(n):
            sp = G.gen_spec(ctx.rng, size=1 if i % 3 else 2, inp_only=False, exotic=0.5 if i % 5 == 0 else 0.0)
            yield ("gen%d" % i, sp, None)
        nets = ["Net1.inp", "Net2.inp", "Net3.inp"] + ([] if ctx.quick else ["Net6.inp", "ky10.inp"])
        for nm in nets:
            p = os.path.join(vlib.REPO, "examples", "networks", nm)
            if os.path.exists(p):
                yield ("inp:" + nm, None, p)
        # a model that has been SIMULATED (and not reset) is still a model "readable from an INP file": its run-time state
        # (heads, demands, leak demand, statuses) must not leak into the dictionary
        for nm in ["Net1.inp"] + ([] if ctx.quick else ["Net3.inp"]):
            p = os.path.join(vlib.REPO, "examples", "networks", nm)
            if os.path.exists(p):
                yield ("inp+sim:" + nm, None, p)

    def _roundtrips(self, wntr, wn, d0, tmpdir):
        """the four paths of the statement; each returns the dictionary of the re-created model or raises"""
        def p_dict():
            return wntr.network.to_dict(wntr.network.from_dict(copy.deepcopy(d0)))

        def p_json():
            return wntr.network.to_dict(wntr.network.from_dict(json.loads(json.dumps(d0))))

        def p_file():
            fn = os.path.join(tmpdir, "m.json")
            wntr.network.write_json(wn, fn)
            try:
                return wntr.network.to_dict(wntr.network.read_json(fn))
            finally:
                if os.path.exists(fn):
                    os.remove(fn)

        def p_append():
            empty = wntr.network.WaterNetworkModel()
            return wntr.network.to_dict(wntr.network.from_dict(copy.deepcopy(d0), append=empty))

        def p_reuse():
            # the same dictionary object used twice: create a model from it, then append it to an empty model
            # ("appending a dictionary to an empty model equals creating the model from it")
            d = copy.deepcopy(d0)
            wntr.network.from_dict(d)
            empty = wntr.network.WaterNetworkModel()
            return wntr.network.to_dict(wntr.network.from_dict(d, append=empty))

        return [("dict", p_dict), ("json", p_json), ("file", p_file), ("append", p_append), ("reuse", p_reuse)]

    def correspondence(self, ctx):
        wntr = vlib.import_wntr()
        failures, broken = [], []
        tmpdir = os.path.join(vlib.BUILD, "tmp-%d" % os.getpid())
        os.makedirs(tmpdir, exist_ok=True)
        lines, expect = [], []
        try:
            for label, sp, path in self._cases(ctx, wntr):
                try:
                    wn = G.realise(wntr, sp) if sp is not None else wntr.network.read_inpfile(path)
                    if sp is not None and ctx.rng.random() < 0.3 and wn.num_junctions > 0:
                        # a leak that was added and removed again: remove_leak keeps leak_area / leak_discharge_coeff
                        jn = wn.get_node(wn.junction_name_list[0])
                        if not jn._leak:
                            jn.add_leak(wn, 0.0125, 0.6, 3600, 7200)
                            jn.remove_leak(wn)
                            ctx.count("case:leak-added-and-removed")
                    if label.startswith("inp+sim:"):
                        wn.options.time.duration = 2 * wn.options.time.hydraulic_timestep
                        node0 = wn.junction_name_list[0]
                        wn.get_node(node0).add_leak(wn, 0.0005, 0.75, 0, None)  # an active leak at the end of the run
                        wntr.sim.WNTRSimulator(wn).run_sim()
                        ctx.count("case:simulated-before-to_dict")
                except Exception as e:
                    raise vlib.Infra("generator produced a model the API refuses (%s): %s: %s" % (label, type(e).__name__, e))
                if sp is not None:
                    feats = G.features(sp)
                    for f in feats:
                        ctx.count("feat:" + f.split("=")[0] if f.startswith("rule:priority") else "feat:" + f)
                    sig = tuple(sorted(feats))
                    nontriv = any(f.endswith("vertices") or f.endswith("leak") or f == "rule:else" or f.startswith("source") for f in feats)
                else:
                    sig, nontriv = (label,), True
                try:
                    d0 = wntr.network.to_dict(wn)
                    json.dumps(d0)
                except Exception as e:
                    failures.append(Failure("to_dict-raises-" + type(e).__name__, "to_dict / JSON encoding of an API-built model raises %s: %s" % (type(e).__name__, e),
                                            {"case": label, "spec": sp, "observed": repr(e)}))
                    continue
                dn = normalise(d0, wn.options.hydraulic.pattern or None)
                for pname, fn in self._roundtrips(wntr, wn, d0, tmpdir):
                    ctx.case(sig + (pname,), nontriv)
                    ctx.count("path:" + pname)
                    try:
                        d2 = fn()
                    except Exception as e:
                        key = "from_dict-raises-%s-%s" % (type(e).__name__, _exc_class(e))
                        failures.append(Failure(key, "re-creating the model from its own dictionary raises %s: %s (path %s)" % (type(e).__name__, str(e)[:120], pname),
                                                {"case": label, "path": pname, "spec": sp, "inp": path, "observed": "%s: %s" % (type(e).__name__, e),
                                                 "expected": "to_dict(from_dict(d)) == normalised d"}))
                        ctx.count("outcome:raises")
                        continue
                    diffs = compare(dn, d2)
                    ctx.count("outcome:" + ("equal" if not diffs else "differs"))
                    for (cls, p, key, old, new) in diffs:
                        failures.append(Failure(classify(cls, key, old, new),
                                                "dictionary of the re-created model differs at %s: %r -> %r (path %s)" % (p, old, new, pname),
                                                {"case": label, "path": pname, "where": p, "observed": new, "expected": old, "spec": sp, "inp": path}))
                    if pname == "dict":
                        # model prediction per element (Lean driver) vs what the implementation did
                        d2j = _empty_names(G.jsonify(d2))
                        for sec in ("nodes", "links", "curves", "patterns", "sources"):
                            if [e.get("name") for e in dn[sec]] != [e.get("name") for e in d2j[sec]]:
                                continue
                            for ea, eb in zip(dn[sec], d2j[sec]):
                                cls = class_of_element(ea) if sec in ("nodes", "links") else sec[:-1].capitalize()
                                ea = {k: v for k, v in ea.items() if k != "_no_demands"}
                                lines.append(cls + "\t" + "\t".join(k + SEP + json.dumps(v, sort_keys=True) for k, v in ea.items()))
                                expect.append((label, cls, ea, eb))
                if len(ctx.samples) < 4 and sp is not None:
                    ctx.sample({"case": label, "features": sorted(G.features(sp))[:25], "elements": len(d0["nodes"]) + len(d0["links"]), "controls": len(d0["controls"])})
        finally:
            try:
                for f in os.listdir(tmpdir):
                    os.remove(os.path.join(tmpdir, f))
                os.rmdir(tmpdir)
            except OSError:
                pass
        # ---- correspondence with the Lean model
        if lines:
            out = vlib.lean_run("Drivers/SchemaDriver.lean", "\n".join(lines) + "\n")
            if len(out) != len(lines):
                raise vlib.Infra("SchemaDriver returned %d lines for %d requests" % (len(out), len(lines)))
            nmis = 0
            for (label, cls, ea, eb), line in zip(expect, out):
                if line.startswith("bad"):
                    broken.append(Broken("correspondence", "SchemaDriver", "driver rejected class %s: %s" % (cls, line)))
                    break
                model = dict(kv.split(SEP, 1) for kv in line.split("\t") if SEP in kv)
                for k, mv in model.items():
                    if mv == "<derived>":
                        continue
                    iv = json.dumps(eb.get(k, None), sort_keys=True) if k in eb else "<absent>"
                    ctx.count("model-vs-impl:" + ("agree" if mv == iv else "disagree"))
                    if mv != iv and nmis < 5:
                        nmis += 1
                        broken.append(Broken("correspondence", "SchemaDriver %s.%s" % (cls, k),
                                             "model predicts %s after the round trip, implementation gives %s (case %s, element %s)" % (mv, iv, label, ea.get("name"))))
        # de-duplicate failures per key keeping the first (smallest) one
        return failures, broken

    def search(self, ctx, broken):
        # a broken table proof names the pairs: turn them into a concrete model through the zoo
        wntr = vlib.import_wntr()
        out = []
        sp = zoo_spec()
        for sec in ("pipes", "pumps", "valves"):
            for e in sp[sec]:
                e.update(tag="t", iq=0.001, vertices=[[1.0, 1.0]])
        sp["tanks"][0].update(mix="2COMP", frac=0.5, leak=[0.01, 0.75, None, None], tag="t", iq=0.001, bulk=-1e-6)
        sp["junctions"][0].update(tag="t", iq=0.001, emitter=0.001, leak=[0.01, 0.75, None, None], pdd=[1.0, 20.0, 0.5])
        sp["reservoirs"][0].update(tag="t", iq=0.001)
        try:
            wn = G.realise(wntr, sp)
            d0 = wntr.network.to_dict(wn)
            dn = normalise(d0, None)
            d2 = wntr.network.to_dict(wntr.network.from_dict(json.loads(json.dumps(d0))))
            for (cls, p, key, old, new) in compare(dn, d2):
                out.append(Failure(classify(cls, key, old, new), "dictionary of the re-created model differs at %s: %r -> %r" % (p, old, new),
                                   {"case": "zoo", "spec": sp, "where": p, "observed": new, "expected": old}))
        except Exception as e:
            out.append(Failure("from_dict-raises-%s-%s" % (type(e).__name__, _exc_class(e)), "from_dict(to_dict(zoo model)) raises %s: %s" % (type(e).__name__, e),
                               {"case": "zoo", "spec": sp, "observed": repr(e)}))
        return out

    def replay(self, ctx, path):
        wntr = vlib.import_wntr()
        r = json.load(open(path if os.path.isabs(path) else os.path.join(vlib.VERIF, path)))
        rp = r.get("replay", {})
        print(json.dumps({k: v for k, v in r.items() if k != "replay"}, indent=1)[:2000])
        sp = rp.get("spec")
        wn = G.realise(wntr, sp) if sp else wntr.network.read_inpfile(rp["inp"])
        d0 = wntr.network.to_dict(wn)
        dn = normalise(d0, wn.options.hydraulic.pattern or None)
        hit = []
        for pname, mk in (("dict", lambda: copy.deepcopy(d0)), ("json", lambda: json.loads(json.dumps(d0)))):
            try:
                d2 = wntr.network.to_dict(wntr.network.from_dict(mk()))
                for (cls, p, key, old, new) in compare(dn, d2):
                    if classify(cls, key, old, new) == r.get("key"):
                        hit.append("%s: %s %r -> %r" % (pname, p, old, new))
            except Exception as e:
                if "from_dict-raises-%s-%s" % (type(e).__name__, _exc_class(e)) == r.get("key"):
                    hit.append("%s: raises %s: %s" % (pname, type(e).__name__, e))
        print("replay: %s" % ("REPRODUCED " + hit[0] if hit else "not reproduced on the current tree"))
        return 1 if hit else 0


def _exc_class(e):
    s = str(e)
    if "vertices" in s:
        return "vertices"
    if "Mixing model" in s:
        return "mixing_model"
    if "not recognized" in s:
        return "control-not-recognized"
    if isinstance(e, KeyError):
        return "element-lookup"
    return re.sub(r"[^A-Za-z]+", "-", s)[:30].strip("-")


if __name__ == "__main__":
    vlib.run_check(C13)
