"""C13 -- to_dict/from_dict and write_json/read_json reproduce the model exactly.

Tie (T): `Gen/SchemaDict.lean` is regenerated on every run: per element class the keys `to_dict` EMITS (reflection on
populated instances built through the API) and the way `from_dict` USES each key (Python `ast` of
wntr/network/io.py:from_dict -- passed to which argument of which call, assigned to which attribute, under a guard or
not), plus the attribute values of an element re-created from a minimal dictionary (defaults).
Props/C13.lean proves the round trip for every object / every list of elements from the table condition and decides
the condition on the generated tables.
Tie (C) + oracle: seeded API-built models and the example INP files: to_dict(from_dict(to_dict(wn))) (plain, through
JSON text, through write_json/read_json files, appended to an empty model) compared key by key with the original after
the documented normalisations; the Lean driver predicts per element which keys survive.
"""
import ast
import copy
import io as _io
import json
import os
import re
import sys

sys.path.insert(0, os.path.dirname(os.path.dirname(os.path.abspath(__file__))))
sys.path.insert(0, os.path.dirname(os.path.abspath(__file__)))
import vlib
from vlib import BrokenTie, Broken, Failure, Check
import c12c13_gen as G

SEP = "\x1f"

# ------------------------------------------------------------------------------------------------ translator


def zoo_spec():
    """one populated element of every emission class"""
    return {
        "patterns": [{"name": "p1", "mult": [1.0, 2.0]}],
        "curves": [{"name": "hc", "type": "HEAD", "pts": [[0.0, 30.0], [0.05, 20.0], [0.1, 5.0]]},
                   {"name": "gc", "type": "HEADLOSS", "pts": [[0.0, 0.0], [0.1, 5.0]]}],
        "junctions": [{"name": "J1", "elev": 1.0, "coords": [1.0, 2.0], "demands": [[0.01, "p1", "c"]]},
                      {"name": "J2", "elev": 1.0, "coords": [3.0, 2.0], "demands": [[0.01, None, None]]}],
        "tanks": [{"name": "T1", "elev": 20.0, "init": 3.0, "min": 1.0, "max": 5.0, "diam": 10.0, "minvol": 0.0, "overflow": False, "coords": [5.0, 5.0]}],
        "reservoirs": [{"name": "R1", "head": 50.0, "pat": "p1", "coords": [0.0, 0.0]}],
        "pipes": [{"name": "P1", "a": "J1", "b": "J2", "len": 100.0, "diam": 0.3, "rough": 100.0, "mloss": 0.0, "status": "OPEN", "cv": False, "vertices": []}],
        "pumps": [{"name": "PUH", "a": "R1", "b": "J1", "type": "HEAD", "param": "hc", "speed": 1.0, "pat": None, "status": "OPEN", "vertices": []},
                  {"name": "PUP", "a": "R1", "b": "J1", "type": "POWER", "param": 1000.0, "speed": 1.0, "pat": None, "status": "OPEN", "vertices": []}],
        "valves": [{"name": "VP", "a": "J1", "b": "J2", "diam": 0.2, "type": "PRV", "mloss": 0.0, "setting": 10.0, "status": "ACTIVE", "vertices": []},
                   {"name": "VG", "a": "J1", "b": "J2", "diam": 0.2, "type": "GPV", "mloss": 0.0, "setting": "gc", "status": "ACTIVE", "vertices": []}],
        "sources": [{"name": "S1", "node": "J1", "type": "CONCEN", "strength": 1.0, "pat": "p1"}],
        "controls": [],
        "options": {},
    }


ZOO_CLASS = {"J1": "Junction", "T1": "Tank", "R1": "Reservoir", "P1": "Pipe", "PUH": "HeadPump", "PUP": "PowerPump", "VP": "Valve", "VG": "GPValve"}
BRANCH_CLASSES = {  # from_dict branch (section, type string) -> emission classes it serves
    ("nodes", "Junction"): ["Junction"], ("nodes", "Tank"): ["Tank"], ("nodes", "Reservoir"): ["Reservoir"],
    ("links", "Pipe"): ["Pipe"], ("links", "Pump"): ["HeadPump", "PowerPump"], ("links", "Valve"): ["Valve", "GPValve"],
    ("curves", None): ["Curve"], ("patterns", None): ["Pattern"], ("sources", None): ["Source"],
}


def class_of_element(e):
    if "node_type" in e:
        return e["node_type"]
    if e.get("link_type") == "Pump":
        return "HeadPump" if e.get("pump_type") == "HEAD" else "PowerPump"
    if e.get("link_type") == "Valve":
        return "GPValve" if e.get("valve_type") == "GPV" else "Valve"
    return e.get("link_type")


def reflect_emitted(wntr):
    wn = G.realise(wntr, zoo_spec())
    d = wntr.network.to_dict(wn)
    em = {}
    for e in d["nodes"] + d["links"]:
        if e["name"] in ZOO_CLASS:
            em[ZOO_CLASS[e["name"]]] = list(e.keys())
    em["Curve"] = list(d["curves"][0].keys())
    # a pattern that does not repeat (wrap=False: fire-flow / binary patterns) emits `wrap` as well
    wn.add_pattern("nowrap", wntr.network.elements.Pattern("nowrap", [1.0, 0.0], time_options=wn.options.time, wrap=False))
    em["Pattern"] = []
    for pd_ in wntr.network.to_dict(wn)["patterns"]:
        em["Pattern"] += [k for k in pd_.keys() if k not in em["Pattern"]]
    em["Source"] = list(d["sources"][0].keys())
    # defaults: the attribute values of an element created through the API with the required arguments only
    # (what an attribute keeps when from_dict calls add_* and then does not touch it)
    w = wntr.network.WaterNetworkModel()
    w.add_curve("hc", "HEAD", [(0.0, 30.0), (0.05, 20.0), (0.1, 5.0)])
    w.add_curve("gc", "HEADLOSS", [(0.0, 0.0), (0.1, 5.0)])
    w.add_junction("J1")
    w.add_junction("J2")
    w.add_tank("T1")
    w.add_reservoir("R1")
    w.add_pipe("P1", "J1", "J2")
    w.add_pump("PUH", "R1", "J1", "HEAD", "hc")
    w.add_pump("PUP", "R1", "J1", "POWER", 1000.0)
    w.add_valve("VP", "J1", "J2", valve_type="PRV")
    w.add_valve("VG", "J1", "J2", valve_type="GPV", initial_setting="gc")
    d2 = G.jsonify(wntr.network.to_dict(w))
    dfl = {}
    for e in d2["nodes"] + d2["links"]:
        if e["name"] in ZOO_CLASS:
            dfl[ZOO_CLASS[e["name"]]] = {k: json.dumps(v, sort_keys=True) for k, v in e.items()}
    return em, dfl


class _FromDictReader:
    """ast of from_dict -> rows (class, key, use, target, xform)"""

    def __init__(self, src):
        tree = ast.parse(src)
        fn = [n for n in tree.body if isinstance(n, ast.FunctionDef) and n.name == "from_dict"]
        if not fn:
            raise BrokenTie("wntr/network/io.py has no function from_dict")
        self.fn = fn[0]
        self.rows = {}  # class -> list of (key, use, target, xform)

    # --- helpers
    @staticmethod
    def _const_str(n):
        return n.value if isinstance(n, ast.Constant) and isinstance(n.value, str) else None

    def keys_of(self, expr, elem, env, seen=None):
        """keys of the element dictionary `elem` (and of resolved local names) an expression reads"""
        out = []
        seen = seen or set()
        for n in ast.walk(expr):
            if isinstance(n, ast.Subscript) and isinstance(n.value, ast.Name) and n.value.id == elem:
                k = self._const_str(n.slice)
                if k is not None:
                    out.append(k)
            elif (isinstance(n, ast.Call) and isinstance(n.func, ast.Attribute) and n.func.attr in ("setdefault", "get")
                  and isinstance(n.func.value, ast.Name) and n.func.value.id == elem and n.args):
                k = self._const_str(n.args[0])
                if k is not None:
                    out.append(k)
            elif isinstance(n, ast.Name) and n.id in env and n.id not in seen:
                for e2 in env[n.id]:
                    out += self.keys_of(e2, elem, env, seen | {n.id})
        res = []
        for k in out:
            if k not in res:
                res.append(k)
        return res

    @staticmethod
    def xform_of(expr, elem):
        """"" when the expression is the dictionary read itself (possibly a conditional between reads or a local name);
        "tuples" for `[tuple(p) for p in <read>]`; otherwise the source text"""
        def plain(e):
            if isinstance(e, ast.Name):
                return True
            if isinstance(e, ast.Subscript):
                return plain(e.value) or isinstance(e.value, ast.Name)
            if isinstance(e, ast.Call) and isinstance(e.func, ast.Attribute) and e.func.attr in ("setdefault", "get"):
                return True
            if isinstance(e, ast.IfExp):
                return plain(e.body) and plain(e.orelse)
            return False

        if plain(expr):
            return ""
        if (isinstance(expr, ast.ListComp) and len(expr.generators) == 1 and isinstance(expr.elt, ast.Call)
                and isinstance(expr.elt.func, ast.Name) and expr.elt.func.id == "tuple" and plain(expr.generators[0].iter)
                and not expr.generators[0].ifs):
            return "tuples"
        return ast.unparse(expr)[:60]

    def read_body(self, body, elem, classes, guarded=False, env=None):
        env = {} if env is None else env
        # first pass: local assignments name = expr (anywhere in the body, including nested ifs)
        for st in body:
            for n in ast.walk(st):
                if isinstance(n, ast.Assign) and len(n.targets) == 1 and isinstance(n.targets[0], ast.Name):
                    env.setdefault(n.targets[0].id, []).append(n.value)
        self._stmts(body, elem, classes, guarded, env)

    def _add(self, classes, key, use, target, xform):
        for c in classes:
            r = (key, use, target, xform)
            if r not in self.rows.setdefault(c, []):
                self.rows[c].append(r)

    def _calls(self, node, elem, classes, env):
        for n in ast.walk(node):
            if isinstance(n, ast.Call) and isinstance(n.func, ast.Attribute) and n.func.attr.startswith("add_"):
                own = n.func.attr
                is_wn = isinstance(n.func.value, ast.Name) and n.func.value.id == "wn"
                for i, a in enumerate(n.args):
                    for k in self.keys_of(a, elem, env):
                        self._add(classes, k, "ctor", str(i) if is_wn else "%s.%d" % (own, i), self.xform_of(a, elem))
                for kw in n.keywords:
                    for k in self.keys_of(kw.value, elem, env):
                        self._add(classes, k, "ctor", kw.arg if is_wn else "%s.%s" % (own, kw.arg), self.xform_of(kw.value, elem))

    def _stmts(self, body, elem, classes, guarded, env):
        for st in body:
            tgt = st.targets[0] if isinstance(st, ast.Assign) and len(st.targets) == 1 else None
            on_obj = isinstance(tgt, ast.Attribute) and isinstance(tgt.value, ast.Name) and tgt.value.id not in (elem, "wn")
            # `wn.get_pattern(pattern["name"]).wrap = ...`: the attribute of the element just re-created, fetched by its name
            on_get = (isinstance(tgt, ast.Attribute) and isinstance(tgt.value, ast.Call) and isinstance(tgt.value.func, ast.Attribute)
                      and tgt.value.func.attr.startswith("get_") and self.keys_of(tgt.value, elem, env) == ["name"])
            if on_obj or on_get:
                for k in self.keys_of(st.value, elem, env):
                    self._add(classes, k, "guarded" if guarded else "assign", st.targets[0].attr, self.xform_of(st.value, elem))
            elif isinstance(st, ast.Expr):
                self._calls(st, elem, classes, env)
            elif isinstance(st, ast.Assign):
                self._calls(st, elem, classes, env)
            elif isinstance(st, ast.If):
                # `if "key" in <element dict>:` is a presence test: to_dict leaves the key out exactly when the attribute has its
                # default (Pattern.wrap), so the assignment under it is as good as an unconditional one
                t = st.test
                presence = (isinstance(t, ast.Compare) and len(t.ops) == 1 and isinstance(t.ops[0], ast.In) and self._const_str(t.left) is not None
                            and isinstance(t.comparators[0], ast.Name) and t.comparators[0].id == elem and not st.orelse)
                self._stmts(st.body, elem, classes, guarded if presence else True, env)
                self._stmts(st.orelse, elem, classes, True, env)
            elif isinstance(st, ast.For):
                # `for attr in list(set(node.keys()) - set(dir(j))): setattr(...)` (custom attributes) restores nothing emitted
                if any(isinstance(n, ast.Call) and isinstance(n.func, ast.Name) and n.func.id == "setattr" for n in ast.walk(st)):
                    continue
                self._stmts(st.body, elem, classes, guarded, env)

    def run(self):
        found = set()
        for st in ast.walk(self.fn):
            if not (isinstance(st, ast.For) and isinstance(st.target, ast.Name) and isinstance(st.iter, ast.Subscript)
                    and isinstance(st.iter.value, ast.Name) and st.iter.value.id == "d"):
                continue
            sec = self._const_str(st.iter.slice)
            elem = st.target.id
            if sec in ("curves", "patterns", "sources"):
                self.read_body(st.body, elem, BRANCH_CLASSES[(sec, None)])
                found.add((sec, None))
            elif sec in ("nodes", "links"):
                tkey = "node_type" if sec == "nodes" else "link_type"
                # statements before the if-chain (name = node["name"]) are shared by every branch
                pre = [s for s in st.body if not isinstance(s, ast.If)]
                chain = [s for s in st.body if isinstance(s, ast.If)]
                if len(chain) != 1:
                    raise BrokenTie("from_dict: expected one if/elif chain over %s in the %s loop" % (tkey, sec))
                node = chain[0]
                while isinstance(node, ast.If):
                    t = node.test
                    ok = (isinstance(t, ast.Compare) and len(t.ops) == 1 and isinstance(t.ops[0], ast.Eq)
                          and self.keys_of(t.left, elem, {}) == [tkey] and self._const_str(t.comparators[0]) is not None)
                    if not ok:
                        raise BrokenTie("from_dict: branch test not of the form %s[%r] == '<Type>': %s" % (elem, tkey, ast.unparse(t)))
                    typ = self._const_str(t.comparators[0])
                    if (sec, typ) not in BRANCH_CLASSES:
                        raise BrokenTie("from_dict: unknown element type branch %r" % typ)
                    classes = BRANCH_CLASSES[(sec, typ)]
                    self._add(classes, tkey, "dispatch", "", "")
                    self.read_body(pre + node.body, elem, classes)
                    found.add((sec, typ))
                    node = node.orelse[0] if len(node.orelse) == 1 and isinstance(node.orelse[0], ast.If) else None
        missing = set(BRANCH_CLASSES) - found
        if missing:
            raise BrokenTie("from_dict: no code found that re-creates %s" % sorted(missing, key=str))
        return self.rows


def read_from_dict_rows():
    src = open(os.path.join(vlib.REPO, "wntr", "network", "io.py")).read()
    return _FromDictReader(src).run()


def _ls(s):
    return json.dumps(s, ensure_ascii=True)


def gen_schema_lean(em, dfl, rows):
    order = ["Junction", "Tank", "Reservoir", "Pipe", "HeadPump", "PowerPump", "Valve", "GPValve", "Curve", "Pattern", "Source"]
    out = ["-- GENERATED by harness/props/c13.py from wntr/network/io.py:from_dict (ast) and to_dict (reflection). Do not edit.",
           "import WntrModel.Model.Schema", "namespace Wntr.Schema.Gen", "open Wntr.Schema", ""]
    names = []
    for c in order:
        if c not in em:
            raise BrokenTie("no emitted key set for class %s" % c)
        nm = "t" + c
        names.append(nm)
        out.append("def %s : ClassTable :=" % nm)
        out.append("  { cls := %s," % _ls(c))
        out.append("    emitted := [%s]," % ", ".join(_ls(k) for k in em[c]))
        rs = []
        for (k, use, target, xf) in rows.get(c, []):
            u = ".dispatch" if use == "dispatch" else "(.%s %s)" % (use, _ls(target))
            rs.append("      { key := %s, use := %s, xform := %s }" % (_ls(k), u, _ls(xf)))
        out.append("    rows := [\n%s]," % ",\n".join(rs))
        ds = ["(%s, %s)" % (_ls(k), _ls(v)) for k, v in dfl.get(c, {}).items()]
        out.append("    defaults := [%s] }" % ", ".join(ds))
        out.append("")
    out.append("def tables : List ClassTable := [%s]" % ", ".join(names))
    out.append("")
    out.append("end Wntr.Schema.Gen")
    return "\n".join(out) + "\n"


# ------------------------------------------------------------------------------------------------ translator, non-element sections


def _cs(n):
    return n.value if isinstance(n, ast.Constant) and isinstance(n.value, str) else None


def _dkeys(expr, var="d"):
    return [_cs(n.slice) for n in ast.walk(expr)
            if isinstance(n, ast.Subscript) and isinstance(n.value, ast.Name) and n.value.id == var and _cs(n.slice)]


OPTION_GROUP_CLASS = {"time": "TimeOptions", "hydraulic": "HydraulicOptions", "report": "ReportOptions", "quality": "QualityOptions",
                      "reaction": "ReactionOptions", "energy": "EnergyOptions", "graphics": "GraphicsOptions", "user": "UserOptions"}


def read_option_tables(wntr):
    """per option group: fields emitted by Options.to_dict (reflection: the instance __dict__) and, by ast of
    wntr/network/options.py, whether each is a parameter of the group's __init__ that is stored under its own name;
    for Options itself: each group is a parameter passed to <Group>.factory and stored"""
    src = open(os.path.join(vlib.REPO, "wntr", "network", "options.py")).read()
    classes = {n.name: n for n in ast.parse(src).body if isinstance(n, ast.ClassDef)}

    def init_rows(cname, keys, group_level):
        if cname not in classes:
            raise BrokenTie("wntr/network/options.py has no class %s" % cname)
        init = [f for f in classes[cname].body if isinstance(f, ast.FunctionDef) and f.name == "__init__"]
        if not init:
            raise BrokenTie("%s has no __init__" % cname)
        f = init[0]
        params = [a.arg for a in f.args.args[1:]] + [a.arg for a in f.args.kwonlyargs]
        stored = {}
        for st in ast.walk(f):
            if (isinstance(st, ast.Assign) and len(st.targets) == 1 and isinstance(st.targets[0], ast.Attribute)
                    and isinstance(st.targets[0].value, ast.Name) and st.targets[0].value.id == "self"):
                stored[st.targets[0].attr] = st.value
        rows = []
        for k in keys:
            if k not in params:
                if f.args.kwarg is not None:
                    rows.append((k, "ctor", k, ""))  # **kwargs stored as they come (UserOptions)
                continue
            v = stored.get(k)
            if v is None:
                rows.append((k, "ctor", k, "parameter-not-stored"))
                continue
            plain = isinstance(v, ast.Name) and v.id == k
            # `p if p is not None else <default>`: a given value is stored as it is
            ordefault = (isinstance(v, ast.IfExp) and isinstance(v.body, ast.Name) and v.body.id == k
                         and ast.unparse(v.test) == "%s is not None" % k)
            factory = (group_level and isinstance(v, ast.Call) and isinstance(v.func, ast.Attribute) and v.func.attr == "factory"
                       and isinstance(v.func.value, ast.Name) and v.func.value.id == OPTION_GROUP_CLASS.get(k)
                       and len(v.args) == 1 and isinstance(v.args[0], ast.Name) and v.args[0].id == k)
            rows.append((k, "ctor", k, "" if (plain or ordefault or factory) else ast.unparse(v)[:60]))
        return rows

    o = wntr.network.options.Options()
    o.user = {"note": 1}
    d = o.to_dict()
    tables = [("Options", list(d.keys()), init_rows("Options", list(d.keys()), True))]
    for g, fields in d.items():
        if g not in OPTION_GROUP_CLASS:
            raise BrokenTie("Options.to_dict emits an unknown group %r" % g)
        tables.append(("options." + g, list(fields.keys()), init_rows(OPTION_GROUP_CLASS[g], list(fields.keys()), False)))
    return tables


class _SectionReader:
    """ast of from_dict: what is done with each top-level key, which keys of a control entry each branch reads, and
    how the simple-control branch reads its two texts"""

    def __init__(self, src):
        fn = [n for n in ast.parse(src).body if isinstance(n, ast.FunctionDef) and n.name == "from_dict"]
        if not fn:
            raise BrokenTie("wntr/network/io.py has no function from_dict")
        self.fn = fn[0]

    def model_rows(self):
        rows = []
        for st in self.fn.body:
            if not (isinstance(st, ast.If) and isinstance(st.test, ast.Compare) and len(st.test.ops) == 1 and isinstance(st.test.ops[0], ast.In)
                    and _cs(st.test.left) and isinstance(st.test.comparators[0], ast.Name) and st.test.comparators[0].id == "d" and not st.orelse):
                continue
            k = _cs(st.test.left)
            for s in st.body:
                if (isinstance(s, ast.Assign) and len(s.targets) == 1 and isinstance(s.targets[0], ast.Attribute)
                        and isinstance(s.targets[0].value, ast.Name) and s.targets[0].value.id == "wn" and _dkeys(s.value) == [k]):
                    rows.append((k, "assign", s.targets[0].attr, "" if isinstance(s.value, ast.Subscript) else ast.unparse(s.value)[:60]))
                elif isinstance(s, ast.For) and isinstance(s.iter, ast.Subscript) and _dkeys(s.iter) == [k]:
                    rows.append((k, "ctor", "loop", ""))
                elif (isinstance(s, ast.Expr) and isinstance(s.value, ast.Call) and ast.unparse(s.value.func) == "wn.options.__init__"
                      and not s.value.args and len(s.value.keywords) == 1 and s.value.keywords[0].arg is None
                      and isinstance(s.value.keywords[0].value, ast.Subscript) and _dkeys(s.value.keywords[0].value) == [k]):
                    rows.append((k, "ctor", "options.__init__", ""))
        return rows

    def control_branches(self):
        loops = [s for s in ast.walk(self.fn) if isinstance(s, ast.For) and isinstance(s.iter, ast.Subscript) and _dkeys(s.iter) == ["controls"]]
        if len(loops) != 1 or not isinstance(loops[0].target, ast.Name):
            raise BrokenTie("from_dict: expected one loop over d['controls']")
        loop = loops[0]
        elem = loop.target.id
        env = {s.targets[0].id: _dkeys(s.value, elem) for s in loop.body
               if isinstance(s, ast.Assign) and len(s.targets) == 1 and isinstance(s.targets[0], ast.Name)}
        chain = [s for s in loop.body if isinstance(s, ast.If)]
        if len(chain) != 1:
            raise BrokenTie("from_dict: expected one if/elif chain over the control type")
        out = {}
        node = chain[0]
        while isinstance(node, ast.If):
            t = node.test
            typ = _cs(t.comparators[0]) if isinstance(t, ast.Compare) and len(t.comparators) == 1 else None
            tk = [k for n in ast.walk(t) if isinstance(n, ast.Name) for k in env.get(n.id, [])] + _dkeys(t, elem)
            if typ is None or "type" not in tk:
                raise BrokenTie("from_dict: control branch test is not a comparison of the entry's type: %s" % ast.unparse(t))
            reads, toks, calls = [], {}, set()
            for s in node.body:
                for k in _dkeys(s, elem):
                    if k not in reads:
                        reads.append(k)
                for n in ast.walk(s):
                    if isinstance(n, ast.Call):
                        calls.add(ast.unparse(n.func))
                    if isinstance(n, ast.Subscript) and isinstance(n.value, ast.Name) and n.value.id in ("ta", "cond"):
                        if isinstance(n.slice, ast.Constant) and isinstance(n.slice.value, int):
                            toks.setdefault(n.value.id, set()).add(n.slice.value)
                        elif isinstance(n.slice, ast.Slice) and isinstance(n.slice.lower, ast.Constant) and n.slice.upper is None:
                            toks.setdefault(n.value.id, set()).update(range(n.slice.lower.value, 5))
            out[typ] = {"reads": reads, "toks": {k: sorted(v) for k, v in toks.items()}, "calls": sorted(calls)}
            node = node.orelse[0] if len(node.orelse) == 1 and isinstance(node.orelse[0], ast.If) else None
        for typ in ("simple", "rule"):
            if typ not in out:
                raise BrokenTie("from_dict: no branch re-creates controls of type %r" % typ)
        return out


ATOM_CALLS = {"float": "toFloat", "int": "toInt", "abs": "absVal", "str": "toStr", "bool": "toBool", "tuple": "toTuple", "list": "toList",
              "np.array": "toArray", "copy.deepcopy": "copy", "max": "clip", "min": "clip", "str.upper": "upper",
              "_int_or_None": "toIntOrNone", "_float_or_None": "toFloatOrNone"}
ENUM_NAMES = ("LinkStatus", "MixType", "FlowUnits", "MassUnits", "StatisticsType", "DemandModel")


def read_setter_rows():
    """every property setter of base.py / elements.py and every __setattr__ of options.py: which transformations the ARGUMENT goes
    through before it is stored (float(), int(), str.upper(), enum coercion, abs, clipping, sorting, ...).  Arithmetic on the
    argument, or a call this table does not know, is `other` (the Lean table condition then fails and names the setter)."""
    rows = []
    for path in ("wntr/network/base.py", "wntr/network/elements.py", "wntr/network/options.py"):
        tree = ast.parse(open(os.path.join(vlib.REPO, *path.split("/"))).read())
        for c in [n for n in tree.body if isinstance(n, ast.ClassDef)]:
            for f in c.body:
                if not isinstance(f, ast.FunctionDef):
                    continue
                is_setter = any(isinstance(d, ast.Attribute) and d.attr == "setter" for d in f.decorator_list)
                if not (is_setter or f.name == "__setattr__"):
                    continue
                param = f.args.args[-1].arg
                # local names that carry the argument on (x = f(param))
                carriers = {param}
                for _ in range(3):
                    for st in ast.walk(f):
                        if isinstance(st, ast.Assign) and len(st.targets) == 1 and isinstance(st.targets[0], (ast.Name, ast.Attribute)) \
                                and any((isinstance(n, ast.Name) and n.id in carriers) or (isinstance(n, ast.Attribute) and ast.unparse(n) in carriers)
                                        for n in ast.walk(st.value)):
                            t = st.targets[0]
                            # an attribute carries the argument on only when it is the one this setter stores (`self._<name>`)
                            if isinstance(t, ast.Name) or f.name == "__setattr__" or t.attr.lstrip("_") == f.name:
                                carriers.add(ast.unparse(t))
                uses = lambda node: any((isinstance(n, ast.Name) and n.id in carriers) or (isinstance(n, ast.Attribute) and ast.unparse(n) in carriers)
                                        for n in ast.walk(node))
                atoms, validates = [], False
                skip = set()
                for st in ast.walk(f):
                    if isinstance(st, (ast.Raise, ast.Compare)) or (isinstance(st, ast.Call) and ast.unparse(st.func) in (
                            "isinstance", "len", "logger.warning", "warnings.warn", "warn", "print", "hasattr", "type")):
                        validates = validates or isinstance(st, ast.Raise)
                        skip.update(id(n) for n in ast.walk(st))
                for st in ast.walk(f):
                    # what is computed FROM the stored value into another attribute (Tank._head) is not a transformation of it
                    if isinstance(st, ast.Assign) and isinstance(st.targets[0], ast.Attribute) and ast.unparse(st.targets[0]) not in carriers:
                        skip.update(id(n) for n in ast.walk(st.value) if isinstance(n, (ast.BinOp, ast.UnaryOp)))
                for st in ast.walk(f):
                    if id(st) in skip:
                        continue
                    if isinstance(st, ast.Call) and st.args and any(uses(a) for a in st.args):
                        fn = ast.unparse(st.func)
                        if fn in ATOM_CALLS:
                            atoms.append(ATOM_CALLS[fn])
                        elif fn.split(".")[0] in ENUM_NAMES or fn in ENUM_NAMES:
                            atoms.append("enumCoerce")
                        elif fn.startswith("self.") or fn.endswith((".add_usage", ".remove_usage", ".set_curve_type", ".append", ".format", ".factory")):
                            pass  # registry bookkeeping / delegation to another setter
                        else:
                            atoms.append("other")
                    elif isinstance(st, ast.Call) and isinstance(st.func, ast.Attribute) and uses(st.func.value) and not st.args:
                        atoms.append({"upper": "upper", "lower": "upper", "sort": "sort", "strip": "upper", "copy": "copy"}.get(st.func.attr, "other"))
                    elif isinstance(st, ast.Subscript) and isinstance(st.value, ast.Name) and st.value.id in ENUM_NAMES and uses(st.slice):
                        atoms.append("enumCoerce")
                    elif isinstance(st, (ast.BinOp, ast.UnaryOp)) and uses(st) and not isinstance(getattr(st, "op", None), ast.Not):
                        # arithmetic on the argument; `'%s' % value` inside messages was skipped with its Raise
                        if not (isinstance(st, ast.BinOp) and isinstance(st.op, ast.Mod) and isinstance(st.left, ast.Constant)):
                            atoms.append("other")
                    elif isinstance(st, ast.Assign) and not uses(st.value) and isinstance(st.value, (ast.Constant, ast.Attribute)) \
                            and ((ast.unparse(st.targets[0]).startswith("self._") and is_setter) or ast.unparse(st.targets[0]) == param):
                        atoms.append("constChoice")  # one of finitely many canonical values is stored (an alias is replaced)
                # the stored value must be a function of the argument alone: an expression that flows into the stored value and reads
                # another field of the object (self.x, self.__dict__[...] / .get(...)) makes the result depend on the ORDER of assignment
                for st in ast.walk(f):
                    if isinstance(st, (ast.Assign, ast.AugAssign)):
                        tg = st.targets[0] if isinstance(st, ast.Assign) else st.target
                        tname = ast.unparse(tg)
                        flows = tname in carriers or tname.startswith("self.__dict__[")
                        if not flows:
                            continue
                        for n in ast.walk(st.value):
                            if isinstance(n, ast.Attribute) and isinstance(n.value, ast.Name) and n.value.id == "self" \
                                    and not n.attr.endswith("_reg") and ast.unparse(n) not in carriers and ast.unparse(n) != tname:
                                atoms.append("readsOther")
                seen = []
                for a in atoms:
                    if a not in seen:
                        seen.append(a)
                rows.append((c.name, f.name if is_setter else "*", seen, validates))
    return rows


def read_ctor_rows():
    """wntr/network/model.py add_junction / add_tank / ... (model and registries): what each PARAMETER goes through before it is stored.
    A parameter may be normalised by a function of itself (float(p), bool(int(p)), a default for None); a parameter that is re-assigned
    from an expression that does not mention it, or that mentions another parameter / the registry (min_vol = f(vol_curve, min_level)),
    is `readsOther`: the element then does not hold what the dictionary said."""
    tree = ast.parse(open(os.path.join(vlib.REPO, "wntr", "network", "model.py")).read())
    rows = []
    for c in [n for n in tree.body if isinstance(n, ast.ClassDef)]:
        for f in c.body:
            if not (isinstance(f, ast.FunctionDef) and f.name.startswith("add_") and f.name.split("_", 1)[1] in (
                    "junction", "tank", "reservoir", "pipe", "pump", "valve", "curve", "pattern", "source")):
                continue
            params = [a.arg for a in f.args.args[1:]]
            for prm in params:
                atoms = []
                for st in ast.walk(f):
                    if not (isinstance(st, ast.Assign) and len(st.targets) == 1 and isinstance(st.targets[0], ast.Name) and st.targets[0].id == prm):
                        continue
                    names = {n.id for n in ast.walk(st.value) if isinstance(n, ast.Name)}
                    calls = [ast.unparse(n.func) for n in ast.walk(st.value) if isinstance(n, ast.Call)]
                    if isinstance(st.value, (ast.Constant, ast.List, ast.Tuple, ast.Dict)) and not names:
                        atoms.append("constChoice")  # a default
                    elif (isinstance(st.value, ast.Call) and isinstance(st.value.func, ast.Name) and st.value.func.id[:1].isupper()
                          and any(isinstance(a, ast.Name) and a.id == prm for a in list(st.value.args) + [k.value for k in st.value.keywords])):
                        atoms.append("copy")  # wrapped into the object that holds it: Pattern(name, multipliers=pattern, ...)
                    elif prm in names and not ((names - {prm, "np", "six", "LinkStatus", "float", "int", "bool", "str", "list", "tuple"}) & (set(params) | {"self"})):
                        for fn in calls:
                            atoms.append(ATOM_CALLS.get(fn, "enumCoerce" if fn.split(".")[0] in ENUM_NAMES else ("upper" if fn.endswith(".upper") else "other")))
                        if isinstance(st.value, ast.Subscript) and isinstance(st.value.value, ast.Name) and st.value.value.id in ENUM_NAMES:
                            atoms.append("enumCoerce")
                        if any(isinstance(n, (ast.BinOp, ast.UnaryOp)) for n in ast.walk(st.value)):
                            atoms.append("other")
                    elif prm in names and isinstance(st.value, ast.Call) and ast.unparse(st.value.func) in ("self.get_pattern", "self._pattern_reg.__getitem__"):
                        atoms.append("enumCoerce")  # a name resolved to the registered object of that name
                    else:
                        atoms.append("readsOther")
                seen = []
                for a in atoms:
                    if a not in seen:
                        seen.append(a)
                rows.append(("%s.%s" % (c.name, f.name), prm, seen, False))
    if not any(r[0].endswith("add_tank") for r in rows):
        raise BrokenTie("wntr/network/model.py: no add_tank found")
    return rows


def read_element_reader(src):
    """ast of from_dict's helper `_control_element`: the type words it looks up as nodes / as links, a fallback on the name, the final return"""
    fn = [n for n in ast.parse(src).body if isinstance(n, ast.FunctionDef) and n.name == "from_dict"][0]
    helper = [n for n in ast.walk(fn) if isinstance(n, ast.FunctionDef) and n.name == "_control_element"]
    if not helper:
        return None
    h = helper[0]
    consts = {}
    for st in ast.walk(fn):
        if isinstance(st, ast.Assign) and len(st.targets) == 1 and isinstance(st.targets[0], ast.Name) and isinstance(st.value, (ast.Tuple, ast.List, ast.Set)) \
                and all(isinstance(e, ast.Constant) and isinstance(e.value, str) for e in st.value.elts):
            consts[st.targets[0].id] = [e.value for e in st.value.elts]

    def words(test):
        out = []
        for c in ast.walk(test):
            if isinstance(c, ast.Compare) and len(c.ops) == 1 and isinstance(c.ops[0], ast.In):
                r = c.comparators[0]
                if isinstance(r, (ast.Tuple, ast.List, ast.Set)) and all(isinstance(e, ast.Constant) and isinstance(e.value, str) for e in r.elts):
                    out += [e.value for e in r.elts]
                elif isinstance(r, ast.Name) and r.id in consts:
                    out += consts[r.id]
        return out

    def by_name(test):
        return any(isinstance(c, ast.Compare) and isinstance(c.ops[0], ast.In) and "name_list" in ast.unparse(c.comparators[0]) for c in ast.walk(test))

    def target(stmts):
        for st in stmts:
            if isinstance(st, ast.Return) and st.value is not None:
                t = ast.unparse(st.value)
                return "node" if ".get_node(" in t else ("link" if ".get_link(" in t else "other")
        return None

    rd = {"nodeWords": [], "linkWords": [], "nameFallback": False, "default": None}
    for st in h.body:
        if isinstance(st, ast.If):
            node = st
            while isinstance(node, ast.If):
                tg = target(node.body)
                if tg == "node":
                    rd["nodeWords"] += words(node.test)
                elif tg == "link":
                    rd["linkWords"] += words(node.test)
                if tg in ("node", "link") and by_name(node.test):
                    rd["nameFallback"] = True
                nxt = node.orelse
                if len(nxt) == 1 and isinstance(nxt[0], ast.If):
                    node = nxt[0]
                else:
                    if nxt and target(nxt):
                        rd["default"] = target(nxt)
                    node = None
        elif isinstance(st, ast.Return):
            rd["default"] = target([st])
    if rd["default"] not in ("node", "link"):
        raise BrokenTie("from_dict._control_element: cannot read what its final return looks up")
    return rd


def reflect_writer_words(wntr):
    """the type word ControlAction.__str__ / ValueCondition.__str__ write for every element kind (reflection on the zoo model)"""
    C = wntr.network.controls
    wn = G.realise(wntr, zoo_spec())
    out = []
    for nm in wn.node_name_list + wn.link_name_list:
        is_node = nm in wn.node_name_list
        obj = wn.get_node(nm) if is_node else wn.get_link(nm)
        attr = "head" if is_node else "status"
        ws = {str(C.ValueCondition(obj, attr, ">", 1.0)).split()[0]}
        if not is_node:
            ws.add(str(C.ControlAction(obj, "status", 1)).split()[0])
        else:
            ws.add(str(C.ControlAction(obj, "head", 1.0)).split()[0] if hasattr(obj, "head") else list(ws)[0])
        for w in sorted(ws):
            if (w, is_node) not in out:
                out.append((w, is_node))
    return out


def reflect_sections(wntr):
    """emitted keys of the dictionary itself and of a rule / simple control entry; the relation words of Comparison"""
    C = wntr.network.controls
    wn = G.realise(wntr, zoo_spec())
    l = wn.get_link("P1")
    wn.add_control("r", C.Rule(C.SimTimeCondition(wn, "=", 3600), [C.ControlAction(l, "status", 0)], [C.ControlAction(l, "status", 1)], priority=3, name="r"))
    wn.add_control("c", C.Control(C.SimTimeCondition(wn, "=", 3600), C.ControlAction(l, "status", 0)))
    d = wntr.network.to_dict(wn)
    em = {"Model": list(d.keys())}
    for c in d["controls"]:
        em["Control:" + c["type"]] = list(c.keys())
    rel = []
    for c in C.Comparison:
        t = c.text.upper()
        try:
            back = C.Comparison.parse(t).name
        except Exception as e:
            back = "raises:" + type(e).__name__
        rel.append((c.name, t, back))
    order = ["gt", "ge", "lt", "le", "eq", "ne"]
    rel.sort(key=lambda r: order.index(r[0]) if r[0] in order else 99)
    return em, rel


def gen_sections_lean(opt_tables, em, model_rows, branches, rel, setters=None, elem_reader=None, writer_words=None, ctors=None):
    out = ["-- GENERATED by harness/props/c13.py from wntr/network/io.py:from_dict, options.py (ast) and to_dict (reflection). Do not edit.",
           "import WntrModel.Model.SchemaSections", "namespace Wntr.Schema.Gen", "open Wntr.Schema", ""]

    def table(nm, cls, emitted, rows):
        out.append("def %s : ClassTable :=" % nm)
        out.append("  { cls := %s," % _ls(cls))
        out.append("    emitted := [%s]," % ", ".join(_ls(k) for k in emitted))
        rs = []
        for (k, use, target, xf) in rows:
            u = ".dispatch" if use == "dispatch" else "(.%s %s)" % (use, _ls(target))
            rs.append("      { key := %s, use := %s, xform := %s }" % (_ls(k), u, _ls(xf)))
        out.append("    rows := [\n%s]," % ",\n".join(rs) if rs else "    rows := [],")
        out.append("    defaults := [] }")
        out.append("")

    names = []
    for cls, emitted, rows in opt_tables:
        nm = "tOpt" + "".join(w.capitalize() for w in re.split(r"[^A-Za-z]+", cls) if w)
        names.append(nm)
        table(nm, cls, emitted, rows)
    out.append("def optionTables : List ClassTable := [%s]" % ", ".join(names))
    out.append("")
    table("tModel", "Model", em["Model"], model_rows)
    rrows = [("type", "dispatch", "", "")] + [(k, "ctor", "rule_text", "") for k in branches["rule"]["reads"]]
    table("tControlRule", "Control:rule", em["Control:rule"], rrows)
    srows = [("type", "dispatch", "", "")]
    if "condition" in branches["simple"]["reads"]:
        srows.append(("condition", "ctor", "condition", ""))
    if "then_actions" in branches["simple"]["reads"]:
        srows.append(("then_actions", "ctor", "action", ""))
    table("tControlSimple", "Control:simple", em["Control:simple"], srows)
    out.append("def sectionTables : List ClassTable := [tModel, tControlRule, tControlSimple]")
    out.append("")
    sb = branches["simple"]
    via = any(c.endswith("_read_control_line") for c in sb["calls"])
    out.append("def simpleReader : Ctl.Reader :=")
    out.append("  { viaControlLine := %s, actToks := [%s], condToks := [%s] }" % (
        "true" if via else "false", ", ".join(str(i) for i in sb["toks"].get("ta", [])), ", ".join(str(i) for i in sb["toks"].get("cond", []))))
    out.append("")
    out.append("def relRows : List (String × String × String) := [%s]" % ", ".join("(%s, %s, %s)" % (_ls(a), _ls(b), _ls(c)) for a, b, c in rel))
    out.append("")
    er = elem_reader
    out.append("def elemReader : Ctl.ElemReader :=")
    if er is None:
        out.append("  { present := false, nodeWords := [], linkWords := [], nameFallback := false, defaultIsLink := true }")
    else:
        out.append("  { present := true, nodeWords := [%s], linkWords := [%s], nameFallback := %s, defaultIsLink := %s }" % (
            ", ".join(_ls(w) for w in er["nodeWords"]), ", ".join(_ls(w) for w in er["linkWords"]),
            "true" if er["nameFallback"] else "false", "true" if er["default"] == "link" else "false"))
    out.append("")
    out.append("/-- (type word written by ControlAction / ValueCondition.__str__, is the element a node) for every element kind -/")
    out.append("def writerWords : List (String × Bool) := [%s]" % ", ".join("(%s, %s)" % (_ls(w), "true" if n else "false") for w, n in (writer_words or [])))
    out.append("")
    out.append("/-- property setters of base.py / elements.py and the __setattr__ of the option groups: what the argument goes through -/")
    out.append("def setterRows : List Setters.SetterRow := [")
    out.append(",\n".join("  { cls := %s, key := %s, atoms := [%s], validates := %s }" % (_ls(c), _ls(k), ", ".join("." + a for a in atoms), "true" if v else "false")
                           for (c, k, atoms, v) in (setters or [])))
    out.append("]")
    out.append("")
    out.append("/-- the parameters of add_junction / add_tank / ... (model.py): what each goes through before the element stores it -/")
    out.append("def ctorRows : List Setters.SetterRow := [")
    out.append(",\n".join("  { cls := %s, key := %s, atoms := [%s], validates := false }" % (_ls(c), _ls(k), ", ".join("." + a for a in atoms))
                           for (c, k, atoms, v) in (ctors or [])))
    out.append("]")
    out.append("")
    out.append("end Wntr.Schema.Gen")
    return "\n".join(out) + "\n"


# ------------------------------------------------------------------------------------------------ normalisation (the statement's)


def normalise(d, default_pattern):
    """the documented normalisations applied to the ORIGINAL dictionary: JSON (tuples -> lists), empty pattern names
    -> None, a junction without demands -> one zero demand (API default: no category, the default pattern)."""
    d = G.jsonify(d)
    for n in d["nodes"]:
        if n.get("node_type") == "Junction":
            dl = n.get("demand_timeseries_list")
            if dl is not None and len(dl) == 0:
                n["demand_timeseries_list"] = [{"base_val": 0.0, "pattern_name": default_pattern, "category": None}]
                n["base_demand"], n["demand_pattern"], n["demand_category"] = 0.0, default_pattern, None
                n["_no_demands"] = True
    _empty_names(d)
    return d


def _empty_names(d):
    for n in d["nodes"]:
        for ts in n.get("demand_timeseries_list") or []:
            if ts.get("pattern_name") == "":
                ts["pattern_name"] = None
        for k in ("demand_pattern", "head_pattern_name"):
            if n.get(k) == "":
                n[k] = None
    for l in d["links"]:
        if l.get("speed_pattern_name") == "":
            l["speed_pattern_name"] = None
    for s in d["sources"]:
        if s.get("pattern") == "":
            s["pattern"] = None
    return d


def compare(orig_norm, new):
    """differences between the normalised original and the re-created dictionary; returns list of (class, path, key, old, new)"""
    new = _empty_names(G.jsonify(new))
    out = []
    o = copy.deepcopy(orig_norm)
    for n, m in zip(o["nodes"], new["nodes"]):
        if n.pop("_no_demands", False):
            # part of the documented case: the re-created junction carries the looked-up `pattern_name` key
            m.pop("pattern_name", None)
    for sec in ("nodes", "links", "curves", "patterns", "sources"):
        a, b = o.get(sec, []), new.get(sec, [])
        if [e.get("name") for e in a] != [e.get("name") for e in b]:
            out.append((sec, "/" + sec, "#names", [e.get("name") for e in a], [e.get("name") for e in b]))
            continue
        for ea, eb in zip(a, b):
            cls = class_of_element(ea) if sec in ("nodes", "links") else sec[:-1].capitalize()
            for (p, x, y) in G.diff(ea, eb):
                key = p.split("/")[1].split("[")[0].split("#")[0] if p.startswith("/") else p
                out.append((cls, "/%s[%s]%s" % (sec, ea.get("name"), p), key, x, y))
    for (p, x, y) in G.diff(o.get("options"), new.get("options")):
        out.append(("Options", "/options" + p, p.strip("/").replace("/", "."), x, y))
    ca, cb = o.get("controls", []), new.get("controls", [])
    if len(ca) != len(cb):
        out.append(("Controls", "/controls", "#len", len(ca), len(cb)))
    else:
        for i, (x, y) in enumerate(zip(ca, cb)):
            for (p, u, v) in G.diff(x, y):
                out.append(("Control:" + str(x.get("type")), "/controls[%d]%s" % (i, p), p.strip("/").split("[")[0], u, v))
    for k in ("name", "references", "comment", "version"):
        if o.get(k) != new.get(k):
            out.append(("Model", "/" + k, k, o.get(k), new.get(k)))
    return out


def classify(cls, key, old, new, spec_ctrl=None):
    """stable failure key for one difference"""
    if cls.startswith("Control"):
        # the statement is about the DICTIONARY: the two condition TEXTS are compared as they are; when they differ in
        # spacing only, the spacing shows another nesting of AND/OR (str() of And/OrCondition pads its operands) -- the
        # dictionary path wrote the tree in order until fb98e708
        if key == "condition" and isinstance(old, str) and isinstance(new, str) and old.split() == new.split():
            return "rule-condition-mixed-and-or-regrouped"
        return "control-%s-%s" % (cls.split(":")[1] if ":" in cls else "list", key)
    return "from_dict-%s-%s" % (cls, key)


# ------------------------------------------------------------------------------------------------ simple controls, append


def widen_controls(rng, sp):
    """simple Controls the API accepts and a [CONTROLS] line cannot say: conditions on links / reservoirs / other node
    attributes, the relations >= <= = <>, time conditions with a relation, a pump SETTING action (C13 only; the spec
    format is the shared one)"""
    links = [(p["name"], "pipe") for p in sp["pipes"]] + [(p["name"], "pump") for p in sp["pumps"]] + [(v["name"], "valve") for v in sp["valves"]]
    jn = [j["name"] for j in sp["junctions"]]
    out = []
    for _ in range(rng.randint(1, 3)):
        k = rng.choice(["link-flow", "link-status", "res-head", "junc-other", "junc-eq", "tank-rel", "time-rel", "clock-rel", "pump-setting"])
        act = [rng.choice(links)[0], "status", rng.choice(["OPEN", "CLOSED"])]
        if k == "link-flow":
            cond = ["val", "link", rng.choice(links)[0], "flow", rng.choice([">", "<", ">=", "<="]), round(rng.uniform(0.001, 0.05), 4)]
        elif k == "link-status":
            cond = ["val", "link", rng.choice(links)[0], "status", rng.choice(["=", "<>"]), rng.choice(["OPEN", "CLOSED"])]
        elif k == "res-head" and sp["reservoirs"]:
            cond = ["val", "node", rng.choice(sp["reservoirs"])["name"], "head", rng.choice([">", "<"]), round(rng.uniform(10, 60), 2)]
        elif k == "junc-other":
            cond = ["val", "node", rng.choice(jn), rng.choice(["head", "demand"]), rng.choice([">", "<", ">=", "<="]), round(rng.uniform(0.001, 60), 3)]
        elif k == "junc-eq":
            cond = ["val", "node", rng.choice(jn), "pressure", rng.choice(["=", "<>"]), round(rng.uniform(5, 60), 2)]
        elif k == "tank-rel" and sp["tanks"]:
            t = rng.choice(sp["tanks"])
            cond = ["val", "node", t["name"], rng.choice(["level", "head", "pressure"]), rng.choice([">=", "<=", ">", "<"]), round(rng.uniform(t["min"], t["max"]), 2)]
        elif k == "clock-rel":
            cond = ["clock", rng.choice([">", "<", ">=", "<="]), rng.choice([1800, 6 * 3600, 45000, 86399])]
        elif k == "pump-setting" and sp["pumps"]:
            cond = ["time", "=", rng.choice([3600, 5400, 30 * 3600])]
            act = [rng.choice(sp["pumps"])["name"], "setting", rng.choice([0.5, 0.8, 1.25])]
        else:
            cond = ["time", rng.choice([">", "<", ">=", "<="]), rng.choice([3600, 5400, 3661, 30 * 3600])]
        out.append({"name": "wide %d" % len(out), "kind": "control", "cond": cond, "then": [act], "else": [], "priority": 3})
    sp["controls"] = sp["controls"] + out
    return sp


def share_names(rng, sp):
    """EPANET-style numbering: a node and a link with the SAME id (tank '3' and pipe '3').  Up to one link per node kind is renamed to
    the name of a junction / tank / reservoir, and simple controls and a rule are added whose conditions and actions name both."""
    links = sp["pipes"] + sp["pumps"] + sp["valves"]
    rng.shuffle(links)
    nodes = []
    for kind, lst in (("tank", sp["tanks"]), ("junction", sp["junctions"]), ("reservoir", sp["reservoirs"])):
        if lst:
            nodes.append((kind, rng.choice(lst)))
    ren = {}
    for (kind, nd), l in zip(nodes, links):
        ren[l["name"]] = nd["name"]
    if not ren:
        return sp

    def fix_cond(c):
        if c[0] in ("and", "or"):
            return [c[0], fix_cond(c[1]), fix_cond(c[2])]
        if c[0] == "val" and c[1] == "link" and c[2] in ren:
            return c[:2] + [ren[c[2]]] + c[3:]
        return c

    for l in links:
        l["name"] = ren.get(l["name"], l["name"])
    for c in sp["controls"]:
        c["cond"] = fix_cond(c["cond"])
        c["then"] = [[ren.get(a[0], a[0])] + a[1:] for a in c["then"]]
        c["else"] = [[ren.get(a[0], a[0])] + a[1:] for a in c["else"]]
    extra = []
    for (kind, nd), l in zip(nodes, links):
        nm = nd["name"]
        if kind == "tank":
            ncond = ["val", "node", nm, "level", rng.choice(["<", ">"]), round(rng.uniform(nd["min"], nd["max"]), 2)]
        elif kind == "junction":
            ncond = ["val", "node", nm, "pressure", rng.choice(["<", ">"]), round(rng.uniform(5, 60), 2)]
        else:
            ncond = ["val", "node", nm, "head", rng.choice(["<", ">"]), round(rng.uniform(10, 60), 2)]
        lcond = ["val", "link", nm, "status", "=", rng.choice(["OPEN", "CLOSED"])]
        act = [nm, "status", rng.choice(["OPEN", "CLOSED"])]
        extra.append({"name": "shared %s c" % nm, "kind": "control", "cond": ncond, "then": [act], "else": [], "priority": 3})
        extra.append({"name": "shared %s l" % nm, "kind": "control", "cond": lcond, "then": [[rng.choice(links)["name"], "status", "OPEN"]], "else": [], "priority": 3})
        extra.append({"name": "sharedrule%s" % nm, "kind": "rule", "cond": [rng.choice(["and", "or"]), ncond, lcond], "then": [act],
                      "else": [[nm, "status", "OPEN"]] if rng.random() < 0.5 else [], "priority": rng.choice([3, 1])})
    sp["controls"] = sp["controls"] + extra
    return sp


def edit_after_construction(rng, wn, wntr):
    """after the model has been built, attributes are changed through their PUBLIC setters, and curve point lists in place, so that
    what the elements hold is not what the constructors would have derived (a tank's min_vol / levels next to its volume curve, a curve
    left out of x order, ...).  The edits keep the model valid: levels stay ordered and inside the volume curve's range."""
    done = set()

    def put(obj, attr, val):
        setattr(obj, attr, val)
        done.add(type(obj).__name__ + "." + attr)

    for _, j in wn.junctions():
        if rng.random() < 0.5:
            put(j, "elevation", round(j.elevation + rng.uniform(0.1, 3), 2))
            put(j, "emitter_coefficient", rng.choice([None, 0.002]))
            put(j, "initial_quality", rng.choice([0.0, 0.25]))
            put(j, "tag", rng.choice([None, "edited"]))
            put(j, "coordinates", (round(rng.uniform(0, 9), 1), round(rng.uniform(0, 9), 1)))
            put(j, "minimum_pressure", rng.choice([None, 1.5]))
            put(j, "required_pressure", rng.choice([None, 21.0]))
            put(j, "pressure_exponent", rng.choice([None, 0.6]))
    for _, t in wn.tanks():
        lo, hi = t.min_level, t.max_level
        if t.vol_curve_name:
            pts = wn.get_curve(t.vol_curve_name).points
            lo, hi = max(lo, min(x for x, _ in pts)), min(hi, max(x for x, _ in pts))
        room_lo, room_hi = t.init_level - t.min_level, t.max_level - t.init_level
        if rng.random() < 0.8 and room_lo > 0.02:
            put(t, "min_level", round(t.min_level + room_lo * rng.uniform(0.2, 0.9), 3))
        if rng.random() < 0.6 and room_hi > 0.02:
            put(t, "max_level", round(t.max_level - room_hi * rng.uniform(0.2, 0.9), 3))
        if rng.random() < 0.7:
            put(t, "min_vol", round(rng.uniform(0.5, 40.0), 2))
        if rng.random() < 0.5:
            put(t, "diameter", round(t.diameter + rng.uniform(0.5, 3), 2))
            put(t, "elevation", round(t.elevation + rng.uniform(0.1, 2), 2))
            put(t, "bulk_coeff", rng.choice([None, -1e-6]))
            put(t, "overflow", not t.overflow)
        if rng.random() < 0.3:
            vols = [n for n in wn.curve_name_list if wn.get_curve(n).curve_type == "VOLUME" and n != t.vol_curve_name]
            ok = [n for n in vols if min(x for x, _ in wn.get_curve(n).points) <= t.min_level and t.max_level <= max(x for x, _ in wn.get_curve(n).points)]
            if ok:
                put(t, "vol_curve_name", rng.choice(ok))
    for _, r in wn.reservoirs():
        if rng.random() < 0.5:
            put(r, "base_head", round(r.base_head + rng.uniform(0.5, 5), 2))
            put(r, "head_pattern_name", rng.choice([None] + list(wn.pattern_name_list)))
    for _, l in wn.pipes():
        if rng.random() < 0.5:
            put(l, "length", round(l.length * rng.uniform(1.1, 2), 2))
            put(l, "diameter", round(l.diameter * 1.5, 4))
            put(l, "roughness", rng.choice([90.0, 120.0, 0.26]))
            put(l, "minor_loss", rng.choice([0.0, 0.9]))
            put(l, "initial_status", rng.choice(["OPEN", "CLOSED"]) if not l.check_valve else l.initial_status)
            put(l, "bulk_coeff", rng.choice([None, -2e-6]))
            put(l, "wall_coeff", rng.choice([None, -1e-7]))
            put(l, "vertices", [(1.5, 2.5)] if rng.random() < 0.5 else [])
        if rng.random() < 0.4:
            # a polyline with the same point twice in a row, filled the way read_inpfile fills it (list.append), and via the setter
            pt = (round(rng.uniform(0, 9), 1), round(rng.uniform(0, 9), 1))
            if rng.random() < 0.6:
                l.vertices.append(pt)
                l.vertices.append(pt)
                l.vertices.append((pt[0] + 1.0, pt[1]))
                done.add("Pipe.vertices:append-repeated-point")
            else:
                put(l, "vertices", list(l.vertices) + [pt, pt])
    for _, l in wn.pumps():
        if rng.random() < 0.5:
            put(l, "base_speed", rng.choice([0.7, 1.0, 1.2]))
            put(l, "speed_pattern_name", rng.choice([None] + list(wn.pattern_name_list)))
            put(l, "initial_status", rng.choice(["OPEN", "CLOSED"]))
            put(l, "energy_price", rng.choice([None, 0.11]))
            if l.pump_type == "POWER":
                put(l, "power", round(l.power * 1.3, 2))
            else:
                heads = [n for n in wn.curve_name_list if wn.get_curve(n).curve_type == "HEAD"]
                if heads:
                    put(l, "pump_curve_name", rng.choice(heads))
    for _, l in wn.valves():
        if rng.random() < 0.5:
            put(l, "diameter", round(l.diameter * 1.25, 4))
            put(l, "minor_loss", rng.choice([0.0, 1.2]))
            if l.valve_type != "GPV":
                put(l, "initial_setting", round(float(l.initial_setting) * 1.1 + 0.01, 4))
            put(l, "initial_status", rng.choice(["OPEN", "CLOSED", "ACTIVE"]))
    vol_used = {t.vol_curve_name for _, t in wn.tanks() if t.vol_curve_name}
    for nm in wn.curve_name_list:
        c = wn.get_curve(nm)
        if nm in vol_used or len(c.points) < 2 or rng.random() < 0.5:
            continue
        k = rng.choice(["append-unsorted", "replace-first", "duplicate-x", "setter"])
        xs = [x for x, _ in c.points]
        if k == "append-unsorted":
            c.points.append((round((xs[0] + xs[1]) / 2, 5), 12.0))   # in place: the list is left out of x order
        elif k == "replace-first":
            c.points[0] = (round(xs[-1] * 1.5 + 0.01, 5), c.points[0][1])
        elif k == "duplicate-x":
            c.points.append((xs[0], c.points[0][1] - 1.0))
        else:
            c.points = list(reversed(c.points))                      # through the setter (which sorts)
        done.add("Curve.points:" + k)
    for nm in wn.pattern_name_list:
        if rng.random() < 0.3:
            put(wn.get_pattern(nm), "multipliers", [round(rng.uniform(0.2, 1.8), 2) for _ in range(rng.randint(1, 5))])
        if rng.random() < 0.25:
            put(wn.get_pattern(nm), "wrap", False)        # a pattern that does not repeat (restored since a91a893a)
    for _, t in wn.tanks():
        if rng.random() < 0.2:
            put(t, "mixing_model", "2COMP")
            put(t, "mixing_fraction", 0.0)                # restored since a91a893a
    return done


def apply_post(wntr, wn, sp):
    """the seeded post-construction steps recorded in a spec (`_time_seed`, `_edit_seed`)"""
    import random

    out = []
    if sp.get("_time_seed") is not None:
        out.append("case:time-steps " + cross_time_options(random.Random(sp["_time_seed"]), wn))
    if sp.get("_edit_seed") is not None:
        out += ["edited:" + e for e in edit_after_construction(random.Random(sp["_edit_seed"]), wn, wntr)]
    return out


def cross_time_options(rng, wn):
    """time steps in every order relation to the hydraulic step (rule > hydraulic as after reading Anytown.inp, report < hydraulic,
    pattern != hydraulic, quality > hydraulic ...), assigned in a random order"""
    h = rng.choice([60, 300, 900, 3600])
    vals = {"hydraulic_timestep": h, "rule_timestep": rng.choice([30, 60, 360, 3600, 7200]), "quality_timestep": rng.choice([30, 300, 3600, 7200]),
            "pattern_timestep": rng.choice([600, 3600, 7200, 100]), "report_timestep": rng.choice([60, 3600, 7200, 450]),
            "duration": rng.choice([0, 1800, 86400]), "pattern_start": rng.choice([0, 450]), "report_start": rng.choice([0, 90])}
    keys = list(vals)
    rng.shuffle(keys)
    for k in keys:
        setattr(wn.options.time, k, vals[k])
    return "rule%shyd" % (">" if vals["rule_timestep"] > h else ("<" if vals["rule_timestep"] < h else "="))


KIND_OF = {"Junction": "junction", "Tank": "tank", "Reservoir": "reservoir", "Pipe": "pipe", "Pump": "pump"}


def net_line(d):
    es = []
    for n in d["nodes"]:
        es.append("N:%s:%s" % (KIND_OF[n["node_type"]], n["name"]))
    for l in d["links"]:
        k = KIND_OF.get(l["link_type"]) or ("gpv" if l.get("valve_type") == "GPV" else "valve")
        es.append("L:%s:%s" % (k, l["name"]))
    return SEP.join(es)


def text_tokens(text):
    """position-based tokens of a condition / action text: [TYPE, name, ATTRIBUTE, RELATION|IS, value]; SYSTEM conditions are plain words"""
    ws = text.split()
    if ws and ws[0] == "SYSTEM" or len(ws) != 5:
        return SEP.join("w:" + w for w in ws)
    out = ["w:" + ws[0], "w:" + ws[1]]
    out.append("u:" + ws[2].lower() if ws[2] == ws[2].lower().upper() else "w:" + ws[2])
    out.append("w:" + ws[3])
    try:
        float(ws[4])
        out.append("n:" + ws[4])
    except ValueError:
        out.append("w:" + ws[4])
    return SEP.join(out)


SECTIONS = ("curves", "patterns", "nodes", "links", "sources", "controls")


def model_names(wn):
    return {"curves": list(wn.curve_name_list), "patterns": list(wn.pattern_name_list), "nodes": list(wn.node_name_list),
            "links": list(wn.link_name_list), "sources": list(wn.source_name_list), "controls": list(wn.control_name_list)}


def dict_names(d):
    out = {sec: [e["name"] for e in d.get(sec, [])] for sec in SECTIONS if sec != "controls"}
    cn, k = [], 0
    for c in d.get("controls", []):
        if c["type"].lower() == "simple":
            k += 1
            cn.append("control %d" % k)
        else:
            cn.append(c["name"])
    out["controls"] = cn
    return out


def names_line(nm):
    return SEP2.join(SEP.join(nm[sec]) for sec in SECTIONS)


SEP2 = "\x02"


def base_model(wntr, rng, d):
    """a small NON-empty model to append to; with probability 1/2 one of its names is one of the dictionary's"""
    C = wntr.network.controls
    nm = dict_names(d)
    clash = rng.choice(SECTIONS) if rng.random() < 0.5 else None

    def pick(sec, own):
        return rng.choice(nm[sec]) if clash == sec and nm[sec] else own

    wn = wntr.network.WaterNetworkModel()
    wn.add_pattern(pick("patterns", "A_pat"), [1.0, 0.5])
    wn.add_curve(pick("curves", "A_curve"), "HEAD", [(0.0, 20.0), (0.1, 10.0), (0.2, 1.0)])
    wn.add_junction(pick("nodes", "A_j1"), base_demand=0.001, elevation=1.0)
    wn.add_reservoir("A_r1", base_head=10.0)
    wn.add_pipe(pick("links", "A_p1"), "A_r1", wn.junction_name_list[0])
    wn.add_source(pick("sources", "A_src"), "A_r1", "CONCEN", 1.0, None)
    wn.add_control(pick("controls", "A_ctl"), C.Control(C.SimTimeCondition(wn, "=", 7200), C.ControlAction(wn.get_link(wn.link_name_list[0]), "status", 0)))
    return wn, clash


# ------------------------------------------------------------------------------------------------ directed cases (API-built models outside the spec format)


def _directed_base(wntr):
    wn = wntr.network.WaterNetworkModel()
    wn.add_pattern("p1", [1.0, 2.0])
    wn.add_junction("J1", base_demand=0.01, elevation=5.0)
    wn.add_junction("J2", base_demand=0.01)
    wn.add_tank("T0", elevation=10, init_level=3, min_level=1, max_level=5, diameter=10)
    wn.add_reservoir("R1", base_head=50)
    wn.add_pipe("P1", "J1", "J2")
    wn.add_pipe("P2", "J2", "T0")
    wn.add_pipe("P3", "R1", "J1")
    wn.add_valve("V1", "J1", "J2", valve_type="PRV", initial_setting=20.0)
    return wn


def directed_cases(wntr):
    """(stable key, what, builder): models every one of which the API builds and to_dict writes; a case that does not come back is
    reported under ITS key (a known finding until repaired) -- they are not part of the random stream"""
    C = wntr.network.controls

    def ctl(cond_of, rule=False):
        def build():
            wn = _directed_base(wntr)
            act = C.ControlAction(wn.get_link("P1"), "status", 0)
            cond = cond_of(wn)
            wn.add_control("c", C.Rule(cond, [act], name="c") if rule else C.Control(cond, act))
            return wn
        return build

    def with_(f):
        def build():
            wn = _directed_base(wntr)
            f(wn)
            return wn
        return build

    def m_default_pattern(wn):
        wn.options.hydraulic.pattern = "p1"
        wn.get_node("J1").demand_timeseries_list[0].pattern_name = None

    def m_leak_rules(wn):
        wn.get_node("J1").add_leak(wn, 0.01, 0.75, 3600, 7200)
        wn.convert_controls_to_rules()

    def m_mix(wn):
        wn.get_node("T0").mixing_model = "2COMP"
        wn.get_node("T0").mixing_fraction = 0.0

    def m_opts(wn):
        wn.options.report.nodes = ["J1", "J2"]
        wn.options.user.tags = ["ab", "cd"]

    def m_steps(wn):
        t = wn.options.time
        t.rule_timestep, t.quality_timestep, t.pattern_timestep, t.report_timestep = 360, 7200, 100, 60
        t.hydraulic_timestep = 60   # assigned last: what reading Anytown.inp produces (rule 360 > hydraulic 60)

    return [
        ("options-time-steps-in-any-order-relation", "time steps that are not ordered the usual way (rule > hydraulic, quality > hydraulic, report < hydraulic) must come back as they are",
         with_(m_steps), None),
        ("condition-no-text-form-SimTimeCondition-repeat", "a daily repeating time control (SimTimeCondition(repeat=True)) is written '% 86400.0 SYSTEM TIME IS ...', which from_dict cannot read",
         ctl(lambda wn: C.SimTimeCondition(wn, "=", 3600, repeat=True)), None),
        ("condition-no-text-form-SimTimeCondition-repeat", "the same in a Rule", ctl(lambda wn: C.SimTimeCondition(wn, "=", 3600, repeat=True), rule=True), None),
        ("condition-no-text-form-SimTimeCondition-first_time", "SimTimeCondition(first_time=7200) is written '(sim_time - 7200) SYSTEM TIME IS ...'",
         ctl(lambda wn: C.SimTimeCondition(wn, "=", 3600, first_time=7200)), None),
        ("condition-no-text-form-TimeOfDayCondition-repeat-first_day", "TimeOfDayCondition(repeat=False) is written '(  && clock_day == 0 )' (the clock time itself is lost by __str__)",
         ctl(lambda wn: C.TimeOfDayCondition(wn, "=", 3600, repeat=False)), None),
        ("condition-no-text-form-TimeOfDayCondition-repeat-first_day", "TimeOfDayCondition(first_day=2) is written '(  && clock_day >= 2 )'",
         ctl(lambda wn: C.TimeOfDayCondition(wn, "=", 3600, first_day=2)), None),
        ("condition-no-text-form-RelativeCondition", "a RelativeCondition is written \"Tank('T0').head > Junction('J1').head\", which no reader knows",
         ctl(lambda wn: C.RelativeCondition(wn.get_node("T0"), "head", ">", wn.get_node("J1"), "head")), None),
        ("condition-no-text-form-RelativeCondition", "the same in a Rule", ctl(lambda wn: C.RelativeCondition(wn.get_node("T0"), "head", ">", wn.get_node("J1"), "head"), rule=True), None),
        ("simple-control-compound-condition-truncated", "an AND / OR condition inside a simple Control: from_dict silently keeps the first clause only",
         ctl(lambda wn: C.AndCondition(C.ValueCondition(wn.get_node("T0"), "level", ">", 2.0), C.SimTimeCondition(wn, ">", 3600))), None),
        ("from_dict-Pattern-wrap", "a Pattern with wrap=False (fire-flow pattern) comes back wrapping", with_(lambda wn: wn.get_node("J1").add_fire_fighting_demand(wn, 0.05, 3600, 7200)), None),
        ("control-action-integer-value-text", "ControlAction(valve, 'setting', 25) is written 'SETTING IS 25' and comes back as 'SETTING IS 25.0'",
         with_(lambda wn: wn.add_control("c", C.Control(C.SimTimeCondition(wn, "=", 3600), C.ControlAction(wn.get_link("V1"), "setting", 25)))), None),
        ("control-action-integer-value-text", "the same in a Rule",
         with_(lambda wn: wn.add_control("r", C.Rule(C.SimTimeCondition(wn, "=", 3600), [C.ControlAction(wn.get_link("V1"), "setting", 25)], name="r"))), None),
        ("from_dict-Junction-constant-demand-despite-default-pattern", "a demand whose pattern is None (constant) in a model with a default pattern comes back with the default pattern "
         "(add_junction / add_demand read None as 'the default'; the dictionary cannot say 'no pattern')", with_(m_default_pattern), None),
        ("from_dict-rule-with-node-action", "leak controls converted to rules (convert_controls_to_rules): from_dict looks the JUNCTION of 'JUNCTION J1 LEAK_STATUS IS True' up as a link",
         with_(m_leak_rules), None),
        ("from_dict-Tank-mixing_fraction-zero", "a tank mixing_fraction of 0.0 comes back as None (truthiness guard)", with_(m_mix), None),
        ("to_dict-options-value-mangled", "to_dict writes a list of two-character strings (report.nodes = ['J1', 'J2'], user lists) as a one-entry dictionary (dict(v) in the options iterator)",
         with_(m_opts), lambda d0: None if (d0["options"]["report"]["nodes"] == ["J1", "J2"] and d0["options"]["user"].get("tags") == ["ab", "cd"]) else
         "options.report.nodes = ['J1', 'J2'] is written as %r, options.user.tags = ['ab', 'cd'] as %r" % (d0["options"]["report"]["nodes"], d0["options"]["user"].get("tags"))),
    ]


# ------------------------------------------------------------------------------------------------ the check


class C13(Check):
    pid = "C13"
    level = "proof"
    prop_modules = ["WntrModel.Props.C13", "WntrModel.Props.C13Sections"]
    manifest = dict(
        category="proof",
        text="Lean theorems: for ANY list of elements, to_dict(from_dict(to_dict m)) = norm(to_dict m) provided every emitted key is "
        "restored faithfully or recomputed (dict_roundtrip_generic / dict_roundtrip_tables), and that condition is decided on the tables "
        "regenerated from the current from_dict (ast) and to_dict (reflection) on every run (dict_tables_ok); append-to-empty equals "
        "create; the rule text form (AND of OR-groups since fb98e708) re-parses to the normal form of EVERY condition tree, with the same "
        "groups and truth value (the old in-order text is kept as pinned counterexample). Non-element sections (Props/C13Sections): the option groups "
        "(fields emitted vs constructor parameters stored, by ast of options.py), the dictionary's own keys and the keys of rule / simple control entries are "
        "tables regenerated on every run and decided (option_tables_ok, section_tables_ok); the text of a simple Control is re-read to the same control by the "
        "repaired from_dict for every element kind / attribute / relation / value (simple_roundtrip_repaired), the coded reader through _read_control_line is "
        "not faithful (two counterexample theorems = the two known findings) except on the [CONTROLS]-expressible fragment (simple_coded_partial), and which "
        "reader the source has is read by ast (generated_reader_full_iff); appending into a NON-empty model is accepted iff the new names are free in the five "
        "refusing name spaces and then gives the union in order, never overwriting (append_disjoint_is_union, append_ok_iff, append_never_overwrites; "
        "curves are overwritten in place, name / references / options replaced); the property setters of base.py / elements.py and the __setattr__ of the "
        "option groups are classified by ast (which of float / int / upper / enum coercion / abs / clipping / sort / ... the argument goes through): none does "
        "anything but transformations that fix their own image (generated_setters_idempotent), for which the round trip is exact and stable from the "
        "first cycle on (setters_roundtrip, setters_second_cycle; a non-idempotent setter is a counterexample theorem). The real from_dict / JSON / read_json / append paths are run on generated API-built models "
        "and the example INP files and compared key by key.",
        design_ref="DESIGN.md §5 C13",
        note="modelled, not verified: attribute values are opaque apart from the setter classification (that float / upper / sort / enum coercion are idempotent "
        "is their Python meaning, executable in Lean only for the numeric ones; the second-cycle oracle checks it on the implementation); option VALUES go through the groups' __setattr__ validators (exercised by the correspondence, incl. report / graphics / user); "
        "numbers in control texts are opaque tokens (Python: float(repr(x)) == x) and time tokens are opaque; SimTimeCondition with repeat / first_time, "
        "TimeOfDayCondition with repeat=False / first_day, RelativeCondition and And/Or inside a simple Control have no text form (not generated); the priority and "
        "registry name of a simple Control are not in the dictionary; a truthiness-guarded "
        "assignment is taken as faithful for truthy values; trusted: the ast/reflection translator in harness/props/c13.py",
        technique="Lean 4 proof over translator-regenerated schema tables + differential run against the Lean driver + round-trip oracle on the implementation",
    )
    rule = ("obligations: theorems of Props/C13.lean over Gen/SchemaDict.lean. correspondence cases: (model, path) with path in "
            "{dict, json text, write_json/read_json file, append to empty, the same dict object created-from and then appended}; distinct = distinct feature signature of the generated model; "
            "non-trivial = the model has at least one of vertices / several demands / leak / rule with ELSE / source / curve")
    trusted_base = ["translator harness/props/c13.py (ast of from_dict, reflection of to_dict on a populated zoo model)",
                    "Python dict/JSON semantics; element attribute setters (exercised, not modelled)"]
    assumptions = ["attribute values are opaque to the model: a restored key is assumed to be stored and re-emitted unchanged up to the JSON normalisation",
                   "derived keys (Junction.base_demand/demand_pattern/demand_category, GPValve.headloss_curve) are functions of restored attributes"]

    def translate(self, ctx):
        wntr = vlib.import_wntr()
        em, dfl = reflect_emitted(wntr)
        rows = read_from_dict_rows()
        self.em, self.rows = em, rows
        ctx.cov["schema_classes"] = len(em)
        ctx.cov["schema_rows"] = sum(len(v) for v in rows.values())
        vlib.write_if_changed(os.path.join(vlib.GEN, "SchemaDict.lean"), gen_schema_lean(em, dfl, rows))
        # the non-element sections: option groups, the dictionary's own keys, control entries, the simple-control reader
        io_src = open(os.path.join(vlib.REPO, "wntr", "network", "io.py")).read()
        sr = _SectionReader(io_src)
        opt_tables = read_option_tables(wntr)
        sem, rel = reflect_sections(wntr)
        self.branches = sr.control_branches()
        self.simple_via_control_line = any(c.endswith("_read_control_line") for c in self.branches["simple"]["calls"])
        setters = read_setter_rows()
        ctx.cov["setters"] = len(setters)
        ctx.cov["setters_transforming"] = sum(1 for r in setters if r[2])
        ctx.cov["option_groups"] = len(opt_tables) - 1
        ctx.cov["option_fields"] = sum(len(t[1]) for t in opt_tables[1:])
        ctx.cov["simple_reader"] = "coded(_read_control_line)" if self.simple_via_control_line else "repaired(text as written)"
        vlib.write_if_changed(os.path.join(vlib.GEN, "SchemaSections.lean"), gen_sections_lean(opt_tables, sem, sr.model_rows(), self.branches, rel, setters,
                                                                                                       read_element_reader(io_src), reflect_writer_words(wntr), read_ctor_rows()))

    # ---------------------------------------------------------------- cases
    def _cases(self, ctx, wntr):
        """yield (label, spec_or_None, wn builder)"""
        for fn, item in vlib.corpus_items("C13"):
            yield ("corpus:" + fn, item["spec"], None)
        n = 25 if ctx.quick else 150
        for i in range(n):
            sp = G.gen_spec(ctx.rng, size=1 if i % 3 else 2, inp_only=False, exotic=0.5 if i % 5 == 0 else 0.0)
            if i % 4 == 1 and not getattr(self, "simple_via_control_line", True):
                # the repaired from_dict re-reads the texts as written: the whole API range of simple controls is generated
                # (through _read_control_line they are the two known findings; the wide classes are not generated then)
                sp = widen_controls(ctx.rng, sp)
            if i % 4 == 2 and not getattr(self, "simple_via_control_line", True):
                sp = share_names(ctx.rng, sp)
                sp["_shared_names"] = True
            yield ("gen%d" % i, sp, None)
        nets = ["Net1.inp", "Net2.inp", "Net3.inp"] + ([] if ctx.quick else ["Net6.inp", "ky10.inp"])
        for nm in nets:
            p = os.path.join(vlib.REPO, "examples", "networks", nm)
            if os.path.exists(p):
                yield ("inp:" + nm, None, p)
        # a model that has been SIMULATED (and not reset) is still a model "readable from an INP file": its run-time state
        # (heads, demands, leak demand, statuses) must not leak into the dictionary
        for nm in ["Net1.inp"] + ([] if ctx.quick else ["Net3.inp"]):
            p = os.path.join(vlib.REPO, "examples", "networks", nm)
            if os.path.exists(p):
                yield ("inp+sim:" + nm, None, p)

    def _roundtrips(self, wntr, wn, d0, tmpdir):
        """the four paths of the statement; each returns the dictionary of the re-created model or raises"""
        def p_dict():
            return wntr.network.to_dict(wntr.network.from_dict(copy.deepcopy(d0)))

        def p_json():
            return wntr.network.to_dict(wntr.network.from_dict(json.loads(json.dumps(d0))))

        def p_file():
            fn = os.path.join(tmpdir, "m.json")
            wntr.network.write_json(wn, fn)
            try:
                return wntr.network.to_dict(wntr.network.read_json(fn))
            finally:
                if os.path.exists(fn):
                    os.remove(fn)

        def p_append():
            empty = wntr.network.WaterNetworkModel()
            return wntr.network.to_dict(wntr.network.from_dict(copy.deepcopy(d0), append=empty))

        def p_reuse():
            # the same dictionary object used twice: create a model from it, then append it to an empty model
            # ("appending a dictionary to an empty model equals creating the model from it")
            d = copy.deepcopy(d0)
            wntr.network.from_dict(d)
            empty = wntr.network.WaterNetworkModel()
            return wntr.network.to_dict(wntr.network.from_dict(d, append=empty))

        # every entrance x append: what counts is the model that was PASSED as `append` (the statement: appending a dictionary to an
        # empty model equals creating the model from it), not only the return value
        def p_append_passed():
            empty = wntr.network.WaterNetworkModel()
            wntr.network.from_dict(copy.deepcopy(d0), append=empty)
            return wntr.network.to_dict(empty)

        def p_method():
            empty = wntr.network.WaterNetworkModel()
            empty.from_dict(copy.deepcopy(d0))
            return wntr.network.to_dict(empty)

        def p_file_append(stream):
            def run():
                fn = os.path.join(tmpdir, "ma.json")
                wntr.network.write_json(wn, fn)
                empty = wntr.network.WaterNetworkModel()
                try:
                    if stream:
                        with open(fn, "r") as fh:
                            wntr.network.read_json(fh, append=empty)
                    else:
                        wntr.network.read_json(fn, append=empty)
                    return wntr.network.to_dict(empty)
                finally:
                    if os.path.exists(fn):
                        os.remove(fn)
            return run

        def p_stream():
            fn = os.path.join(tmpdir, "ms.json")
            with open(fn, "w") as fh:
                wntr.network.write_json(wn, fh)
            try:
                with open(fn, "r") as fh:
                    return wntr.network.to_dict(wntr.network.read_json(fh))
            finally:
                if os.path.exists(fn):
                    os.remove(fn)

        return [("dict", p_dict), ("json", p_json), ("file", p_file), ("append", p_append), ("reuse", p_reuse),
                ("append-passed-model", p_append_passed), ("wn.from_dict", p_method), ("read_json-path-append", p_file_append(False)),
                ("read_json-stream-append", p_file_append(True)), ("stream", p_stream)]

    def correspondence(self, ctx):
        wntr = vlib.import_wntr()
        failures, broken = [], []
        tmpdir = os.path.join(vlib.BUILD, "tmp-%d" % os.getpid())
        os.makedirs(tmpdir, exist_ok=True)
        lines, expect = [], []
        try:
            for label, sp, path in self._cases(ctx, wntr):
                try:
                    wn = G.realise(wntr, sp) if sp is not None else wntr.network.read_inpfile(path)
                    if sp is not None and ctx.rng.random() < 0.3 and wn.num_junctions > 0:
                        # a leak that was added and removed again: remove_leak keeps leak_area / leak_discharge_coeff
                        jn = wn.get_node(wn.junction_name_list[0])
                        if not jn._leak:
                            jn.add_leak(wn, 0.0125, 0.6, 3600, 7200)
                            jn.remove_leak(wn)
                            ctx.count("case:leak-added-and-removed")
                    if sp is not None and sp.get("_shared_names"):
                        ctx.count("case:node-and-link-share-a-name")
                    if sp is not None and not label.startswith("corpus:"):
                        # the seeds of the post-construction steps travel with the spec, so that a replay rebuilds the same model
                        sp = dict(sp)
                        if ctx.rng.random() < 0.5:
                            sp["_time_seed"] = ctx.rng.randrange(1 << 30)
                        if ctx.rng.random() < 0.5:
                            sp["_edit_seed"] = ctx.rng.randrange(1 << 30)
                    if sp is not None:
                        for e in apply_post(wntr, wn, sp):
                            ctx.count(e)
                    if sp is not None and ctx.rng.random() < 0.3:
                        # option groups the generator leaves alone: report, graphics, user
                        o = wn.options
                        o.report.status, o.report.summary, o.report.energy = ctx.rng.choice(["FULL", "YES", "NO"]), "NO", "YES"
                        o.report.nodes = [wn.node_name_list[0]] if ctx.rng.random() < 0.5 else True
                        o.report.pagesize = [0, 20]
                        o.report.report_filename = "x.rpt"
                        o.report.report_params["elevation"] = True
                        o.report.param_opts["pressure"]["below"] = 3.0
                        o.graphics.dimensions, o.graphics.units, o.graphics.offset = [0.0, 0.0, 10.0, 10.0], "METERS", [1.0, 2.0]
                        o.graphics.image_filename, o.graphics.map_filename = "a.png", "m.map"
                        o.user.note = "kept"
                        o.user.table = {"a": [1, 2.5, None]}
                        o.hydraulic.inpfile_units = ctx.rng.choice(["GPM", "LPS", "CMH"])
                        ctx.count("case:options-report-graphics-user")
                    if label.startswith("inp+sim:"):
                        wn.options.time.duration = 2 * wn.options.time.hydraulic_timestep
                        node0 = wn.junction_name_list[0]
                        wn.get_node(node0).add_leak(wn, 0.0005, 0.75, 0, None)  # an active leak at the end of the run
                        wntr.sim.WNTRSimulator(wn).run_sim()
                        ctx.count("case:simulated-before-to_dict")
                except Exception as e:
                    raise vlib.Infra("generator produced a model the API refuses (%s): %s: %s" % (label, type(e).__name__, e))
                if sp is not None:
                    feats = G.features(sp)
                    for f in feats:
                        ctx.count("feat:" + f.split("=")[0] if f.startswith("rule:priority") else "feat:" + f)
                    sig = tuple(sorted(feats))
                    nontriv = any(f.endswith("vertices") or f.endswith("leak") or f == "rule:else" or f.startswith("source") for f in feats)
                else:
                    sig, nontriv = (label,), True
                try:
                    d0 = wntr.network.to_dict(wn)
                    json.dumps(d0)
                except Exception as e:
                    failures.append(Failure("to_dict-raises-" + type(e).__name__, "to_dict / JSON encoding of an API-built model raises %s: %s" % (type(e).__name__, e),
                                            {"case": label, "spec": sp, "observed": repr(e)}))
                    continue
                dn = normalise(d0, wn.options.hydraulic.pattern or None)
                for pname, fn in self._roundtrips(wntr, wn, d0, tmpdir):
                    ctx.case(sig + (pname,), nontriv)
                    ctx.count("path:" + pname)
                    try:
                        d2 = fn()
                    except Exception as e:
                        key = "from_dict-raises-%s-%s" % (type(e).__name__, _exc_class(e))
                        failures.append(Failure(key, "re-creating the model from its own dictionary raises %s: %s (path %s)" % (type(e).__name__, str(e)[:120], pname),
                                                {"case": label, "path": pname, "spec": sp, "inp": path, "observed": "%s: %s" % (type(e).__name__, e),
                                                 "expected": "to_dict(from_dict(d)) == normalised d"}))
                        ctx.count("outcome:raises")
                        continue
                    diffs = compare(dn, d2)
                    ctx.count("outcome:" + ("equal" if not diffs else "differs"))
                    for (cls, p, key, old, new) in diffs:
                        failures.append(Failure(classify(cls, key, old, new),
                                                "dictionary of the re-created model differs at %s: %r -> %r (path %s)" % (p, old, new, pname),
                                                {"case": label, "path": pname, "where": p, "observed": new, "expected": old, "spec": sp, "inp": path}))
                    if pname == "dict":
                        # second cycle (Props/C13Sections setters_second_cycle): every setter / validator is applied to a value it stored
                        # itself, so re-creating the model from the re-created dictionary must change nothing at all
                        try:
                            d3 = wntr.network.to_dict(wntr.network.from_dict(copy.deepcopy(d2)))
                            dd = G.diff(_empty_names(G.jsonify(d2)), _empty_names(G.jsonify(d3)))
                            ctx.count("second-cycle:" + ("stable" if not dd else "changes"))
                            for (pth, x, y) in dd[:3]:
                                failures.append(Failure("second-cycle-" + re.sub(r"\[[^\]]*\]", "", pth).strip("/").replace("/", "."),
                                                        "to_dict(from_dict(.)) is not stable on its own output (a setter is not idempotent): %s: %r -> %r" % (pth, x, y),
                                                        {"case": label, "path": "second-cycle", "where": pth, "observed": y, "expected": x, "spec": sp, "inp": path}))
                        except Exception as e:
                            failures.append(Failure("second-cycle-raises-" + type(e).__name__, "from_dict of a dictionary that to_dict(from_dict(d)) produced raises %s: %s" % (type(e).__name__, str(e)[:120]),
                                                    {"case": label, "path": "second-cycle", "spec": sp, "inp": path, "observed": repr(e)}))
                        # model prediction per element (Lean driver) vs what the implementation did
                        d2j = _empty_names(G.jsonify(d2))
                        for sec in ("nodes", "links", "curves", "patterns", "sources"):
                            if [e.get("name") for e in dn[sec]] != [e.get("name") for e in d2j[sec]]:
                                continue
                            for ea, eb in zip(dn[sec], d2j[sec]):
                                cls = class_of_element(ea) if sec in ("nodes", "links") else sec[:-1].capitalize()
                                ea = {k: v for k, v in ea.items() if k != "_no_demands"}
                                lines.append(cls + "\t" + "\t".join(k + SEP + json.dumps(v, sort_keys=True) for k, v in ea.items()))
                                expect.append(("elem", label, cls, ea, eb))
                self._simple_controls(ctx, wntr, label, d0, lines, expect)
                if sp is not None and ctx.rng.random() < 0.4:
                    self._append_case(ctx, wntr, label, d0, lines, expect, broken)
                if len(ctx.samples) < 4 and sp is not None:
                    ctx.sample({"case": label, "features": sorted(G.features(sp))[:25], "elements": len(d0["nodes"]) + len(d0["links"]), "controls": len(d0["controls"])})
        finally:
            try:
                for f in os.listdir(tmpdir):
                    os.remove(os.path.join(tmpdir, f))
                os.rmdir(tmpdir)
            except OSError:
                pass
        # ---- directed cases: each under its own stable key
        for key, what, build, faithful in directed_cases(wntr):
            ctx.count("directed:" + key)
            ctx.case(("directed", key, what), True)
            try:
                wn = build()
                d0 = wntr.network.to_dict(wn)
                dn = normalise(d0, None)
                msg = faithful(G.jsonify(d0)) if faithful else None
                if msg is None:
                    d2 = wntr.network.to_dict(wntr.network.from_dict(json.loads(json.dumps(d0))))
                    diffs = compare({k: v for k, v in dn.items()}, d2)
                    if diffs:
                        cls, pth, k2, old_, new_ = diffs[0]
                        msg = "dictionary of the re-created model differs at %s: %r -> %r" % (pth, old_, new_)
            except Exception as e:
                msg = "raises %s: %s" % (type(e).__name__, str(e)[:100])
            ctx.count("directed outcome:" + ("round-trips" if msg is None else "fails"))
            if msg is not None:
                failures.append(Failure(key, "%s -- %s" % (what, msg), {"case": "directed:" + key, "directed": key, "observed": msg, "expected": "to_dict(from_dict(d)) == d"}))
        # ---- correspondence with the Lean model
        if lines:
            out = vlib.lean_run("Drivers/SchemaDriver.lean", "\n".join(lines) + "\n")
            if len(out) != len(lines):
                raise vlib.Infra("SchemaDriver returned %d lines for %d requests" % (len(out), len(lines)))
            nmis = 0
            for ex, line in zip(expect, out):
                if ex[0] == "ctl":
                    _, label, entry, impl = ex
                    ctx.count("simple-control model-vs-impl:" + ("agree" if line == impl else "disagree"))
                    ctx.count("simple-control outcome:" + line.split("\t")[0].split(" ")[0])
                    if line != impl and nmis < 5:
                        nmis += 1
                        broken.append(Broken("correspondence", "SchemaDriver simple control",
                                             "model (%s reader) predicts %r for %r, implementation gives %r (case %s)" % (
                                                 "coded" if self.simple_via_control_line else "repaired", line, entry, impl, label)))
                    continue
                if ex[0] == "app":
                    _, label, impl, clash = ex
                    ctx.count("append model-vs-impl:" + ("agree" if line == impl else "disagree"))
                    ctx.count("append outcome:" + line.split("\t")[0] + (" (clash in %s)" % clash if clash else ""))
                    if line != impl and nmis < 5:
                        nmis += 1
                        broken.append(Broken("correspondence", "SchemaDriver append",
                                             "model predicts %r, implementation gives %r (case %s, clash %s)" % (line, impl, label, clash)))
                    continue
                _, label, cls, ea, eb = ex
                if line.startswith("bad"):
                    broken.append(Broken("correspondence", "SchemaDriver", "driver rejected class %s: %s" % (cls, line)))
                    break
                model = dict(kv.split(SEP, 1) for kv in line.split("\t") if SEP in kv)
                for k, mv in model.items():
                    if mv == "<derived>":
                        continue
                    if k not in ea and k not in eb:
                        continue  # a key to_dict writes only off its default (Pattern.wrap): absent before and after
                    iv = json.dumps(eb.get(k, None), sort_keys=True) if k in eb else "<absent>"
                    ctx.count("model-vs-impl:" + ("agree" if mv == iv else "disagree"))
                    if mv != iv and nmis < 5:
                        nmis += 1
                        broken.append(Broken("correspondence", "SchemaDriver %s.%s" % (cls, k),
                                             "model predicts %s after the round trip, implementation gives %s (case %s, element %s)" % (mv, iv, label, ea.get("name"))))
        # de-duplicate failures per key keeping the first (smallest) one
        return failures, broken

    def _simple_controls(self, ctx, wntr, label, d0, lines, expect):
        """each simple control of the model alone: what from_dict makes of its two texts vs the Lean reader"""
        simple = [c for c in d0["controls"] if c["type"] == "simple"]
        for c in simple[:4]:
            dd = {k: copy.deepcopy(v) for k, v in d0.items() if k != "controls"}
            dd["controls"] = [copy.deepcopy(c)]
            try:
                back = wntr.network.to_dict(wntr.network.from_dict(dd))["controls"]
                impl = "ok\t%s\t%s" % (back[0]["condition"], back[0]["then_actions"][0]) if len(back) == 1 else "ok #controls=%d" % len(back)
            except Exception as e:
                impl = "raises " + type(e).__name__
            lines.append("@ctl\t%s\t%s\t%s" % (net_line(d0), text_tokens(c["condition"]), text_tokens(c["then_actions"][0])))
            expect.append(("ctl", label, c, impl))

    def _append_case(self, ctx, wntr, label, d0, lines, expect, broken):
        """from_dict(d, append=m0) on a NON-empty model: accepted / refused and the names per name space (Lean `App.append`);
        when accepted, every section of the result is the model's entries followed by the re-created ones"""
        try:
            plain = G.jsonify(wntr.network.to_dict(wntr.network.from_dict(copy.deepcopy(d0))))
        except Exception:
            ctx.count("append: skipped (the dictionary is not re-created at all)")
            return
        m0, clash = base_model(wntr, ctx.rng, d0)
        # the call REPLACES name / references / options (Lean: `top := d.top`); what the existing elements show of the options
        # (the default demand pattern) follows: the expectation is the old model under the dictionary's options
        m0b = copy.deepcopy(m0)
        m0b.options.__init__(**copy.deepcopy(d0["options"]))
        before = wntr.network.to_dict(m0b)
        nb = model_names(m0)
        try:
            wntr.network.from_dict(copy.deepcopy(d0), append=m0)
            ok = True
        except ValueError:
            ok = False
        except Exception as e:
            broken.append(Broken("correspondence", "append", "from_dict(d, append=non-empty model) raises %s: %s (case %s)" % (type(e).__name__, e, label)))
            return
        na = model_names(m0)
        lines.append("@app\t%s\t%s" % (names_line(nb), names_line(dict_names(d0))))
        expect.append(("app", label, ("ok" if ok else "refused") + "\t" + names_line(na), clash))
        ctx.case(("append-nonempty", clash, ok), True)
        if ok:
            after = G.jsonify(wntr.network.to_dict(m0))
            bj = G.jsonify(before)
            bad = []
            for sec in SECTIONS:
                want = bj[sec] + plain[sec] if sec != "controls" else None
                if sec == "controls":
                    if after[sec][:len(bj[sec])] != bj[sec] or after[sec][len(bj[sec]):] != plain[sec]:
                        bad.append(sec)
                elif sec == "curves":
                    # CurveRegistry.add_curve is `self[name] = curve`: a name that exists keeps its place and gets the new curve
                    want = [dict(e) for e in bj[sec]]
                    for e in plain[sec]:
                        hit = [i for i, x in enumerate(want) if x["name"] == e["name"]]
                        if hit:
                            want[hit[0]] = e
                        else:
                            want.append(e)
                    if after[sec] != want:
                        bad.append(sec)
                elif after[sec] != want:
                    bad.append(sec)
            if after["options"] != plain["options"] or after["name"] != plain["name"]:
                bad.append("options/name")
            ctx.count("append union:" + ("holds" if not bad else "differs"))
            if bad:
                broken.append(Broken("correspondence", "append union", "appending a dictionary with new names: sections %s of the result are not "
                                     "the model's entries followed by the re-created ones (case %s)" % (bad, label)))

    def search(self, ctx, broken):
        # a broken table proof names the pairs: turn them into a concrete model through the zoo
        wntr = vlib.import_wntr()
        out = []
        sp = zoo_spec()
        for sec in ("pipes", "pumps", "valves"):
            for e in sp[sec]:
                e.update(tag="t", iq=0.001, vertices=[[1.0, 1.0]])
        sp["tanks"][0].update(mix="2COMP", frac=0.5, leak=[0.01, 0.75, None, None], tag="t", iq=0.001, bulk=-1e-6)
        sp["junctions"][0].update(tag="t", iq=0.001, emitter=0.001, leak=[0.01, 0.75, None, None], pdd=[1.0, 20.0, 0.5])
        sp["reservoirs"][0].update(tag="t", iq=0.001)
        try:
            wn = G.realise(wntr, sp)
            d0 = wntr.network.to_dict(wn)
            dn = normalise(d0, None)
            d2 = wntr.network.to_dict(wntr.network.from_dict(json.loads(json.dumps(d0))))
            for (cls, p, key, old, new) in compare(dn, d2):
                out.append(Failure(classify(cls, key, old, new), "dictionary of the re-created model differs at %s: %r -> %r" % (p, old, new),
                                   {"case": "zoo", "spec": sp, "where": p, "observed": new, "expected": old}))
        except Exception as e:
            out.append(Failure("from_dict-raises-%s-%s" % (type(e).__name__, _exc_class(e)), "from_dict(to_dict(zoo model)) raises %s: %s" % (type(e).__name__, e),
                               {"case": "zoo", "spec": sp, "observed": repr(e)}))
        return out

    def replay(self, ctx, path):
        wntr = vlib.import_wntr()
        r = json.load(open(path if os.path.isabs(path) else os.path.join(vlib.VERIF, path)))
        rp = r.get("replay", {})
        print(json.dumps({k: v for k, v in r.items() if k != "replay"}, indent=1)[:2000])
        if rp.get("directed"):
            hit = []
            for key, what, build, faithful in directed_cases(wntr):
                if key != rp["directed"]:
                    continue
                try:
                    d0 = wntr.network.to_dict(build())
                    bad = faithful(G.jsonify(d0)) if faithful else None
                    if bad is None:
                        d2 = wntr.network.to_dict(wntr.network.from_dict(json.loads(json.dumps(d0))))
                        if compare(normalise(d0, None), d2):
                            bad = "differs"
                except Exception as e:
                    bad = "raises %s" % type(e).__name__
                if bad:
                    hit.append("%s: %s" % (what, bad))
            print("replay: %s" % ("REPRODUCED " + hit[0] if hit else "not reproduced on the current tree"))
            return 1 if hit else 0
        sp = rp.get("spec")
        wn = G.realise(wntr, sp) if sp else wntr.network.read_inpfile(rp["inp"])
        if sp:
            apply_post(wntr, wn, sp)
        d0 = wntr.network.to_dict(wn)
        dn = normalise(d0, wn.options.hydraulic.pattern or None)
        hit = []
        for pname, mk in (("dict", lambda: copy.deepcopy(d0)), ("json", lambda: json.loads(json.dumps(d0)))):
            try:
                d2 = wntr.network.to_dict(wntr.network.from_dict(mk()))
                for (cls, p, key, old, new) in compare(dn, d2):
                    if classify(cls, key, old, new) == r.get("key"):
                        hit.append("%s: %s %r -> %r" % (pname, p, old, new))
            except Exception as e:
                if "from_dict-raises-%s-%s" % (type(e).__name__, _exc_class(e)) == r.get("key"):
                    hit.append("%s: raises %s: %s" % (pname, type(e).__name__, e))
        print("replay: %s" % ("REPRODUCED " + hit[0] if hit else "not reproduced on the current tree"))
        return 1 if hit else 0


def _exc_class(e):
    s = str(e)
    if "vertices" in s:
        return "vertices"
    if "Mixing model" in s:
        return "mixing_model"
    if "not recognized" in s:
        return "control-not-recognized"
    if isinstance(e, KeyError):
        return "element-lookup"
    return re.sub(r"[^A-Za-z]+", "-", s)[:30].strip("-")


if __name__ == "__main__":
    vlib.run_check(C13)
