"""C02 -- every link obeys the head-flow law of its type and reported status; no reverse flow through pumps / CV pipes.

Tie (T): `Gen/RowsC02.lean` is regenerated on every run (harness/translate/rows_c01c02.py): one row per link of the zoo (every kind
         in every status, both HW approximations, tank / reservoir ends, 1-/2-/3-point curves, power pumps), `constants.py`, the
         float literals of `constraint.py`, the tolerances of `controls.py`, `param.py` formulas and the pump fits traced on symbolic
         numbers.  `Props/C02.lean` proves each row IS the parametric row of `Model/LinkRows.lean` for the link's kind / status /
         start / end nodes and that every generated constant equals the DOCUMENTED one (`ref...`).
Tie (C): real `con.evaluate()` vs Lean `eval` of the generated rows (zoo) and vs the parametric row with documented constants on
         random networks with random statuses; `_Close/_OpenCVCondition`, `_Close/_OpenHeadPumpCondition`, `_ClosePowerPumpCondition`
         vs the Lean conditions; `get_pump_poly_coefficients` / `get_pump_line_params` vs the Lean spline code.
Oracle : REAL WNTRSimulator runs; on every reported step and every non-isolated link the parametric row of the link's kind and
         REPORTED status, with DOCUMENTED constants and coefficients computed from the link's attributes, is evaluated by the Lean
         driver at the reported flow / heads / setting: |row| <= TOL (1e-6, the solver's stopping bound, in the row's own units)
         + 1e-9 * (sum of |terms|); pumps and check-valve pipes report flow >= -Qtol; 1- and 2-point pump curves pass through their
         points.  Skipped: isolated links (C09), steps that did not converge (not reported).
"""
import json
import math
import os
import sys
import types

sys.path.insert(0, os.path.dirname(os.path.dirname(os.path.abspath(__file__))))
sys.path.insert(0, os.path.dirname(os.path.abspath(__file__)))
import vlib
from vlib import Broken, Failure, Check
import gen_networks as G
from translate import rows_c01c02 as T
import c01c02_common as C
from c01c02_common import fbits, bitsf, fr, Batch

ST = {0: "c", 1: "o", 2: "a"}
STN = {"c": "closed", "o": "opened", "a": "active"}
ZERO9 = " ".join(["0/1"] * 9)
GAP_TOL = 1e-4  # m: allowed distance between the code's fitted pump curve and the independent fit to the curve points


def ref_fit(points):
    """documented 1- and 2-point fits (EPANET): (4/3 H, 1/3 H/Q^2, 2); the straight line through both points"""
    if len(points) == 1:
        (q, h), = points
        return (4.0 / 3.0) * h, (1.0 / 3.0) * (h / (q ** 2)), 2
    (q0, h0), (q1, h1) = points
    b = -(h1 - h0) / (q1 - q0)
    return h0 + b * q0, b, 1


class C02(Check):
    pid = "C02"
    level = "proof"
    prop_modules = ["WntrModel.Props.C02"]
    extra_targets = list(C.GEN_TARGETS)
    manifest = dict(
        category="proof",
        text="Lean theorems over rows regenerated from the current source on every run: every head-flow row the code builds for a zoo "
        "(all link kinds x statuses, default and piecewise Hazen-Williams, tank / reservoir ends, parallel links, isolated link, pump "
        "curves with C=2, C=1, C>1, C<1, power pumps) IS the parametric row of its kind / reported status / start and end node "
        "(orientation checked to be sensitive), and every generated constant, literal, tolerance and parameter formula equals the "
        "documented one. For ALL leaf values: closed/isolated links have the row q; the default HW head loss is odd and strictly "
        "increasing for k>0, m>=0; piecewise HW pieces and their C1 joints (cubic_spline interpolation lemma + generated constants); "
        "k = 10.667 C^-1.852 d^-4.871 L; open head pumps satisfy H = A - B q^C above the smoothing range; 1-/2-point fits pass through "
        "the curve points; power pumps deliver P = gamma dh q; active PRV/PSV/FCV hold the setting; TCV / open valves lose "
        "8K/(g pi^2 d^4) q|q|; a CV pipe / (repaired) head pump that stays open through the post-solve pass has flow >= -Qtol. "
        "Real rows, status conditions and real simulations are checked against the Lean driver on every run.",
        design_ref="DESIGN.md §5 C02",
        note="partial on numerics: LU / IEEE rounding and scipy curve_fit (a contract parameter, see headPumpFit_3pt_curve_fit) are not modelled; the only "
        "fact used of the solver is 'converged => max|row| < TOL'. That NewtonSolver.solve returns `converged` only for a model state with max|r| < TOL is not a trusted reading of solvers.py: it is the theorem newton_converged_implies_small_residual (Props/C16Newton.lean, over Model/Newton.lean, for every residual function, linear-solve behaviour and option set), tied to the source on every C16 run by the regenerated skeleton Gen/NewtonShape.lean, the replay of every observed solve call through Drivers/NewtonDriver.lean, and the re-evaluation of max|r| on the real model after each converged return; this check additionally re-evaluates max|r| on the real model after every converged return of its own runs. "
        "The statement 'pumps never report reverse flow' is FALSE of the pinned tree: head "
        "pumps (fix proposed: fixes/C02-head-pump-reverse-flow.patch, the Lean model follows the repaired condition; counterexample "
        "theorem for the as-coded one) and power pumps (known finding power-pump-reverse-flow; counterexample + partial theorem). "
        "2-point pump curves were fitted with a parabola formula (fix: fixes/C02-two-point-pump-curve.patch; gen_fit2_is_model fails "
        "without it). That the row in the model at solve time is the one for the REPORTED status (results are saved only after a "
        "post-solve pass without changes; the updater rebuilds rows on status changes) is checked by the simulation oracle, not proved. "
        "q2**1.852 in the piecewise joint is the double the code computes (libm pow trusted). Outside the model because WNTRSimulator REFUSES them "
        "(NotImplementedError before anything is reported; re-checked on every run, evidence keys refused:*): GPV, PBV, Darcy-Weisbach and Chezy-Manning "
        "head loss, pump speeds / speed patterns other than 1.0. Emitter coefficients are silently ignored by WNTRSimulator (no emitter flow; not a C02 matter).",
        technique="Lean 4 proof over translator-regenerated constraint rows and constants + differential runs (residuals, status conditions, "
        "spline coefficients) + documented-law oracle on real simulations",
    )
    rule = (
        "obligations: theorems of Props/C02.lean. correspondence cases: (zoo row, random point), (random network link, random status, "
        "random point) residual evaluations, status-condition evaluations, and (network, reported step, link) oracle evaluations of real "
        "simulations; distinct = distinct (kind, status, flow regime, end-node kinds); non-trivial = non-zero flow or non-closed"
    )
    trusted_base = [
        "translator harness/translate/rows_c01c02.py (amldump reflection; constants / literals read off the running code; symbolic trace of param.py and the pump fits)",
        "Real.rpow as the meaning of aml `**`; libm pow for the two spline end values",
        "'converged => max|residual| < TOL' is theorem newton_converged_implies_small_residual (Props/C16Newton.lean over Model/Newton.lean, tied to solvers.py "
        "by C16: Gen/NewtonShape.lean, Drivers/NewtonDriver.lean replay, re-evaluated max|r|); here it is re-observed at every converged return of this check's runs",
        "scipy.optimize.curve_fit (3-point curves): coefficients taken from the code, fit residual reported in the evidence only",
    ]
    assumptions = [
        "the step is REPORTED (every reported step is judged, whatever options.hydraulic.unbalanced / trials are); link not cut off from every source by the check's own reachability",
        "pump speed 1.0 (the simulator refuses other speeds)",
    ]

    # ------------------------------------------------------------------ translate
    def translate(self, ctx):
        wntr = vlib.import_wntr()
        self.info = T.write_c02(wntr)
        ctx.cov["updater_registrations"] = T.write_updater(wntr)
        ctx.cov["zoo_rows"] = self.info["hist"]["default"]

    # ------------------------------------------------------------------ helpers
    def _pump_consts(self, wntr):
        from wntr.sim.models import constants

        b = types.SimpleNamespace()
        constants.head_pump_constants(b)
        return b

    def _pump_coef(self, wntr, link, pts, failures, rp):
        """(A,B,C,a,b,c,d,qbar,hbar) of the REAL code + the fitted-curve oracle on 1-/2-point curves"""
        from wntr.sim.models import constraint

        A, B, Cc = link.get_head_curve_coefficients()
        n = len(pts)
        if n <= 2:
            rA, rB, rC = ref_fit(pts)
            worst = max(abs((A - B * q ** Cc) - h) for q, h in pts)
            ok = all(abs(x - y) <= 1e-9 * max(abs(y), 1e-12) for x, y in ((A, rA), (B, rB), (Cc, rC)))
            if not ok and not any(f.key == "head-pump-%dpt-curve-fit" % n for f in failures):
                failures.append(Failure("head-pump-%dpt-curve-fit" % n,
                                        "%d-point pump curve %r: get_head_curve_coefficients returns (A,B,C)=%r, the documented fit is %r; "
                                        "A - B*Q^C misses a curve point by %r m" % (n, pts, (A, B, Cc), (rA, rB, rC), worst),
                                        dict(rp, link=link.name, observed=[A, B, Cc], expected=[rA, rB, rC])))
            ref = (rA, rB, rC)
        else:
            # 3+ points: the fitted curve is judged against the curve POINTS through an independent least-squares fit
            # (three points: the interpolant).  Unchanged tree over 300 random curves: max gap 2.0e-6 m -> GAP_TOL = 1e-4 m.
            key = tuple(map(tuple, pts))
            if key not in self._refcache:
                self._refcache[key] = C.ref_fit_points(pts)
            rA, rB, rC, rsse = self._refcache[key]
            ref = (rA, rB, rC)
            q0, q1 = pts[0][0], pts[-1][0]
            grid = [q0 + (q1 - q0) * i / 20.0 for i in range(21)]
            gap = max(abs((A - B * q ** Cc) - (rA - rB * q ** rC)) for q in grid)
            worst = max(abs((A - B * q ** Cc) - h) for q, h in pts)
            self.fit3 = max(self.fit3, gap)
            fkey = "head-pump-3pt-curve-fit" if n == 3 else "head-pump-multipoint-curve-fit"
            if gap > GAP_TOL and not any(f.key == fkey for f in failures):
                failures.append(Failure(fkey,
                                        "%d-point pump curve %r: get_head_curve_coefficients returns (A,B,C)=%r; the least-squares fit of H = A - B*Q^C to the "
                                        "points is %r; the two curves differ by %r m on the curve's flow range, the code's curve misses a point by %r m "
                                        "(best fit: %r m)" % (n, pts, (A, B, Cc), ref, gap, worst, math.sqrt(rsse)),
                                        dict(rp, link=link.name, observed=[A, B, Cc], expected=list(ref))))
        pcb = self._pump_consts(wntr)
        z = 0.0
        def full(A, B, Cc):
            if Cc <= 1:
                a, b, c, d = constraint.get_pump_poly_coefficients(A, B, Cc, pcb)
                return (A, B, Cc, a, b, c, d, z, z)
            qb, hb = constraint.get_pump_line_params(A, B, Cc, pcb)
            return (A, B, Cc, z, z, z, z, qb, hb)

        self._refcoef[link.name] = full(*ref)
        return full(A, B, Cc)

    def _row_line(self, spec, l, status, iso, tol, f, hs, he, setting, elev, coef):
        kind = C.link_kind(l)
        rough = l.get("roughness", 0.0)
        diam = l.get("diameter", 0.0)
        length = l.get("length", 0.0)
        K = l.get("minor_loss", 0.0)
        power = l.get("power", 0.0)
        es, ee = elev.get(l["start"], 0.0), elev.get(l["end"], 0.0)
        approx = "p" if spec.get("hw_approx") == "piecewise" else "d"
        vals = [tol, f, hs, he, rough, diam, length, K, setting, es, ee, power]
        cs = " ".join(fr(x) for x in coef) if coef is not None else ZERO9
        return "row %s %s %s %d %s %s" % (approx, kind, status, 1 if iso else 0, " ".join(fbits(x) for x in vals), cs)

    # ------------------------------------------------------------------ (a) static rows of random networks, random statuses
    def _static_rows(self, ctx, wntr, specs):
        import wntr.sim.hydraulics as H
        from wntr.network import LinkStatus

        rng = ctx.rng
        broken, failures = [], []
        batch = Batch()
        special = [0.0, 1e-9, -1e-9, 2e-4, -2e-4, 4e-4, -4e-4, 3e-4, -3.3e-4, 1e-8, 5e-9, 2e-8]
        for spec in specs:
            try:
                wn = G.build_wn(wntr, spec)
                for l in spec["links"]:
                    link = wn.get_link(l["name"])
                    r = rng.random()
                    if l["type"] == "valve":
                        link._user_status = rng.choice([LinkStatus.Active, LinkStatus.Active, LinkStatus.Open, LinkStatus.Closed])
                        link._internal_status = rng.choice([LinkStatus.Active, LinkStatus.Active, LinkStatus.Open, LinkStatus.Closed])
                    elif r < 0.15:
                        link._user_status = LinkStatus.Closed
                    elif r < 0.3:
                        link._internal_status = LinkStatus.Closed
                m, upd = H.create_hydraulic_model(wn, HW_approx=spec.get("hw_approx", "default"))
            except Exception as e:
                ctx.count("static_build_error")
                continue
            elev = {nd["name"]: nd.get("elevation", 0.0) for nd in spec["nodes"] if nd["type"] == "junction"}
            kinds = {nd["name"]: nd["type"] for nd in spec["nodes"]}
            heads = {}
            for nd in spec["nodes"]:
                h = rng.uniform(0.0, 130.0)
                heads[nd["name"]] = h
                if nd["type"] == "junction":
                    m.head[nd["name"]].value = h
                else:
                    m.source_head[nd["name"]].value = h
            for l in spec["links"]:
                link = wn.get_link(l["name"])
                kind = C.link_kind(l)
                cd = None
                for nm in T.CONDICTS[kind]:
                    if hasattr(m, nm) and l["name"] in getattr(m, nm):
                        cd = getattr(m, nm)
                if cd is None:
                    broken.append(Broken("correspondence", "row lookup", "no row for link %s" % l["name"]))
                    continue
                st = ST.get(int(link.status))
                coef = None
                if kind == "headPump":
                    coef = self._pump_coef(wntr, link, spec["curves"][l["curve"]], failures, {"spec": spec.get("_origin", spec)})
                for _ in range(3):
                    f = rng.choice(special) if rng.random() < 0.45 else rng.uniform(-0.25, 0.25)
                    m.flow[l["name"]].value = f
                    r = float(cd[l["name"]].evaluate())
                    setting = l.get("setting", 0.0)
                    line = self._row_line(spec, l, st, False, 1e300, f, heads[l["start"]], heads[l["end"]], setting, elev, coef)

                    def cb(o, r=r, l=l, st=st, kind=kind, f=f, spec=spec, kinds=kinds):
                        lr = bitsf(o.split()[1])
                        reg = "zero" if f == 0 else "tiny" if abs(f) < 1e-7 else "band" if abs(f) <= 4e-4 else "neg" if f < 0 else "pos"
                        ctx.case(("row", kind, st, reg, kinds[l["start"]], kinds[l["end"]], spec.get("hw_approx")), nontrivial=st != "c")
                        ctx.count("row:%s/%s" % (kind, STN[st]))
                        scale = abs(r) + abs(lr) + 300.0
                        if not (abs(r - lr) <= 1e-11 * scale) and len(broken) < 6:
                            broken.append(Broken("correspondence", "real head-flow row vs parametric row with documented constants",
                                                 "link %s kind=%s status=%s flow=%r (%s): impl %r model %r; link spec %s"
                                                 % (l["name"], kind, STN[st], f, spec.get("hw_approx"), r, lr, json.dumps(l))))

                    batch.add(line, cb)
        batch.run()
        return failures, broken

    # ------------------------------------------------------------------ (b) status conditions
    def _conditions(self, ctx, wntr):
        from wntr.network import controls as CT

        rng = ctx.rng
        broken = []
        wn = wntr.network.WaterNetworkModel()
        wn.add_junction("a", elevation=0.0)
        wn.add_junction("b", elevation=0.0)
        wn.add_pipe("cv", "a", "b", check_valve=True)
        wn.add_curve("c", "HEAD", [(0.05, 30.0)])
        wn.add_pump("pu", "a", "b", "HEAD", "c")
        wn.add_pump("pw", "a", "b", "POWER", 1000.0)
        cv, pu, pw = wn.get_link("cv"), wn.get_link("pu"), wn.get_link("pw")
        A = pu.get_head_curve_coefficients()[0]
        conds = dict(ccv=CT._CloseCVCondition(wn, cv), ocv=CT._OpenCVCondition(wn, cv), cpu=CT._CloseHeadPumpCondition(wn, pu),
                     opu=CT._OpenHeadPumpCondition(wn, pu), cpw=CT._ClosePowerPumpCondition(wn, pw), opw=CT._OpenPowerPumpCondition(wn, pw))
        batch = Batch()
        H, Q = 0.0001524, 2.83168e-6
        for _ in range(60 if ctx.quick else 400):
            hs = 0.0  # so that the code's float `he - hs` is exact and equals the model's rational difference
            dh = rng.choice([0.0, H, -H, 1.0000001 * H, -1.0000001 * H, 0.999 * H, -0.999 * H, rng.uniform(-5, 5), A, A + 0.99 * H, A + 1.01 * H,
                             A - 1e-9, A + 2e-12, rng.uniform(A - 1, A + 1)])
            q = rng.choice([0.0, Q, -Q, -1.0000001 * Q, -0.99 * Q, rng.uniform(-0.1, 0.1), -0.3])
            # CV: dh = hs - he ; pumps: dh = he - hs
            a, b = wn.get_node("a"), wn.get_node("b")
            a._head, b._head = hs, hs - dh
            cv._flow = q
            r1 = (bool(conds["ccv"].evaluate()), bool(conds["ocv"].evaluate()))
            l1 = "closecv %s %s %s" % (fr(a._head), fr(b._head), fr(q))
            b._head = hs + dh
            pu._flow = q
            pw._flow = q
            r2 = (bool(conds["cpu"].evaluate()), bool(conds["opu"].evaluate()))
            r3 = (bool(conds["cpw"].evaluate()), bool(conds["opw"].evaluate()))
            l2 = "closepump %s %s %s %s" % (fr(A), fr(a._head), fr(b._head), fr(q))

            def cb1(o, r1=r1, hs=hs, dh=dh, q=q):
                m = tuple(x == "T" for x in o.split())
                ctx.case(("cond-cv", r1), nontrivial=True)
                ctx.count("cond:cv")
                if m != r1 and len(broken) < 4:
                    broken.append(Broken("correspondence", "_CloseCVCondition/_OpenCVCondition vs Lean closeCV/openCV",
                                         "hs-he=%r q=%r: impl (close,open)=%r model %r" % (dh, q, r1, m)))

            def cb2(o, r2=r2, r3=r3, dh=dh, q=q):
                m = [x == "T" for x in o.split()]
                ctx.case(("cond-pump", r2, r3), nontrivial=True)
                ctx.count("cond:pump")
                if (m[0], m[1]) != r2 and len(broken) < 4:
                    broken.append(Broken("correspondence", "_Close/_OpenHeadPumpCondition vs Lean (repaired) conditions",
                                         "he-hs=%r A=%r q=%r: impl (close,open)=%r model %r (as coded close=%r)" % (dh, A, q, r2, (m[0], m[1]), m[2])))
                # power pumps: the tree either has the conditions as coded (known finding power-pump-reverse-flow) or the proposed repair
                self.pw_matches["as_coded"] &= (m[3], m[4]) == r3
                self.pw_matches["repaired"] &= (m[5], m[6]) == r3

            batch.add(l1, cb1)
            batch.add(l2, cb2)
        self.pw_matches = {"as_coded": True, "repaired": True}
        batch.run()
        which = [k for k, v in self.pw_matches.items() if v]
        ctx.cov["power_pump_conditions"] = which[0] if len(which) == 1 else ("ambiguous" if which else "neither")
        if not which:
            broken.append(Broken("correspondence", "_Close/_OpenPowerPumpCondition vs Lean conditions",
                                 "the real conditions match neither the as-coded model (dh > 1e10 + Htol / dh <= 1e10 + Htol) nor the repaired one (+ flow < -Qtol / dh > Htol)"))
        return broken

    # ------------------------------------------------------------------ (b2) the change tracker
    def _tracker(self, ctx, wntr):
        """REAL ControlChangeTracker + real ControlAction / _InternalControlAction on a pipe's status vs the Lean `Tracked` model"""
        from wntr.network import controls as CT
        from wntr.network import LinkStatus

        rng = ctx.rng
        broken = []
        batch = Batch()
        for _ in range(20 if ctx.quick else 200):
            wn = wntr.network.WaterNetworkModel()
            wn.add_junction("a")
            wn.add_junction("b")
            wn.add_pipe("p", "a", "b", initial_status=rng.choice(["OPEN", "CLOSED"]))
            wn.reset_initial_values()
            p = wn.get_link("p")
            acts = [CT.ControlAction(p, "status", LinkStatus.Open), CT.ControlAction(p, "status", LinkStatus.Closed),
                    CT._InternalControlAction(p, "_internal_status", LinkStatus.Open, "status"),
                    CT._InternalControlAction(p, "_internal_status", LinkStatus.Closed, "status")]
            tr = CT.ControlChangeTracker()
            cond = CT.SimTimeCondition(wn, "=", 0)
            for a in acts:
                tr.register_control(CT.Control(cond, a))
            tr.set_reference_point("model")
            toks, impl = [], []
            v0 = int(p.status)
            for _ in range(rng.randint(1, 10)):
                if rng.random() < 0.25:
                    tr.reset_reference_point("model")
                    toks.append("r")
                else:
                    rng.choice(acts).run_control_action()
                    toks.append("f%d" % int(p.status))
                ch = tr.changes_made("model")
                if ch != ((p, "status") in list(tr.get_changes("model"))):
                    broken.append(Broken("correspondence", "ControlChangeTracker", "changes_made and get_changes disagree"))
                impl.append("T" if ch else "F")

            def cb(o, impl=impl, toks=toks, v0=v0):
                ctx.case(("tracker", len(toks), "r" in toks), nontrivial=True)
                ctx.count("tracker_histories")
                if o.split() != impl and len(broken) < 3:
                    broken.append(Broken("correspondence", "ControlChangeTracker vs Lean Tracked", "start %d ops %s: impl %s model %s" % (v0, toks, impl, o.split())))

            batch.add("tracker %d %s" % (v0, " ".join(toks)), cb)
        batch.run()
        return broken

    # ------------------------------------------------------------------ (b3) what the simulator refuses (outside the model)
    def _refusals(self, ctx, wntr):
        """GPV, PBV, D-W / C-M head loss and pump speeds != 1 are REFUSED by WNTRSimulator (NotImplementedError before anything is
        reported), so the statement is vacuous for them; if one of them starts to be simulated the model has no law for it."""
        def base():
            wn = wntr.network.WaterNetworkModel()
            wn.add_reservoir("R", base_head=50.0)
            wn.add_junction("A", base_demand=0.002, elevation=5.0)
            wn.add_junction("B", base_demand=0.002, elevation=5.0)
            wn.add_pipe("P1", "R", "A")
            wn.options.time.duration = 3600
            return wn

        def gpv(wn):
            wn.add_curve("g", "HEADLOSS", [(0.0, 0.0), (0.01, 5.0)])
            wn.add_valve("V", "A", "B", 0.2, "GPV", 0.0, "g")

        def pbv(wn):
            wn.add_valve("V", "A", "B", 0.2, "PBV", 0.0, 5.0)

        def dw(wn):
            wn.add_pipe("P2", "A", "B")
            wn.options.hydraulic.headloss = "D-W"

        def cm(wn):
            wn.add_pipe("P2", "A", "B")
            wn.options.hydraulic.headloss = "C-M"

        def speed(wn):
            wn.add_curve("c", "HEAD", [(0.05, 30.0)])
            wn.add_pump("PU", "A", "B", "HEAD", "c", speed=0.8)

        def speedpat(wn):
            wn.add_curve("c", "HEAD", [(0.05, 30.0)])
            wn.add_pattern("sp", [1.0, 0.7])
            wn.add_pump("PU", "A", "B", "HEAD", "c", speed=1.0, pattern="sp")

        broken = []
        for name, f in (("GPV", gpv), ("PBV", pbv), ("D-W", dw), ("C-M", cm), ("pump_speed", speed), ("pump_speed_pattern", speedpat)):
            wn = base()
            try:
                f(wn)
                wntr.sim.WNTRSimulator(wn).run_sim()
                ctx.count("simulated_without_a_model:" + name)
                broken.append(Broken("correspondence", "unsupported feature is simulated", "%s is no longer refused by WNTRSimulator; Model/LinkRows.lean has no row for it" % name))
            except NotImplementedError:
                ctx.count("refused:" + name)
            except Exception as e:
                ctx.count("refused_other:%s:%s" % (name, type(e).__name__))
            ctx.case(("refusal", name), nontrivial=False)
        return broken

    # ------------------------------------------------------------------ (c) pump smoothing coefficients
    def _smoothing(self, ctx, wntr):
        from wntr.sim.models import constraint

        rng = ctx.rng
        pcb = self._pump_consts(wntr)
        broken = []
        batch = Batch()
        for _ in range(30 if ctx.quick else 200):
            A = rng.uniform(10, 90)
            Cc = rng.choice([1, 2, rng.uniform(0.4, 0.99), rng.uniform(1.05, 3.0)])
            B = rng.uniform(5, 5000)
            if Cc <= 1:
                imp = list(constraint.get_pump_poly_coefficients(A, B, Cc, pcb)) + [None, None]
            else:
                imp = [None] * 4 + list(constraint.get_pump_line_params(A, B, Cc, pcb))

            def cb(o, imp=imp, A=A, B=B, Cc=Cc):
                lean = [bitsf(x) for x in o.split()]
                ctx.case(("smooth", "C<=1" if Cc <= 1 else "C>1"), nontrivial=True)
                ctx.count("smoothing")
                for a, b in zip(imp, lean):
                    if a is not None and not (a == b or abs(a - b) <= 1e-9 * max(abs(a), abs(b))) and len(broken) < 3:
                        broken.append(Broken("correspondence", "get_pump_poly_coefficients / get_pump_line_params vs Lean pumpPoly / pumpLine",
                                             "A=%r B=%r C=%r: impl %r lean %r" % (A, B, Cc, imp, lean)))

            batch.add("pumpsmooth %s %s %s" % (fbits(A), fbits(B), fbits(float(Cc))), cb)
        batch.run()
        return broken

    # ------------------------------------------------------------------ (d) the oracle on one real run
    def _judge(self, ctx, wntr, spec, cap, batch, failures, broken):
        if cap["error"] is not None:
            ctx.count("sim_exception")
            return
        res = cap["res"]
        for (nrm, tol) in cap["norms"]:
            ctx.count("solve_returns")
            if not nrm < tol:
                broken.append(Broken("correspondence", "NewtonSolver contract", "returned converged with max|r| = %r >= tol %r" % (nrm, tol)))
        if res.error_code is not None:
            ctx.count("run_not_converged")
        tb = C.Tables(res)
        if len(tb.times) != len(cap["frames"]):
            broken.append(Broken("correspondence", "save_results capture", "%d frames for %d reported times" % (len(cap["frames"]), len(tb.times))))
            return
        wn = cap["wn"]
        elev = {nd["name"]: nd.get("elevation", 0.0) for nd in spec["nodes"] if nd["type"] == "junction"}
        kinds = {nd["name"]: nd["type"] for nd in spec["nodes"]}
        coefs, refco = {}, {}
        for l in spec["links"]:
            if C.link_kind(l) == "headPump":
                coefs[l["name"]] = self._pump_coef(wntr, wn.get_link(l["name"]), spec["curves"][l["curve"]], failures, {"spec": spec.get("_origin", spec)})
                refco[l["name"]] = self._refcoef[l["name"]]
        ctx.count("sim_ok")
        ctx.count("steps", len(tb.times))
        for k, t in enumerate(tb.times):
            frm = cap["frames"][k]
            closed = set(x["name"] for x in spec["links"] if int(tb.status[k, tb.lcol[x["name"]]]) == 0)
            conn = C.connected_nodes(spec, closed)
            for l in spec["links"]:
                name = l["name"]
                kind = C.link_kind(l)
                c = tb.lcol[name]
                if name in frm["iso_l"]:
                    # WNTR flags the link isolated; the check decides itself: only a link whose two ends are really cut off from every
                    # tank / reservoir (own reachability over links not reported Closed) is outside the statement
                    if l["start"] not in conn and l["end"] not in conn:
                        ctx.count("skip:isolated_link")
                        continue
                    ctx.count("flagged_isolated_but_connected")
                sti = int(tb.status[k, c])
                rp = {"spec": spec.get("_origin", spec), "link": name, "t": t}
                if sti not in ST:
                    failures.append(Failure("link-status-value-%s" % kind, "link %s t=%d reports status %r" % (name, t, tb.status[k, c]), rp))
                    continue
                st = ST[sti]
                f = float(tb.flow[k, c])
                hs = float(tb.head[k, tb.ncol[l["start"]]])
                he = float(tb.head[k, tb.ncol[l["end"]]])
                setting = float(tb.setting[k, c]) if l["type"] == "valve" else 0.0
                scale = abs(hs) + abs(he) + abs(l.get("power", 0.0)) + abs(f) + abs(setting)
                if kind == "powerPump":
                    scale += abs((hs - he) * f * 9810.0)
                tol = C.TOL + C.SLACK * scale
                reg = "zero" if f == 0 else "tiny" if abs(f) < 1e-7 else "band" if abs(f) <= 4e-4 else "neg" if f < 0 else "pos"
                cv = bool(l.get("check_valve"))
                ctx.case((kind, st, reg, kinds[l["start"]], kinds[l["end"]], spec.get("hw_approx"), cv), nontrivial=(st != "c" or f != 0))
                ctx.count("link:%s/%s" % (kind + ("+cv" if cv else ""), STN[st]))
                ctx.count("flow:" + reg)
                line = self._row_line(spec, l, st, False, tol, f, hs, he, setting, elev, coefs.get(name))

                def cb(o, name=name, kind=kind, st=st, t=t, f=f, hs=hs, he=he, setting=setting, rp=rp, tol=tol, l=l):
                    ok, r = o.split()
                    r = bitsf(r)
                    self.max_ratio[kind] = max(self.max_ratio.get(kind, 0.0), abs(r) / tol if not math.isnan(r) else float("inf"))
                    if ok != "ok":
                        failures.append(Failure("link-law-%s-%s" % (kind, STN[st]),
                                                "link %s (%s, reported status %s) t=%d: flow %r, start head %r, end head %r, setting %r: the documented "
                                                "row of this kind/status evaluates to %r (tolerance %r); attributes %s"
                                                % (name, kind, STN[st], t, f, hs, he, setting, r, tol, json.dumps({k2: v for k2, v in l.items() if k2 not in ("name",)})),
                                                dict(rp, observed=r, expected=0.0)))

                batch.add(line, cb)
                if kind == "headPump" and st == "o" and f > 1e-6 and name in refco:
                    # the reported operating point against the curve fitted to the curve POINTS (independent fit)
                    line2 = self._row_line(spec, l, st, False, tol + GAP_TOL, f, hs, he, setting, elev, refco[name])

                    def cb3(o, name=name, t=t, f=f, hs=hs, he=he, rp=rp, l=l, pts=spec["curves"][l["curve"]], rc=refco[name]):
                        ok, r = o.split()
                        ctx.count("pump_vs_points")
                        if ok != "ok":
                            failures.append(Failure("head-pump-off-fitted-curve",
                                                    "open head pump %s t=%d: flow %r, head gain %r; the curve H = A - B*Q^C fitted to its points %r "
                                                    "(A,B,C = %r) gives %r at that flow (difference %r m)"
                                                    % (name, t, f, he - hs, pts, rc[:3], rc[0] - rc[1] * f ** rc[2], bitsf(r)),
                                                    dict(rp, observed=he - hs, expected=rc[0] - rc[1] * f ** rc[2])))

                    batch.add(line2, cb3)
                if st != "c" and (kind in ("headPump", "powerPump") or cv):
                    key = "head-pump-reverse-flow" if kind == "headPump" else "power-pump-reverse-flow" if kind == "powerPump" else "cv-pipe-reverse-flow"

                    def cb2(o, key=key, name=name, t=t, f=f, hs=hs, he=he, rp=rp, kind=kind):
                        ctx.count("norev:" + kind)
                        if o != "ok":
                            failures.append(Failure(key, "link %s (%s, reported open) t=%d reports flow %r < -Qtol; start head %r, end head %r"
                                                    % (name, kind + ("" if kind != "pipe" else " with check valve"), t, f, hs, he), dict(rp, observed=f, expected=">= -2.83168e-6")))

                    batch.add("norev %s" % fr(f), cb2)

    def _run_specs(self, ctx, wntr, specs):
        failures, broken = [], []
        batch = Batch()
        for spec in specs:
          for spec, cap in C.run_all(wntr, spec):
            C.count_features(ctx, spec)
            self._judge(ctx, wntr, spec, cap, batch, failures, broken)
            if len(ctx.samples) < 4 and cap["res"] is not None:
                ctx.sample({"nodes": len(spec["nodes"]), "links": [(l["name"], C.link_kind(l), l["start"], l["end"]) for l in spec["links"]][:8],
                            "hw_approx": spec.get("hw_approx"), "reported_steps": len(cap["frames"])})
        batch.run()
        failures.sort(key=lambda f: len(json.dumps(f.replay, default=str)))
        return failures, broken

    # ------------------------------------------------------------------ correspondence + oracle
    def correspondence(self, ctx):
        wntr = vlib.import_wntr()
        self.max_ratio, self.fit3 = {}, 0.0
        self._refcache, self._refcoef = {}, {}
        failures, broken = [], []
        if not hasattr(self, "info"):
            self.info = T.gen_c02(wntr)[1]
        npts = 6 if ctx.quick else 40
        broken += C.zoo_agreement(ctx, wntr, "C02D", self.info["names"]["default"], "DD", "default", npts, lambda mbc, lc: lc)
        broken += C.zoo_agreement(ctx, wntr, "C02P", self.info["names"]["piecewise"], "PDD", "piecewise", npts, lambda mbc, lc: lc)
        broken += self._conditions(ctx, wntr)
        broken += self._smoothing(ctx, wntr)
        broken += self._tracker(ctx, wntr)
        broken += self._refusals(ctx, wntr)
        corpus = [c["spec"] for _, c in vlib.corpus_items(self.pid) if "spec" in c]
        specs = corpus + C.edit_between_runs_specs(ctx, 8 if ctx.quick else 48) + C.postsolve_setting_specs(ctx, wntr, 1 if ctx.quick else 6) + C.gen_specs(ctx, 30 if ctx.quick else 400, 22 if ctx.quick else 132)
        f, b = self._static_rows(ctx, wntr, specs[: (26 if ctx.quick else 250)])
        failures += f
        broken += b
        f, b = self._run_specs(ctx, wntr, specs)
        failures += f
        broken += b
        ctx.cov["max_residual_over_tolerance"] = {k: round(v, 6) for k, v in self.max_ratio.items()}
        ctx.cov["max_gap_code_fit_vs_point_fit_m"] = self.fit3
        ctx.cov["tolerance"] = "|row| <= %g + %g*(|hs|+|he|+|P|+|q|+|setting| (+|dh*q*9810| for power pumps)); reverse flow >= -2.83168e-6" % (C.TOL, C.SLACK)
        return failures, broken

    def search(self, ctx, broken):
        wntr = vlib.import_wntr()
        self.max_ratio, self.fit3 = {}, 0.0
        self._refcache, self._refcoef = {}, {}
        corpus = [c["spec"] for _, c in vlib.corpus_items(self.pid) if "spec" in c]
        f, b = self._run_specs(ctx, wntr, corpus + C.edit_between_runs_specs(ctx, 16) + C.postsolve_setting_specs(ctx, wntr, 3) + C.gen_specs(ctx, 60, 44))
        return f

    def replay(self, ctx, path):
        r = json.load(open(path if os.path.isabs(path) else os.path.join(vlib.VERIF, path)))
        print(json.dumps({k: v for k, v in r.items() if k != "replay"}, indent=1, default=str)[:3000])
        rp = r.get("replay", {})
        if "spec" not in rp:
            print("replay: nothing to re-run (no concrete input recorded)")
            return 0
        wntr = vlib.import_wntr()
        self.max_ratio, self.fit3 = {}, 0.0
        self._refcache, self._refcoef = {}, {}
        fs, bs = self._run_specs(ctx, wntr, [rp["spec"]])
        hit = [f for f in fs if f.key == r.get("key")]
        print("replay: %s" % ("REPRODUCED " + hit[0].what if hit else "not reproduced on the current tree"))
        return 1 if hit else 0


if __name__ == "__main__":
    vlib.run_check(C02)
