"""C20 formula translator: python `ast` of the wntr.metrics functions -> terms of `Wntr.Metrics.MExpr`.

A small abstract interpreter executes the body of each metric function ONCE on symbolic values in which pandas
broadcasting is flattened to one time and one element:

  Num(e)        a scalar (per time) -- options, parameters, `.sum(axis=1)` results
  Fr(idx, e)    a DataFrame / Series whose columns range over the index set `idx`; `e` is the value of the
                current element ("row"), an expression over the row's named inputs
  Tab(name)     a results table parameter that still has all node / link columns; `tab.loc[:, names]` selects
  Net, Elem, ElemName, Names, NodeRef, Iter, Lookup... the WaterNetworkModel API the metrics use

Loops over `wn.pumps()`, `wn.nodes(Tank)`, name lists ... are executed once with the loop variable bound to the
generic element; column assignments inside build an `Fr`, `acc = acc + x` builds a `sum`.  `if` on a symbolic
condition executes both branches and merges them with `ite`; a branch that raises becomes `raise`.
Calls of functions defined in the same module (and Tank.get_volume) are inlined.  Anything outside this subset
raises BrokenTie: the tie is then reported as broken, never silently skipped.
"""
import ast
import os
import re
import sys
from fractions import Fraction

sys.path.insert(0, os.path.dirname(os.path.dirname(os.path.abspath(__file__))))
import vlib
from vlib import BrokenTie


# ----------------------------------------------------------------------------- symbolic values
class V:
    pass


class Num(V):
    def __init__(self, e, given=False):
        self.e, self.given = e, given  # given: an argument the caller supplied (not None)


class Fr(V):
    """lab -- how pandas / numpy will PAIR this value with another one:
         ("name", idx)   columns labelled by the element names of idx (label alignment: same name <-> same element)
         ("node", role)  columns labelled by the start / end NODE names of the links of idx
         ("pos", order)  a numpy array: paired by position; order = (idx, order of the name list it was built from)
         None            one column (a time Series / a scalar) of the element the enclosing loop is at"""

    def __init__(self, idx, e, attr=False, lab="default"):
        self.idx, self.e, self.attr = idx, e, attr  # attr: an attribute of the element (may be None), not a table
        self.lab = (None if attr else ("name", idx)) if lab == "default" else lab
        self.order = "canon"  # order of the columns of a name-labelled table (matters once it becomes a numpy array)


class Tab(V):
    def __init__(self, name):
        self.name = name


class Net(V):
    pass


class Opt(V):
    def __init__(self, path):
        self.path = path


class Names(V):
    def __init__(self, idx, order="canon"):
        self.idx, self.order = idx, order  # order matters only where values are paired by position


class ElemName(V):
    def __init__(self, idx):
        self.idx = idx


class Elem(V):
    def __init__(self, idx):
        self.idx = idx


class NodeRef(V):  # start / end node name of the current link (many: the list of them, one per link, in `order`)
    def __init__(self, idx, role, many=False, order="canon"):
        self.idx, self.role, self.many, self.order = idx, role, many, order


class Iter(V):
    def __init__(self, idx, pair):
        self.idx, self.pair = idx, pair


class Lookup(V):
    def __init__(self, name):
        self.name = name


class LIndex(V):
    def __init__(self, name):
        self.name = name


class LDiff(V):  # table.index - x  (abs: np.abs applied)
    def __init__(self, name, x, absd=False):
        self.name, self.x, self.absd = name, x, absd


class LNearest(V):
    def __init__(self, name, x):
        self.name, self.x = name, x


class VolCurve(V):
    def __init__(self, idx, stage):  # stage: 'curve' | 'points' | 'array' | 0 | 1
        self.idx, self.stage = idx, stage


class Tup(V):
    def __init__(self, items):
        self.items = items


class DictCols(V):
    def __init__(self, idx=None, e=None):
        self.idx, self.e = idx, e


class EmptyFrame(V):
    pass


class TimeIndex(V):
    pass


class Cols(V):
    pass


class Py(V):  # a python constant
    def __init__(self, v):
        self.v = v


class Mod(V):
    def __init__(self, name):
        self.name = name


class Klass(V):
    def __init__(self, name):
        self.name = name


class Rel(V):
    pass


class Opaque(V):  # loggers etc.
    pass


class TimeGrid(V):  # np.arange(start, end + step, step): the evaluation times
    pass


class TimeList(V):  # a python list with one entry per evaluation time
    def __init__(self, item):
        self.item = item


class DemandList(V):  # junction.demand_timeseries_list
    def __init__(self, idx):
        self.idx = idx


class CategoryParam(V):  # the `category` argument, passed through
    pass


class Mask(V):  # a boolean DataFrame / Series: `table != 0`
    def __init__(self, idx, c):
        self.idx, self.c = idx, c


class Poison(V):  # a helper variable whose two branch values cannot be merged; an error only if it is used
    def __init__(self, why):
        self.why = why


def camel(s):
    parts = [p for p in s.split("_") if p]
    if not parts:
        raise BrokenTie("empty name")
    return parts[0] + "".join(p[:1].upper() + p[1:] for p in parts[1:])


KNOWN_VARS = (
    "demand head pressure elevation flowrate expectedDemand level maxLevel minLevel diameter volCurve "
    "length power valveType energyPrice energyPattern efficiency energy curveA curveB curveC pop arg1 arg2 "
    "averageExpectedDemand Pstar R globalEfficiency globalPrice globalPattern demandCharge reportTimestep pi "
    "ts patternStart demandMultiplier"
).split()
KNOWN_IDX = "junctions reservoirs pumps tanks pipes headPumps powerPumps valves".split()
TABLES = {"tank_cost": "tankCost", "pipe_cost": "pipeCost", "prv_cost": "prvCost", "pump_cost": "pumpCost", "pipe_ghg": "pipeGhg"}

NAME_LISTS = {"junction_name_list": "junctions", "reservoir_name_list": "reservoirs", "tank_name_list": "tanks",
              "pump_name_list": "pumps", "pipe_name_list": "pipes", "valve_name_list": "valves"}
ITERS = {"pumps": "pumps", "head_pumps": "headPumps", "power_pumps": "powerPumps", "junctions": "junctions",
         "reservoirs": "reservoirs", "tanks": "tanks", "pipes": "pipes", "valves": "valves"}
CLASS_IDX = {"Tank": "tanks", "Pipe": "pipes", "Valve": "valves", "Pump": "pumps", "Junction": "junctions", "Reservoir": "reservoirs"}


class Raised(Exception):
    pass


class Returned(Exception):
    def __init__(self, v):
        self.v = v


# ----------------------------------------------------------------------------- expression helpers
def const(x):
    return ("const", Fraction(x))


def expr_of(v, what=""):
    if isinstance(v, (Num, Fr)):
        return v.e
    if isinstance(v, Py) and isinstance(v.v, (int, float)) and not isinstance(v.v, bool):
        return const(Fraction(repr(v.v)) if isinstance(v.v, float) else v.v)
    raise BrokenTie("a number or a table column was expected %s, got %s" % (what, type(v).__name__))


def lift2(a, b, f, what):
    """combine two values elementwise (pandas alignment must be trivial: same index set, or a scalar)"""
    ea, eb = expr_of(a, what), expr_of(b, what)
    ia = a.idx if isinstance(a, Fr) else None
    ib = b.idx if isinstance(b, Fr) else None
    if ia is not None and ib is not None and ia != ib:
        raise BrokenTie("%s combines columns over %s with columns over %s (pandas would misalign)" % (what, ia, ib))
    idx = ia if ia is not None else ib
    e = f(ea, eb)
    if idx is None:
        return Num(e)
    if isinstance(a, Fr) and isinstance(b, Fr):
        if a.lab != b.lab:
            raise BrokenTie("%s pairs values that pandas / numpy would not pair element by element: %s with %s"
                            % (what, lab_str(a.lab), lab_str(b.lab)))
        lab = a.lab
        order = a.order if a.order == b.order else "mixed(%s,%s)" % (a.order, b.order)
    else:
        lab = a.lab if isinstance(a, Fr) else b.lab
        order = a.order if isinstance(a, Fr) else b.order
    r = Fr(idx, e, lab=lab)
    r.order = order
    return r


def lab_str(l):
    if l is None:
        return "a single column of the current element"
    if l[0] == "name":
        return "columns labelled by the names of the %s" % l[1]
    if l[0] == "node":
        return "columns labelled by the %s node names" % l[1].lower()
    return "a numpy array in the order of %s (%s)" % l[1]


def lift1(a, f, what):
    e = f(expr_of(a, what))
    if not isinstance(a, Fr):
        return Num(e)
    r = Fr(a.idx, e, lab=a.lab)
    r.order = a.order
    return r


def mentions_prev(e):
    if not isinstance(e, tuple):
        return False
    if e and e[0] == "prev":
        return True
    return any(mentions_prev(x) for x in e[1:])


class Interp:
    def __init__(self, modules):
        # modules: {modname: ast.Module}; functions looked up by name across them (same-module first)
        self.modules = modules
        self.funcs = {}
        for mn, tree in modules.items():
            for n in tree.body:
                if isinstance(n, ast.FunctionDef):
                    self.funcs.setdefault((mn, n.name), n)
                if isinstance(n, ast.ClassDef):
                    for m in n.body:
                        if isinstance(m, ast.FunctionDef):
                            self.funcs.setdefault((mn, n.name + "." + m.name), m)
        self.notes = []
        self.depth = 0

    # ---------------------------------------------------------------- function call
    def call_function(self, mod, name, args, kwargs):
        fn = self.funcs.get((mod, name))
        if fn is None:
            raise BrokenTie("function %s.%s not found" % (mod, name))
        if self.depth > 4:
            raise BrokenTie("call depth exceeded at %s" % name)
        a = fn.args
        if a.vararg or a.kwarg or a.kwonlyargs or a.posonlyargs:
            raise BrokenTie("%s: unsupported signature" % name)
        params = [x.arg for x in a.args]
        env = {}
        defaults = dict(zip(params[len(params) - len(a.defaults):], a.defaults))
        if len(args) > len(params):
            raise BrokenTie("%s: too many arguments" % name)
        for p, v in zip(params, args):
            env[p] = v
        for k, v in kwargs.items():
            if k not in params or k in env:
                raise BrokenTie("%s: bad keyword %s" % (name, k))
            env[k] = v
        for p in params:
            if p not in env:
                if p in defaults:
                    env[p] = self.ev(defaults[p], {}, mod)
                else:
                    raise BrokenTie("%s: missing argument %s" % (name, p))
        st = {"vars": env, "guards": [], "mod": mod, "loop": None}
        self.depth += 1
        try:
            try:
                self.block(fn.body, st)
                res = Py(None)
            except Returned as r:
                res = r.v
            except Raised:
                res = Num(("raise",))
        finally:
            self.depth -= 1
        if st["guards"]:
            g = st["guards"][0]
            for c in st["guards"][1:]:
                g = ("and", g, c)
            if isinstance(res, Fr):
                res = Fr(res.idx, ("ite", g, res.e, ("raise",)), lab=res.lab)
            elif isinstance(res, Num):
                res = Num(("ite", g, res.e, ("raise",)))
            else:
                raise BrokenTie("%s: guarded result of unsupported kind" % name)
        return res

    # ---------------------------------------------------------------- statements
    def block(self, stmts, st):
        for s in stmts:
            self.stmt(s, st)

    def stmt(self, s, st):
        if isinstance(s, ast.Expr):
            if isinstance(s.value, ast.Constant):
                return  # docstring
            if isinstance(s.value, ast.Call):
                f = s.value.func
                if isinstance(f, ast.Attribute) and isinstance(f.value, ast.Name) and f.value.id in ("logger", "logging", "warnings"):
                    return
                if isinstance(f, ast.Attribute) and f.attr == "append" and isinstance(f.value, ast.Name) and len(s.value.args) == 1:
                    cur = st["vars"].get(f.value.id)
                    item = self.ev(s.value.args[0], st["vars"], st["mod"])
                    if st.get("timeloop") and isinstance(item, (Num, Fr)) and (
                            (isinstance(cur, Py) and cur.v == []) or isinstance(cur, TimeList)):
                        st["vars"][f.value.id] = TimeList(item)  # one entry per evaluation time
                        return
                    raise BrokenTie("unsupported list.append: " + ast.unparse(s)[:80])
            self.ev(s.value, st["vars"], st["mod"])
            return
        if isinstance(s, ast.Assert):
            self.notes.append("assert skipped: " + ast.unparse(s.test)[:80])
            return
        if isinstance(s, ast.Pass):
            return
        if isinstance(s, ast.Assign):
            if len(s.targets) != 1:
                raise BrokenTie("chained assignment")
            self.assign(s.targets[0], self.ev(s.value, st["vars"], st["mod"]), st)
            return
        if isinstance(s, ast.AugAssign):
            cur = self.ev(s.target, st["vars"], st["mod"])
            val = self.binop(s.op, cur, self.ev(s.value, st["vars"], st["mod"]))
            self.assign(s.target, val, st)
            return
        if isinstance(s, ast.Return):
            raise Returned(self.ev(s.value, st["vars"], st["mod"]) if s.value is not None else Py(None))
        if isinstance(s, ast.Raise):
            raise Raised()
        if isinstance(s, ast.Try):
            self.block(s.body, st)  # handlers only log
            return
        if isinstance(s, ast.If):
            return self.if_stmt(s, st)
        if isinstance(s, ast.For):
            return self.for_stmt(s, st)
        raise BrokenTie("unsupported statement: %s" % ast.unparse(s)[:80])

    def assign(self, tgt, val, st):
        vars_ = st["vars"]
        if isinstance(tgt, ast.Name):
            vars_[tgt.id] = val
            return
        if isinstance(tgt, ast.Tuple):
            if not isinstance(val, Tup) or len(val.items) != len(tgt.elts):
                raise BrokenTie("tuple assignment from %s" % type(val).__name__)
            for t, v in zip(tgt.elts, val.items):
                self.assign(t, v, st)
            return
        if isinstance(tgt, ast.Subscript):
            # frame[name] = col | frame.loc[:, name] = col | dict[name] = col
            base = tgt.value
            key = tgt.slice
            if isinstance(base, ast.Attribute) and base.attr == "loc":
                base = base.value
                if not (isinstance(key, ast.Tuple) and len(key.elts) == 2 and isinstance(key.elts[0], ast.Slice)
                        and key.elts[0].lower is None and key.elts[0].upper is None):
                    raise BrokenTie("unsupported .loc assignment: " + ast.unparse(tgt))
                key = key.elts[1]
            if not isinstance(base, ast.Name):
                raise BrokenTie("unsupported assignment target: " + ast.unparse(tgt))
            cont = vars_.get(base.id)
            k = self.ev(key, vars_, st["mod"])
            if not isinstance(k, ElemName):
                raise BrokenTie("column assignment with a key that is not the loop's element name: " + ast.unparse(tgt))
            if isinstance(val, TimeList):
                val = val.item
            e = expr_of(val, "in " + ast.unparse(tgt))
            if isinstance(val, Fr) and val.lab is not None:
                raise BrokenTie("a whole table (%s) assigned to one column: %s" % (lab_str(val.lab), ast.unparse(tgt)))
            if isinstance(val, Fr) and val.idx != k.idx:
                raise BrokenTie("column of %s assigned under a name of %s" % (val.idx, k.idx))
            if isinstance(cont, DictCols):
                if cont.idx not in (None, k.idx):
                    raise BrokenTie("dict filled from two loops")
                vars_[base.id] = DictCols(k.idx, e)
            elif isinstance(cont, (EmptyFrame, Fr)):
                if isinstance(cont, Fr) and cont.idx != k.idx:
                    raise BrokenTie("frame filled from two loops")
                vars_[base.id] = Fr(k.idx, e)
            else:
                raise BrokenTie("column assignment into %s" % type(cont).__name__)
            return
        raise BrokenTie("unsupported assignment target: " + ast.unparse(tgt))

    # ---- if
    def cond(self, test, vars_, mod):
        """-> bool (static) or a Cond tuple"""
        if isinstance(test, ast.BoolOp):
            parts = [self.cond(v, vars_, mod) for v in test.values]
            isand = isinstance(test.op, ast.And)
            out = None
            for p in parts:
                if isinstance(p, bool):
                    if isand and not p:
                        return False
                    if (not isand) and p:
                        return True
                    continue
                out = p if out is None else (("and" if isand else "or"), out, p)
            return out if out is not None else isand
        if isinstance(test, ast.UnaryOp) and isinstance(test.op, ast.Not):
            c = self.cond(test.operand, vars_, mod)
            return (not c) if isinstance(c, bool) else ("not", c)
        if isinstance(test, ast.Compare) and len(test.ops) == 1:
            op = test.ops[0]
            l = self.ev(test.left, vars_, mod)
            r = self.ev(test.comparators[0], vars_, mod)
            if isinstance(op, (ast.Is, ast.IsNot)):
                if not (isinstance(r, Py) and r.v is None):
                    raise BrokenTie("unsupported identity test: " + ast.unparse(test))
                c = self.is_none(l, test)
                if isinstance(op, ast.IsNot):
                    c = (not c) if isinstance(c, bool) else ("not", c)
                return c
            if isinstance(op, (ast.Eq, ast.NotEq)):
                neg = isinstance(op, ast.NotEq)
                if isinstance(l, Py) and isinstance(r, Py):
                    c = l.v == r.v
                    return (not c) if neg else c
                if isinstance(l, Fr) and l.e[0] == "var" and isinstance(r, Py) and isinstance(r.v, str):
                    c = ("strEq", l.e[1], r.v)
                    return ("not", c) if neg else c
                if isinstance(l, Num) and l.e[0] == "gvar" and isinstance(r, Py) and r.v == 0 and not isinstance(r.v, bool):
                    c = ("gNonzero", l.e[1])
                    return c if neg else ("not", c)
            raise BrokenTie("unsupported comparison: " + ast.unparse(test))
        v = self.ev(test, vars_, mod)
        if isinstance(v, Py):
            return bool(v.v)
        raise BrokenTie("unsupported condition: " + ast.unparse(test))

    def is_none(self, v, node):
        if isinstance(v, Py):
            return v.v is None
        if isinstance(v, Fr) and v.e[0] == "var" and v.attr:
            return ("isNone", v.e[1])
        if isinstance(v, VolCurve) and v.stage == "curve":
            return ("isNone", "volCurve")
        if isinstance(v, Num) and v.given:
            return False
        if isinstance(v, Num) and v.e[0] == "gvar":
            return ("gIsNone", v.e[1])
        if isinstance(v, (Lookup, Tab, Net, Rel)) or isinstance(v, (Fr, Num)):
            return False  # a supplied table / computed value is not None
        raise BrokenTie("`is None` on %s: %s" % (type(v).__name__, ast.unparse(node)))

    def if_stmt(self, s, st):
        c = self.cond(s.test, st["vars"], st["mod"])
        if isinstance(c, bool):
            self.block(s.body if c else s.orelse, st)
            return
        rowlevel = self.cond_is_row(c)
        res = []
        for body in (s.body, s.orelse):
            st2 = {"vars": dict(st["vars"]), "guards": list(st["guards"]), "mod": st["mod"], "loop": st["loop"]}
            try:
                self.block(body, st2)
                res.append(st2)
            except Raised:
                res.append(None)
        a, b = res
        if a is None and b is None:
            raise Raised()
        if a is None or b is None:
            live = a if b is None else b
            cc = c if b is None else ("not", c)
            changed = [k for k in live["vars"] if live["vars"][k] is not st["vars"].get(k)]
            if changed:
                for k in changed:
                    v = live["vars"][k]
                    if isinstance(v, Fr):
                        live["vars"][k] = Fr(v.idx, ("ite", cc, v.e, ("raise",)), lab=v.lab)
                    elif isinstance(v, DictCols) and v.idx is not None:
                        live["vars"][k] = DictCols(v.idx, ("ite", cc, v.e, ("raise",)))
                    elif isinstance(v, Num):
                        live["vars"][k] = Num(("ite", cc, v.e, ("raise",)))
                    else:
                        raise BrokenTie("raise guarding %s of kind %s" % (k, type(v).__name__))
            elif rowlevel:
                raise BrokenTie("a per-element `raise` that guards no value: " + ast.unparse(s.test))
            else:
                live["guards"].append(cc)
            st["vars"], st["guards"] = live["vars"], live["guards"]
            return
        if a["guards"] != st["guards"] or b["guards"] != st["guards"]:
            raise BrokenTie("guards inside both branches of an if")
        out = dict(st["vars"])
        for k in set(a["vars"]) | set(b["vars"]):
            va, vb = a["vars"].get(k), b["vars"].get(k)
            if va is vb:
                if va is not None:
                    out[k] = va
                continue
            if va is None or vb is None:
                # assigned in one branch only and not defined before: usable only inside that branch
                out[k] = va if va is not None else vb
                continue
            out[k] = self.merge(c, va, vb, k)
        st["vars"] = out

    def merge(self, c, va, vb, k):
        if isinstance(va, (Num, Fr)) and isinstance(vb, (Num, Fr)):
            ia = va.idx if isinstance(va, Fr) else None
            ib = vb.idx if isinstance(vb, Fr) else None
            if ia is not None and ib is not None and ia != ib:
                raise BrokenTie("branches give %s different index sets" % k)
            idx = ia if ia is not None else ib
            ea, eb = va.e, vb.e
            # acc = acc + x  in one branch only:  acc + ite(c, x, 0)
            def split(e):
                if e == ("prev", k):
                    return const(0)
                if e[0] == "add" and e[1] == ("prev", k) and not mentions_prev(e[2]):
                    return e[2]
                return None
            sa, sb = split(ea), split(eb)
            if sa is not None and sb is not None:
                e = ("add", ("prev", k), ("ite", c, sa, sb))
            else:
                e = ("ite", c, ea, eb)
            if idx is None:
                return Num(e)
            la = [v.lab for v in (va, vb) if isinstance(v, Fr)]
            if len(la) == 2 and la[0] != la[1]:
                raise BrokenTie("branches give %s differently labelled values" % k)
            return Fr(idx, e, lab=la[0])
        if isinstance(va, DictCols) and isinstance(vb, DictCols) and va.idx == vb.idx and va.idx is not None:
            return DictCols(va.idx, ("ite", c, va.e, vb.e))
        return Poison("%s differs between the branches of an if (%s / %s)" % (k, type(va).__name__, type(vb).__name__))

    def cond_is_row(self, c):
        if c[0] in ("isNone", "strEq", "rel", "nonzero"):
            return True
        if c[0] in ("gIsNone", "gNonzero", "tt"):
            return False
        return any(self.cond_is_row(x) for x in c[1:] if isinstance(x, tuple))

    # ---- for
    def for_stmt(self, s, st):
        if s.orelse:
            raise BrokenTie("for/else")
        it = self.ev(s.iter, st["vars"], st["mod"])
        if isinstance(it, TimeGrid):  # executed once, at the generic evaluation time `ts`
            if st.get("timeloop"):
                raise BrokenTie("nested loops over times")
            self.assign(s.target, Num(("var", "ts"), given=True), st)
            st["timeloop"] = True
            try:
                self.block(s.body, st)
            finally:
                st["timeloop"] = False
            return
        if isinstance(it, Iter):
            idx = it.idx
            bind = Tup([ElemName(idx), Elem(idx)]) if it.pair else Elem(idx)
        elif isinstance(it, Names):
            idx = it.idx
            bind = ElemName(idx)
        else:
            raise BrokenTie("loop over %s: %s" % (type(it).__name__, ast.unparse(s.iter)))
        if st["loop"] is not None:
            raise BrokenTie("nested loops over elements")
        for k, v in list(st["vars"].items()):  # `acc = 0` is a scalar accumulator too
            if isinstance(v, Py) and isinstance(v.v, (int, float)) and not isinstance(v.v, bool):
                st["vars"][k] = Num(expr_of(v))
        before = dict(st["vars"])
        # scalar accumulators: replace by a placeholder, recognise acc = acc + x afterwards
        for k, v in before.items():
            if isinstance(v, Num):
                st["vars"][k] = Num(("prev", k))
        self.assign(s.target, bind, st)
        st["loop"] = idx
        try:
            self.block(s.body, st)
        finally:
            st["loop"] = None
        for k, v0 in before.items():
            if not isinstance(v0, Num):
                continue
            v = st["vars"].get(k)
            e = v.e if isinstance(v, (Num, Fr)) else None
            if e == ("prev", k):
                st["vars"][k] = v0
                continue
            if e is not None and e[0] == "add" and e[1] == ("prev", k) and not mentions_prev(e[2]):
                if isinstance(v, Fr) and v.idx != idx:
                    raise BrokenTie("accumulating columns of %s in a loop over %s" % (v.idx, idx))
                st["vars"][k] = Num(("add", v0.e, ("sum", idx, e[2])))
                continue
            raise BrokenTie("scalar %s is changed in a loop in a way that is not `acc = acc + term`" % k)
        # scalars that were only READ inside the loop: put their value back
        unchanged = {k: v0.e for k, v0 in before.items() if isinstance(v0, Num) and st["vars"].get(k) is v0}

        def subst(e):
            if not isinstance(e, tuple):
                return e
            if e and e[0] == "prev" and e[1] in unchanged:
                return unchanged[e[1]]
            return tuple(subst(x) for x in e)

        for k, v in list(st["vars"].items()):
            if isinstance(v, (Num, Fr, DictCols)) and v.e is not None and mentions_prev(v.e):
                v2 = subst(v.e)
                if mentions_prev(v2):
                    raise BrokenTie("value of %s depends on an accumulator inside the loop" % k)
                if isinstance(v, Num):
                    st["vars"][k] = Num(v2, v.given)
                elif isinstance(v, Fr):
                    st["vars"][k] = Fr(v.idx, v2, v.attr, lab=v.lab)
                else:
                    st["vars"][k] = DictCols(v.idx, v2)
        # loop-local per-element values stay usable as columns (Fr over idx)

    # ---------------------------------------------------------------- expressions
    def binop(self, op, a, b):
        if isinstance(a, LIndex) and isinstance(op, ast.Sub) and isinstance(b, (Num, Fr)):
            return LDiff(a.name, b)
        names = {ast.Add: "add", ast.Sub: "sub", ast.Mult: "mul", ast.Div: "div"}
        for t, nm in names.items():
            if isinstance(op, t):
                return lift2(a, b, lambda x, y: (nm, x, y), nm)
        if isinstance(op, ast.Pow):
            if isinstance(b, Py) and isinstance(b.v, int) and not isinstance(b.v, bool) and b.v >= 0:
                return lift1(a, lambda x: ("pow", x, b.v), "pow")
            return lift2(a, b, lambda x, y: ("fn2", "rpow", x, y), "pow")
        raise BrokenTie("unsupported operator %s" % type(op).__name__)

    def ev(self, n, vars_, mod):
        if isinstance(n, ast.Constant):
            return Py(n.value)
        if isinstance(n, ast.Name):
            if n.id in vars_:
                return vars_[n.id]
            if n.id in ("np", "numpy", "pd", "pandas", "math", "scipy", "wntr"):
                return Mod(n.id)
            if n.id in CLASS_IDX:
                return Klass(n.id)
            if (mod, n.id) in self.funcs:
                return Py(("func", mod, n.id))
            for (m2, f2) in self.funcs:
                if f2 == n.id and "." not in f2:
                    return Py(("func", m2, f2))
            if n.id in ("sorted", "reversed", "list"):
                return Py(("builtin", n.id))
            if n.id in ("logger", "float", "int", "str", "bool", "object"):
                return Opaque()
            raise BrokenTie("unknown name %s" % n.id)
        if isinstance(n, ast.BinOp):
            return self.binop(n.op, self.ev(n.left, vars_, mod), self.ev(n.right, vars_, mod))
        if isinstance(n, ast.UnaryOp):
            v = self.ev(n.operand, vars_, mod)
            if isinstance(n.op, ast.USub):
                if isinstance(v, Py) and isinstance(v.v, (int, float)):
                    return Py(-v.v)
                return lift1(v, lambda x: ("neg", x), "unary minus")
            if isinstance(n.op, ast.UAdd):
                return v
            raise BrokenTie("unsupported unary operator")
        if isinstance(n, ast.Dict) and not n.keys:
            return DictCols()
        if isinstance(n, ast.List):
            items = [self.ev(e, vars_, mod) for e in n.elts]
            if len(items) == 1 and isinstance(items[0], LDiff):
                return items[0]
            if all(isinstance(i, Py) for i in items):
                return Py([i.v for i in items])
            raise BrokenTie("unsupported list: " + ast.unparse(n)[:80])
        if isinstance(n, ast.ListComp):
            return self.listcomp(n, vars_, mod)
        if isinstance(n, ast.Attribute):
            return self.attr(self.ev(n.value, vars_, mod), n.attr, n)
        if isinstance(n, ast.Subscript):
            return self.subscript(n, vars_, mod)
        if isinstance(n, ast.Call):
            return self.call(n, vars_, mod)
        if isinstance(n, ast.Compare) and len(n.ops) == 1 and isinstance(n.ops[0], (ast.NotEq, ast.Eq)):
            l = self.ev(n.left, vars_, mod)
            r = self.ev(n.comparators[0], vars_, mod)
            if isinstance(l, Fr) and not l.attr and l.e[0] == "var" and isinstance(r, Py) and r.v == 0 and not isinstance(r.v, bool):
                c = ("nonzero", l.e[1])
                return Mask(l.idx, c if isinstance(n.ops[0], ast.NotEq) else ("not", c))
        if isinstance(n, ast.Compare) or isinstance(n, ast.BoolOp):
            c = self.cond(n, vars_, mod)
            if isinstance(c, bool):
                return Py(c)
        raise BrokenTie("unsupported expression: " + ast.unparse(n)[:80])

    def listcomp(self, n, vars_, mod):
        if len(n.generators) != 1 or n.generators[0].ifs:
            raise BrokenTie("unsupported comprehension: " + ast.unparse(n)[:80])
        g = n.generators[0]
        it = self.ev(g.iter, vars_, mod)
        v2 = dict(vars_)
        if isinstance(it, Iter):  # [f(name, elem) for name, elem in wn.pumps()]
            bound = [ElemName(it.idx), Elem(it.idx)]
            tg = g.target.elts if isinstance(g.target, ast.Tuple) else None
            if it.pair and tg is not None and len(tg) == 2 and all(isinstance(t, ast.Name) for t in tg):
                v2[tg[0].id], v2[tg[1].id] = bound
            else:
                raise BrokenTie("unsupported comprehension target")
            r = self.ev(n.elt, v2, mod)
            if isinstance(r, NodeRef) and r.idx == it.idx and not r.many:
                return NodeRef(r.idx, r.role, many=True, order="canon")
            if isinstance(r, Fr) and r.idx == it.idx and r.lab is None:
                return Fr(r.idx, r.e, lab=("pos", (it.idx, "canon")))
            if isinstance(r, ElemName) and r.idx == it.idx:
                return Names(it.idx)
            raise BrokenTie("comprehension over %s gives %s" % (it.idx, type(r).__name__))
        if not isinstance(g.target, ast.Name):
            raise BrokenTie("unsupported comprehension target")
        if isinstance(it, TimeIndex):
            v2[g.target.id] = Opaque()
            r = self.ev(n.elt, v2, mod)  # must not depend on the time: Opaque cannot be combined
            if not isinstance(r, (Num, Fr)):
                raise BrokenTie("per-time list of %s" % type(r).__name__)
            return r
        if isinstance(it, Names):
            v2[g.target.id] = ElemName(it.idx)
            r = self.ev(n.elt, v2, mod)
            if isinstance(r, NodeRef) and r.idx == it.idx and not r.many:
                return NodeRef(r.idx, r.role, many=True, order=it.order)
            if isinstance(r, Fr) and r.idx == it.idx and r.lab is None:
                return Fr(r.idx, r.e, lab=("pos", (it.idx, it.order)))  # a python list, one entry per element
            if isinstance(r, ElemName) and r.idx == it.idx:
                return Names(it.idx, it.order)
            raise BrokenTie("comprehension over %s gives %s" % (it.idx, type(r).__name__))
        raise BrokenTie("comprehension over %s" % type(it).__name__)

    def attr(self, v, a, node):
        if isinstance(v, Net):
            if a in NAME_LISTS:
                return Names(NAME_LISTS[a])
            if a == "options":
                return Opt(())
            return Py(("netmethod", a))
        if isinstance(v, Opt):
            if len(v.path) == 0:
                return Opt((a,))
            return Num(("gvar", camel(a)))
        if isinstance(v, Elem):
            if a == "start_node_name":
                return NodeRef(v.idx, "Start")
            if a == "end_node_name":
                return NodeRef(v.idx, "End")
            if a == "vol_curve":
                return VolCurve(v.idx, "curve")
            if a == "demand_timeseries_list":
                return DemandList(v.idx)
            if a in ("get_volume", "get_head_curve_coefficients"):
                return Py(("elemmethod", v.idx, a))
            return Fr(v.idx, ("var", camel(a)), attr=True)
        if isinstance(v, DemandList) and a == "at":
            return Py(("demandsat", v.idx))
        if isinstance(v, VolCurve) and v.stage == "curve" and a == "points":
            return VolCurve(v.idx, "points")
        if isinstance(v, Fr) and a == "values":  # numpy array: paired by position from here on
            return v if (v.lab is None or v.lab[0] == "pos") else Fr(v.idx, v.e, lab=("pos", (v.idx, v.order)))
        if isinstance(v, (Tab, Fr, DictCols, EmptyFrame)):
            if a == "index":
                return TimeIndex()
            if a == "columns":
                return Cols()
            if a == "loc":
                return Py(("loc", v))
            if a == "iloc":
                raise BrokenTie(".iloc on a results table")
            return Py(("method", v, a))
        if isinstance(v, Lookup):
            if a == "index":
                return LIndex(v.name)
            if a == "iloc":
                return Py(("iloc", v))
        if isinstance(v, Mod):
            if v.name in ("np", "numpy") and a == "pi":
                return Num(("gvar", "pi"))
            return Py(("modfunc", v.name, a))
        if isinstance(v, Py) and isinstance(v.v, tuple) and v.v and v.v[0] == "modfunc":
            return Py(("modfunc", v.v[1] + "." + v.v[2], a))
        raise BrokenTie("unsupported attribute .%s of %s in %s" % (a, type(v).__name__, ast.unparse(node)[:80]))

    def select(self, tab, key, node):
        """tab.loc[:, key] / tab[key]"""
        if isinstance(tab, Tab):
            if isinstance(key, Names):
                r = Fr(key.idx, ("var", camel(tab.name)), lab=("name", key.idx))
                r.order = key.order
                return r
            if isinstance(key, ElemName):
                return Fr(key.idx, ("var", camel(tab.name)), lab=None)
            if isinstance(key, NodeRef):  # the table's value at the start / end NODE of the current link
                r = Fr(key.idx, ("at", camel(tab.name), key.role), lab=("node", key.role) if key.many else None)
                r.order = key.order
                return r
        if isinstance(tab, Fr):
            if isinstance(key, Names) and key.idx == tab.idx and tab.lab == ("name", tab.idx):
                r = Fr(tab.idx, tab.e, lab=tab.lab)
                r.order = key.order
                return r
            if isinstance(key, ElemName) and key.idx == tab.idx and tab.lab == ("name", tab.idx):
                return Fr(tab.idx, tab.e, lab=None)
        raise BrokenTie("unsupported selection %s" % ast.unparse(node)[:80])

    def subscript(self, n, vars_, mod):
        base = self.ev(n.value, vars_, mod)
        if isinstance(base, Py) and isinstance(base.v, tuple) and base.v and base.v[0] == "loc":
            k = n.slice
            if isinstance(k, ast.Tuple) and len(k.elts) == 2 and isinstance(k.elts[0], ast.Slice) and k.elts[0].lower is None and k.elts[0].upper is None and k.elts[0].step is None:
                return self.select(base.v[1], self.ev(k.elts[1], vars_, mod), n)
            raise BrokenTie("unsupported .loc[...]: " + ast.unparse(n)[:80])
        if isinstance(base, Py) and isinstance(base.v, tuple) and base.v and base.v[0] == "iloc":
            k = self.ev(n.slice, vars_, mod)
            if isinstance(k, LNearest):
                kt, vt = TABLES[k.name], TABLES[base.v[1].name]
                return lift1(k.x, lambda x: ("lookup", kt, vt, x), "lookup")
            raise BrokenTie("unsupported .iloc[...]: " + ast.unparse(n)[:80])
        if isinstance(base, (Tab, Fr)):
            return self.select(base, self.ev(n.slice, vars_, mod), n)
        if isinstance(base, Tup):
            k = self.ev(n.slice, vars_, mod)
            if isinstance(k, Py) and isinstance(k.v, int) and 0 <= k.v < len(base.items):
                return base.items[k.v]
        if isinstance(base, VolCurve) and base.stage == "array":
            k = n.slice
            if isinstance(k, ast.Tuple) and len(k.elts) == 2 and isinstance(k.elts[0], ast.Slice) and k.elts[0].lower is None and k.elts[0].upper is None \
                    and isinstance(k.elts[1], ast.Constant) and k.elts[1].value in (0, 1):
                return VolCurve(base.idx, k.elts[1].value)
        raise BrokenTie("unsupported subscript: " + ast.unparse(n)[:80])

    def call(self, n, vars_, mod):
        f = self.ev(n.func, vars_, mod)
        args = [self.ev(a, vars_, mod) for a in n.args]
        if any(k.arg is None for k in n.keywords):
            raise BrokenTie("**kwargs in a call")
        kw = {k.arg: self.ev(k.value, vars_, mod) for k in n.keywords}
        src = ast.unparse(n)[:90]
        if isinstance(f, Rel):
            if len(args) == 2 and all(isinstance(a, Fr) and a.e[0] == "var" for a in args) and args[0].idx == args[1].idx:
                if args[0].lab != args[1].lab:
                    raise BrokenTie("comparison of differently labelled tables: " + src)
                return Fr(args[0].idx, ("ind", ("rel", args[0].e[1], args[1].e[1])), lab=args[0].lab)
            raise BrokenTie("comparison ufunc applied to something else than two input tables: " + src)
        if not (isinstance(f, Py) and isinstance(f.v, tuple) and f.v):
            raise BrokenTie("call of %s: %s" % (type(f).__name__, src))
        kind = f.v[0]
        if kind == "builtin":
            if len(args) == 1 and isinstance(args[0], Names) and not kw:
                if f.v[1] == "list":
                    return args[0]
                return Names(args[0].idx, f.v[1] + "(" + args[0].order + ")")
            raise BrokenTie("unsupported call: " + src)
        if kind == "demandsat":
            # Demands.at(time, category=None, multiplier=1)
            names = ["time", "category", "multiplier"]
            b = dict(zip(names, args))
            for k_, v_ in kw.items():
                if k_ not in names or k_ in b:
                    raise BrokenTie("Demands.at: bad argument %s" % k_)
                b[k_] = v_
            if "time" not in b:
                raise BrokenTie("Demands.at without a time")
            cat = b.get("category", Py(None))
            if isinstance(cat, CategoryParam):
                fname = "demandsAt"
            elif isinstance(cat, Py) and cat.v is None:
                fname = "demandsAtAll"
            else:
                raise BrokenTie("Demands.at with a category that is not the function's own argument: " + src)
            t_e = expr_of(b["time"], "time of Demands.at")
            m_e = expr_of(b.get("multiplier", Py(1)), "multiplier of Demands.at")
            return Fr(f.v[1], ("fn2", fname, t_e, m_e), lab=None)
        if kind == "func":
            return self.call_function(f.v[1], f.v[2], args, kw)
        if kind == "netmethod":
            m = f.v[1]
            if m in ITERS and not args:
                return Iter(ITERS[m], True)
            if m in ("nodes", "links") and len(args) == 1 and isinstance(args[0], Klass):
                return Iter(CLASS_IDX[args[0].name], True)
            if m in ("get_node", "get_link") and len(args) == 1 and isinstance(args[0], ElemName):
                return Elem(args[0].idx)
            raise BrokenTie("unsupported WaterNetworkModel call: " + src)
        if kind == "elemmethod":
            idx, m = f.v[1], f.v[2]
            if m == "get_head_curve_coefficients" and not args:
                return Tup([Fr(idx, ("var", "curveA"), lab=None), Fr(idx, ("var", "curveB"), lab=None), Fr(idx, ("var", "curveC"), lab=None)])
            if m == "get_volume" and idx == "tanks":
                return self.call_function("elements", "Tank.get_volume", [Elem("tanks")] + args, kw)
            raise BrokenTie("unsupported element method: " + src)
        if kind == "method":
            v, m = f.v[1], f.v[2]
            axis = kw.get("axis", args[0] if args else None)
            if isinstance(v, Fr):
                if m == "sum":
                    if isinstance(axis, Py) and axis.v == 1:
                        if v.idx not in KNOWN_IDX:
                            raise BrokenTie("sum over the unnamed column set %s" % v.idx)
                        if v.lab is None:
                            raise BrokenTie(".sum(axis=1) of a single column")
                        return Num(("sum", v.idx, v.e))
                    raise BrokenTie("only .sum(axis=1) is flattened: " + src)
                if m == "abs" and not args:
                    return lift1(v, lambda x: ("abs", x), "abs")
                if m in ("div", "divide", "truediv") and len(args) == 1:
                    return lift2(v, args[0], lambda x, y: ("div", x, y), m)
                if m in ("mul", "multiply") and len(args) == 1:
                    return lift2(v, args[0], lambda x, y: ("mul", x, y), m)
                if m in ("add",) and len(args) == 1:
                    return lift2(v, args[0], lambda x, y: ("add", x, y), m)
                if m in ("sub", "subtract") and len(args) == 1:
                    return lift2(v, args[0], lambda x, y: ("sub", x, y), m)
                if m == "round" and not args and not kw:
                    return Fr(v.idx, ("round", v.e), lab=v.lab)
                if m == "where" and len(args) == 1 and not kw and isinstance(args[0], Mask) and args[0].idx == v.idx:
                    return Fr(v.idx, ("ite", args[0].c, v.e, ("nan",)), lab=v.lab)  # pandas puts NaN where the mask is False
                if m == "to_numpy":  # from here on values are paired by POSITION: remember the order of the columns
                    if v.lab is None:
                        return v
                    if v.lab[0] == "pos":
                        return v
                    return Fr(v.idx, v.e, lab=("pos", (v.idx, v.order)))
                if m in ("copy", "astype", "reindex"):
                    return v
            raise BrokenTie("unsupported method .%s of %s: %s" % (m, type(v).__name__, src))
        if kind == "modfunc":
            m, fn = f.v[1], f.v[2]
            full = m + "." + fn
            if full in ("np.abs", "numpy.abs", "np.absolute", "np.fabs"):
                if len(args) == 1 and isinstance(args[0], LDiff):
                    return LDiff(args[0].name, args[0].x, True)
                return lift1(args[0], lambda x: ("abs", x), "abs")
            if full in ("np.exp", "np.log", "math.exp", "math.log") and len(args) == 1:
                return lift1(args[0], lambda x: ("fn1", fn, x), fn)
            if full == "np.arange" and len(args) == 3 and all(isinstance(a, (Num, Py)) for a in args):
                return TimeGrid()
            if full == "np.argmin" and len(args) == 1 and isinstance(args[0], LDiff) and args[0].absd:
                return LNearest(args[0].name, args[0].x)
            if full == "np.array" and len(args) == 1 and isinstance(args[0], VolCurve) and args[0].stage == "points":
                return VolCurve(args[0].idx, "array")
            if full == "np.interp" and len(args) == 3 and self.curve_cols(args[1], args[2]):
                return self.on_curve(args[0], args[1].idx, "curveInterp")
            if full == "pd.DataFrame":
                data = kw.get("data", args[0] if args else None)
                if data is None or (isinstance(data, Py) and data.v is None):
                    return EmptyFrame()
                cols = kw.get("columns")
                if isinstance(data, DictCols) and data.idx is not None and (cols is None or (isinstance(cols, Names) and cols.idx == data.idx)):
                    return Fr(data.idx, data.e, lab=("name", data.idx))
                if isinstance(data, Fr) and data.lab is not None and data.lab[0] == "pos":
                    # a numpy array given column names: the k-th column gets the k-th name
                    if isinstance(cols, Names) and data.lab[1] == (cols.idx, cols.order) and cols.idx == data.idx:
                        return Fr(data.idx, data.e, lab=("name", data.idx))
                    raise BrokenTie("a numpy array in the order of %s (%s) is given other column names: %s" % (data.lab[1] + (src,)))
                if isinstance(data, Fr) and data.lab == ("name", data.idx) and (cols is None or (isinstance(cols, Names) and cols.idx == data.idx)):
                    return data
            raise BrokenTie("unsupported library call: " + src)
        raise BrokenTie("unsupported call: " + src)

    def curve_cols(self, a, b):
        return isinstance(a, VolCurve) and isinstance(b, VolCurve) and a.stage == 0 and b.stage == 1 and a.idx == b.idx

    def on_curve(self, x, idx, fname):
        if isinstance(x, Fr) and x.idx != idx:
            raise BrokenTie("curve of %s evaluated on columns of %s" % (idx, x.idx))
        return Fr(idx, ("fn1", fname, expr_of(x, fname)), lab=x.lab if isinstance(x, Fr) else None)


# `_interp_extrapolate(x, arr[:,0], arr[:,1])` is recognised by name (its body is tied by the differential run)
_orig_call_function = Interp.call_function


def _call_function(self, mod, name, args, kwargs):
    if name == "_interp_extrapolate" and len(args) == 3 and self.curve_cols(args[1], args[2]):
        return self.on_curve(args[0], args[1].idx, "curveInterpX")
    return _orig_call_function(self, mod, name, args, kwargs)


Interp.call_function = _call_function


# ----------------------------------------------------------------------------- the metric functions
def specs():
    J = "junctions"
    return [
        # (lean name, module, function, arguments)
        ("expected_demand", "hydraulic", "expected_demand",
         dict(wn=Net(), start_time=Num(("gvar", "startTime"), given=True), end_time=Num(("gvar", "endTime"), given=True),
              timestep=Num(("gvar", "timestep"), given=True), category=CategoryParam())),
        ("water_service_availability", "hydraulic", "water_service_availability",
         dict(expected_demand=Fr("cols", ("var", "expectedDemand")), demand=Fr("cols", ("var", "demand")))),
        ("todini_index", "hydraulic", "todini_index",
         dict(head=Tab("head"), pressure=Tab("pressure"), demand=Tab("demand"), flowrate=Tab("flowrate"), wn=Net(), Pstar=Num(("gvar", "Pstar")))),
        ("mri_per_junction", "hydraulic", "modified_resilience_index",
         dict(pressure=Fr(J, ("var", "pressure")), elevation=Fr(J, ("var", "elevation")), Pstar=Num(("gvar", "Pstar")), per_junction=Py(True))),
        ("mri_system", "hydraulic", "modified_resilience_index",
         dict(pressure=Fr(J, ("var", "pressure")), elevation=Fr(J, ("var", "elevation")), Pstar=Num(("gvar", "Pstar")),
              demand=Fr(J, ("var", "demand")), per_junction=Py(False))),
        ("tank_capacity", "hydraulic", "tank_capacity", dict(pressure=Tab("pressure"), wn=Net())),
        ("tank_volume", "elements", "Tank.get_volume", dict(self=Elem("tanks"), level=Fr("tanks", ("var", "pressure"), lab=None))),
        ("population", "misc", "population", dict(wn=Net(), R=Num(("gvar", "R")))),
        ("population_impacted", "misc", "population_impacted",
         dict(pop=Fr("nodes", ("var", "pop")), arg1=Fr("nodes", ("var", "arg1")), operation=Rel(), arg2=Fr("nodes", ("var", "arg2")))),
        ("pump_power", "economic", "pump_power", dict(flowrate=Fr("pumps", ("var", "flowrate")), head=Tab("head"), wn=Net())),
        ("pump_energy", "economic", "pump_energy", dict(flowrate=Fr("pumps", ("var", "flowrate")), head=Tab("head"), wn=Net())),
        ("pump_cost", "economic", "pump_cost", dict(energy=Fr("pumps", ("var", "energy")), wn=Net())),
        ("annual_network_cost", "economic", "annual_network_cost",
         dict(wn=Net(), tank_cost=Lookup("tank_cost"), pipe_cost=Lookup("pipe_cost"), prv_cost=Lookup("prv_cost"), pump_cost=Lookup("pump_cost"))),
        ("annual_ghg_emissions", "economic", "annual_ghg_emissions", dict(wn=Net(), pipe_ghg=Lookup("pipe_ghg"))),
    ]


def load_modules(repo=None):
    repo = repo or vlib.REPO
    files = {"hydraulic": "wntr/metrics/hydraulic.py", "economic": "wntr/metrics/economic.py", "misc": "wntr/metrics/misc.py",
             "elements": "wntr/network/elements.py"}
    return {k: ast.parse(open(os.path.join(repo, v)).read()) for k, v in files.items()}


def translate_all(repo=None):
    """-> ({lean name: expr}, {lean name: result kind}, notes); raises BrokenTie naming the function that failed"""
    mods = load_modules(repo)
    out, kinds, notes = {}, {}, {}
    for lean, mod, fn, args in specs():
        ip = Interp(mods)
        # the metric `population` calls average_expected_demand(wn): an input of the formula, not part of it
        ip.funcs.pop(("hydraulic", "average_expected_demand"), None)
        try:
            ip_call = _with_opaque_calls(ip)
            r = ip_call(mod, fn, [], dict(args))
        except BrokenTie as e:
            raise BrokenTie("%s.%s: %s" % (mod, fn, e))
        if not isinstance(r, (Num, Fr)):
            raise BrokenTie("%s.%s returns %s" % (mod, fn, type(r).__name__))
        if mentions_prev(r.e):
            raise BrokenTie("%s.%s: unresolved accumulator" % (mod, fn))
        check_names(r.e, "%s.%s" % (mod, fn))
        out[lean] = r.e
        kinds[lean] = ("row:" + r.idx) if isinstance(r, Fr) else "scalar"
        notes[lean] = ip.notes
    return out, kinds, notes


def _with_opaque_calls(ip):
    """`average_expected_demand(wn)` (imported into misc.py) is an INPUT of `population`"""
    orig_ev = ip.ev

    def ev(n, vars_, mod):
        if isinstance(n, ast.Call) and isinstance(n.func, ast.Name) and n.func.id == "average_expected_demand" and n.func.id not in vars_:
            args = [orig_ev(a, vars_, mod) for a in n.args]
            if len(args) == 1 and isinstance(args[0], Net) and not n.keywords:
                return Fr("junctions", ("var", "averageExpectedDemand"), lab=("name", "junctions"))
            raise BrokenTie("average_expected_demand called with other arguments than (wn)")
        return orig_ev(n, vars_, mod)

    ip.ev = ev
    return ip.call_function


def check_names(e, where):
    if not isinstance(e, tuple):
        return
    if e[0] == "at":
        if e[1] not in KNOWN_VARS:
            raise BrokenTie("%s reads the unknown table `%s` at a link's end node" % (where, e[1]))
        return
    if e[0] in ("var", "gvar") and e[1] not in KNOWN_VARS:
        raise BrokenTie("%s uses the input `%s`, which the Lean model does not name (Model/MExpr.lean Var)" % (where, e[1]))
    if e[0] in ("isNone", "gIsNone", "strEq", "gNonzero", "nonzero") and e[1] not in KNOWN_VARS:
        raise BrokenTie("%s tests the input `%s`, which the Lean model does not name" % (where, e[1]))
    if e[0] == "rel":
        for x in e[1:]:
            if x not in KNOWN_VARS:
                raise BrokenTie("%s compares the unknown input `%s`" % (where, x))
        return
    if e[0] == "sum" and e[1] not in KNOWN_IDX:
        raise BrokenTie("%s sums over the unknown index set %s" % (where, e[1]))
    for x in e[1:]:
        check_names(x, where)


# ----------------------------------------------------------------------------- printing
def lean_rat(fr):
    fr = Fraction(fr)
    if fr.denominator == 1:
        return "%d" % fr.numerator if fr.numerator >= 0 else "(%d)" % fr.numerator
    return "(%d / %d)" % (fr.numerator, fr.denominator)


def to_lean(e):
    t = e[0]
    if t == "const":
        return "(.const %s)" % lean_rat(e[1])
    if t in ("var", "gvar"):
        return "(.%s .%s)" % (t, e[1])
    if t == "at":
        return "(.at .%s .%sNode)" % (e[1], e[2].lower())
    if t in ("add", "sub", "mul", "div"):
        return "(.%s %s %s)" % (t, to_lean(e[1]), to_lean(e[2]))
    if t in ("neg", "abs", "round"):
        return "(.%s %s)" % (t, to_lean(e[1]))
    if t == "pow":
        return "(.pow %s %d)" % (to_lean(e[1]), e[2])
    if t == "fn1":
        return "(.fn1 .%s %s)" % (e[1], to_lean(e[2]))
    if t == "fn2":
        return "(.fn2 .%s %s %s)" % (e[1], to_lean(e[2]), to_lean(e[3]))
    if t == "sum":
        return "(.sum .%s %s)" % (e[1], to_lean(e[2]))
    if t == "ite":
        return "(.ite %s %s %s)" % (cond_lean(e[1]), to_lean(e[2]), to_lean(e[3]))
    if t == "raise":
        return ".raise"
    if t == "nan":
        return ".nan"
    if t == "lookup":
        return "(.lookup .%s .%s %s)" % (e[1], e[2], to_lean(e[3]))
    if t == "ind":
        return "(.ind %s)" % cond_lean(e[1])
    raise BrokenTie("cannot print %r" % (t,))


def cond_lean(c):
    t = c[0]
    if t in ("isNone", "gIsNone", "gNonzero", "nonzero"):
        return "(.%s .%s)" % (t, c[1])
    if t == "strEq":
        return '(.strEq .%s "%s")' % (c[1], c[2].replace("\\", "\\\\").replace('"', '\\"'))
    if t == "rel":
        return "(.rel .%s .%s)" % (c[1], c[2])
    if t in ("and", "or"):
        return "(.%s %s %s)" % (t, cond_lean(c[1]), cond_lean(c[2]))
    if t == "not":
        return "(.not %s)" % cond_lean(c[1])
    raise BrokenTie("cannot print condition %r" % (t,))


def infix(e):
    t = e[0]
    if t == "const":
        fr = e[1]
        return str(fr.numerator) if fr.denominator == 1 else "%s" % float(fr)
    if t in ("var", "gvar"):
        return e[1] if t == "var" else "$" + e[1]
    if t == "at":
        return "%s@%sNode" % (e[1], e[2].lower())
    ops = {"add": "+", "sub": "-", "mul": "*", "div": "/"}
    if t in ops:
        return "(%s %s %s)" % (infix(e[1]), ops[t], infix(e[2]))
    if t == "neg":
        return "-" + infix(e[1])
    if t in ("abs", "round"):
        return "%s(%s)" % (t, infix(e[1]))
    if t == "pow":
        return "%s^%d" % (infix(e[1]), e[2])
    if t == "fn1":
        return "%s(%s)" % (e[1], infix(e[2]))
    if t == "fn2":
        return "%s(%s, %s)" % (e[1], infix(e[2]), infix(e[3]))
    if t == "sum":
        return "SUM[%s] %s" % (e[1], infix(e[2]))
    if t == "ite":
        return "(if %s then %s else %s)" % (cinfix(e[1]), infix(e[2]), infix(e[3]))
    if t == "raise":
        return "RAISE"
    if t == "nan":
        return "NaN"
    if t == "lookup":
        return "%s[nearest %s: %s]" % (e[2], e[1], infix(e[3]))
    if t == "ind":
        return "[%s]" % cinfix(e[1])
    return "?"


def cinfix(c):
    t = c[0]
    if t in ("isNone", "gIsNone"):
        return "%s%s is None" % ("$" if t == "gIsNone" else "", c[1])
    if t == "gNonzero":
        return "$%s != 0" % c[1]
    if t == "nonzero":
        return "%s != 0" % c[1]
    if t == "strEq":
        return "%s == '%s'" % (c[1], c[2])
    if t == "rel":
        return "operation(%s, %s)" % (c[1], c[2])
    if t in ("and", "or"):
        return "(%s %s %s)" % (cinfix(c[1]), t, cinfix(c[2]))
    if t == "not":
        return "not " + cinfix(c[1])
    return "?"


def population_constants(repo=None):
    """default of `R` in misc.population (signature) and what its docstring says about it"""
    tree = load_modules(repo)["misc"]
    fn = [n for n in tree.body if isinstance(n, ast.FunctionDef) and n.name == "population"]
    if len(fn) != 1:
        raise BrokenTie("misc.population not found")
    fn = fn[0]
    params = [a.arg for a in fn.args.args]
    if "R" not in params or not fn.args.defaults:
        raise BrokenTie("misc.population has no default for R")
    d = dict(zip(params[len(params) - len(fn.args.defaults):], fn.args.defaults)).get("R")
    if not (isinstance(d, ast.Constant) and isinstance(d.value, float)):
        raise BrokenTie("the default of R is not a float literal")
    code = Fraction(repr(d.value))
    doc = ast.get_docstring(fn) or ""
    m = re.search(r"R\s*:.*default\s*=\s*([0-9.eE+-]+)\s*m3/s\s*=\s*([0-9.]+)\s*gallons/day", doc)
    if not m:
        raise BrokenTie("the docstring of population no longer states the default of R as `<x> m3/s = <y> gallons/day`")
    return code, Fraction(m.group(1)), Fraction(m.group(2))


def gen_lean(out, kinds, consts=None):
    lines = [
        "-- GENERATED by harness/props/c20_translate.py from the python source of wntr/metrics/{hydraulic,economic,misc}.py and",
        "-- Tank.get_volume (wntr/network/elements.py): the arithmetic of each metric, one time / one element. Do not edit.",
        "import WntrModel.Model.MExpr",
        "namespace Wntr.Metrics.Gen",
        "open Wntr.Metrics",
        "",
    ]
    for lean, mod, fn, _ in specs():
        e = out[lean]
        lines.append("/-- `%s` (%s): %s" % (fn, kinds[lean], "value of one column at one time" if kinds[lean] != "scalar" else "value at one time"))
        lines.append("  %s -/" % infix(e).replace("-/", "- /"))
        lines.append("def %s : MExpr :=" % lean)
        lines.append("  " + to_lean(e))
        lines.append("")
    if consts is not None:
        code, doc, gpd = consts
        lines.append("/-- default of `R` in the signature of `population` (misc.py) -/")
        lines.append("def population_R_default : Rat := %s" % lean_rat(code))
        lines.append("/-- its docstring: default = `population_R_doc` m3/s = `population_R_doc_gpd` gallons/day -/")
        lines.append("def population_R_doc : Rat := %s" % lean_rat(doc))
        lines.append("def population_R_doc_gpd : Rat := %s" % lean_rat(gpd))
        lines.append("")
    lines.append("end Wntr.Metrics.Gen")
    return "\n".join(lines) + "\n"


if __name__ == "__main__":
    if len(sys.argv) > 1:
        vlib.REPO = sys.argv[1]
    o, k, nt = translate_all()
    print(gen_lean(o, k, population_constants()), end="")
