"""C09 -- junctions cut off from all sources are zeroed; connected ones never are.

Lean side: Model/Isolation.lean (M8), Model/IsolationRun.lean (run level), Model/IsolationProg.lean (source level) + Props/C09.lean:
the program text of the C++ search means `checkIsolated`, which clears exactly the nodes reachable through `data == 1` entries; the
Python CSR bookkeeping keeps "entry = 1 iff some link of the node pair is not Closed" over every history of status changes and
restarts; hence flagged-isolated == cut off, at every reported step of every run.

Translators (T), every run: network_isolation.cpp -> Gen/IsolationShape.lean `cppSearch` (tokenizer + recursive descent); core.py ->
statement skeletons / iterated registries / call order of run_sim (Python ast).

Ties checked on every run (C):
  (a) random flat CSR inputs straight into the freshly compiled `check_for_isolated_junctions` vs `checkIsolated`;
  (b) random multigraphs (parallel links, reversed parallels, self-loops, pumps, valves), random initial statuses and histories
      of control-action status changes driven through the REAL `WNTRSimulator._initialize_internal_graph /
      _update_internal_graph / _get_isolated_junctions_and_links` (+ the real ControlChangeTracker) vs the Lean model
      (CSR arrays, multi-link table, tracker change set, flags, `_prev_isolated_*`) and vs an independent BFS over link statuses;
  (c) full short `WNTRSimulator.run_sim` runs with time controls closing / opening links (pipes, CV pipes, head pumps, PRV / PSV / FCV / TCV,
      tank-limit closures, pause / continue, rerun): the statement's oracle on the results, and every bookkeeping call observed in-process
      (class Trace) replayed through the Lean model (`net` line: state after every call; `legs` line: the reported rows of `runLegs`).
"""
import json
import os
import sys

sys.path.insert(0, os.path.dirname(os.path.dirname(os.path.abspath(__file__))))
import vlib
from vlib import Broken, Failure, Check

DRIVER = "Drivers/IsolationDriver.lean"

# ----------------------------------------------------------------------------- translators (T)

CPP_ARRAYS = {"sources": "sources", "node_indicator": "indicator", "indptr": "indptr", "indices": "indices", "data": "data",
              "num_connections": "nconn"}
CPP_VARS = {"source_cntr": "sourceCntr", "source_id": "sourceId", "node_being_explored": "node", "ndx": "ndx",
            "number_of_connections": "ncon", "val": "val", "col": "col", "i": "i"}


def _cpp_tokens(src):
    import re

    src = re.sub(r"//[^\n]*", " ", src)
    src = re.sub(r"/\*.*?\*/", " ", src, flags=re.S)
    src = re.sub(r"^\s*#[^\n]*", " ", src, flags=re.M)
    src = re.sub(r'"(?:\\.|[^"\\])*"', " 0 ", src)        # string literals (only in get_long_size)
    tok = re.compile(r"\s*(?:(\d+)|([A-Za-z_]\w*)|(==|!=|<=|>=|\+\+|--|::|&&|\|\||[-+*/%<>=!(){}\[\];,.&]))")
    out, pos = [], 0
    while pos < len(src):
        m = tok.match(src, pos)
        if not m:
            if src[pos:].strip() == "":
                break
            raise vlib.BrokenTie("network_isolation.cpp: cannot tokenize at %r" % src[pos:pos + 30])
        pos = m.end()
        out.append(("num", m.group(1)) if m.group(1) else ("id", m.group(2)) if m.group(2) else ("op", m.group(3)))
    return out


class _CppParser:
    """recursive descent over the statement forms `check_for_isolated_junctions` uses; anything else is a BrokenTie"""

    def __init__(self, toks):
        self.t, self.p = toks, 0
        self.lens, self.params, self.setname, self.itname = {}, [], None, None

    def peek(self, k=0):
        return self.t[self.p + k] if self.p + k < len(self.t) else ("eof", "")

    def eat(self, val=None, kind=None):
        tk = self.peek()
        if (val is not None and tk[1] != val) or (kind is not None and tk[0] != kind):
            raise vlib.BrokenTie("network_isolation.cpp: expected %r, found %r (token %d)" % (val or kind, tk[1], self.p))
        self.p += 1
        return tk[1]

    def at(self, *vals):
        return all(self.peek(i)[1] == v for i, v in enumerate(vals))

    def function(self, name):
        while self.p < len(self.t) and not (self.peek()[1] == name and self.peek(1)[1] == "("):
            self.p += 1
        if self.p >= len(self.t):
            raise vlib.BrokenTie("network_isolation.cpp: function %s not found" % name)
        self.eat(name)
        self.eat("(")
        last = None
        while not self.at(")"):
            ty = self.eat(kind="id")
            ptr = False
            if self.at("*"):
                self.eat("*")
                ptr = True
            nm = self.eat(kind="id")
            if ptr:
                if nm not in CPP_ARRAYS:
                    raise vlib.BrokenTie("network_isolation.cpp: unknown array parameter %s" % nm)
                self.params.append(CPP_ARRAYS[nm])
                last = CPP_ARRAYS[nm]
            else:
                if last is None:
                    raise vlib.BrokenTie("network_isolation.cpp: length parameter %s without an array" % nm)
                self.lens[nm] = last
                last = None
            if self.at(","):
                self.eat(",")
        self.eat(")")
        return self.block()

    # ---- statements
    def block(self):
        self.eat("{")
        items = []
        while not self.at("}"):
            st = self.statement()
            if st is not None:
                items.append(st)
        self.eat("}")
        return ("block", self.fold_idioms(items))

    def fold_idioms(self, items):
        out, i = [], 0
        while i < len(items):
            kinds = [x[0] for x in items[i:i + 4]]
            if kinds[:4] == ["iterEnd", "iterDec", "deref", "erase"]:
                out.append(("popLast", items[i + 2][1]))
                i += 4
            elif kinds[:3] == ["iterBegin", "deref", "erase"]:
                out.append(("popFirst", items[i + 2][1]))
                i += 3
            elif kinds[0] in ("iterEnd", "iterBegin", "iterDec", "deref", "erase"):
                raise vlib.BrokenTie("network_isolation.cpp: iterator statements %s do not form a take-last / take-first idiom" % kinds)
            else:
                out.append(items[i])
                i += 1
        return out

    def statement(self):
        if self.at("{"):
            return self.block()
        if self.at("std", "::", "set", "<", "int", ">", "::", "iterator"):
            self.p += 8
            self.itname = self.eat(kind="id")
            self.eat("=")
            self.eat(self.setname)
            self.eat(".")
            which = self.eat(kind="id")
            self.eat("(")
            self.eat(")")
            self.eat(";")
            if which not in ("end", "begin"):
                raise vlib.BrokenTie("network_isolation.cpp: iterator initialised with %s()" % which)
            return ("iterEnd",) if which == "end" else ("iterBegin",)
        if self.at("std", "::", "set", "<", "int", ">"):
            self.p += 6
            self.setname = self.eat(kind="id")
            self.eat(";")
            return ("newSet",)
        if self.at("int") and self.peek(2)[1] == ";":
            self.eat("int")
            nm = self.eat(kind="id")
            self.eat(";")
            self.var(nm)
            return None
        if self.at("for"):
            self.eat("for")
            self.eat("(")
            self.eat("int")
            v = self.eat(kind="id")
            self.eat("=")
            lo = self.expr()
            self.eat(";")
            if self.eat(kind="id") != v:
                raise vlib.BrokenTie("network_isolation.cpp: for-loop condition on another variable")
            op = self.eat(kind="op")
            hi = self.expr()
            if op == "<=":
                hi = ("add", hi, ("lit", 1))
            elif op != "<":
                raise vlib.BrokenTie("network_isolation.cpp: for-loop condition %s" % op)
            self.eat(";")
            if self.at("++"):
                self.eat("++")
                w = self.eat(kind="id")
            else:
                w = self.eat(kind="id")
                self.eat("++")
            if w != v:
                raise vlib.BrokenTie("network_isolation.cpp: for-loop increments another variable")
            self.eat(")")
            return ("forUp", self.var(v), lo, hi, self.statement())
        if self.at("while"):
            self.eat("while")
            self.eat("(")
            c = self.cond()
            self.eat(")")
            return ("while", c, self.statement())
        if self.at("if"):
            self.eat("if")
            self.eat("(")
            c = self.cond()
            self.eat(")")
            t = self.statement()
            e = ("skip",)
            if self.at("else"):
                self.eat("else")
                e = self.statement()
            return ("ite", c, t, e)
        if self.at("--") and self.peek(1)[1] == self.itname:
            self.p += 2
            self.eat(";")
            return ("iterDec",)
        if self.setname and self.at(self.setname, "."):
            self.p += 2
            m = self.eat(kind="id")
            self.eat("(")
            if m == "insert":
                e = self.expr()
                self.eat(")")
                self.eat(";")
                return ("insert", e)
            if m == "erase":
                self.eat(self.itname)
                self.eat(")")
                self.eat(";")
                return ("erase",)
            raise vlib.BrokenTie("network_isolation.cpp: set method %s" % m)
        # assignment
        nm = self.eat(kind="id")
        if self.at("["):
            self.eat("[")
            ix = self.expr()
            self.eat("]")
            self.eat("=")
            e = self.expr()
            self.eat(";")
            if nm != "node_indicator":
                raise vlib.BrokenTie("network_isolation.cpp: store into %s (only node_indicator is written in the model)" % nm)
            return ("storeInd", ix, e)
        self.eat("=")
        if self.at("*") and self.peek(1)[1] == self.itname:
            self.p += 2
            self.eat(";")
            return ("deref", self.var(nm))
        e = self.expr()
        self.eat(";")
        return ("assign", self.var(nm), e)

    def var(self, nm):
        if nm not in CPP_VARS:
            raise vlib.BrokenTie("network_isolation.cpp: unknown local %s" % nm)
        return CPP_VARS[nm]

    # ---- expressions
    def cond(self):
        if self.at("!"):
            self.eat("!")
            return ("not", self.cond())
        if self.setname and self.at(self.setname, ".", "empty", "(", ")"):
            self.p += 5
            return ("setEmpty",)
        a = self.expr()
        op = self.eat(kind="op")
        names = {"==": "eq", "!=": "ne", "<": "lt", "<=": "le", ">": "gt", ">=": "ge"}
        if op not in names:
            raise vlib.BrokenTie("network_isolation.cpp: comparison %s" % op)
        return ("cmp", names[op], a, self.expr())

    def expr(self):
        a = self.primary()
        while self.at("+"):
            self.eat("+")
            a = ("add", a, self.primary())
        return a

    def primary(self):
        k, v = self.peek()
        if k == "num":
            self.p += 1
            return ("lit", int(v))
        if v == "(":
            self.eat("(")
            e = self.expr()
            self.eat(")")
            return e
        nm = self.eat(kind="id")
        if self.at("["):
            self.eat("[")
            ix = self.expr()
            self.eat("]")
            if nm not in CPP_ARRAYS:
                raise vlib.BrokenTie("network_isolation.cpp: load from unknown array %s" % nm)
            return ("load", CPP_ARRAYS[nm], ix)
        if nm in self.lens:
            return ("len", self.lens[nm])
        return ("var", self.var(nm))


def _lean_e(e):
    k = e[0]
    if k == "lit":
        return "(.lit %d)" % e[1]
    if k == "var":
        return "(.var .%s)" % e[1]
    if k == "load":
        return "(.load .%s %s)" % (e[1], _lean_e(e[2]))
    if k == "add":
        return "(.add %s %s)" % (_lean_e(e[1]), _lean_e(e[2]))
    if k == "len":
        return "(.len .%s)" % e[1]
    raise vlib.BrokenTie("expression %r" % (e,))


def _lean_c(c):
    if c[0] == "not":
        return "(.not %s)" % _lean_c(c[1])
    if c[0] == "setEmpty":
        return ".setEmpty"
    return "(.cmp .%s %s %s)" % (c[1], _lean_e(c[2]), _lean_e(c[3]))


def _lean_s(st, ind=1):
    pad = "  " * ind
    k = st[0]
    if k == "block":
        if not st[1]:
            return "(block [])"
        return "(block [\n" + ",\n".join(pad + "  " + _lean_s(x, ind + 1) for x in st[1]) + "])"
    if k == "skip":
        return ".skip"
    if k == "newSet":
        return ".newSet"
    if k == "assign":
        return ".assign .%s %s" % (st[1], _lean_e(st[2]))
    if k == "storeInd":
        return ".storeInd %s %s" % (_lean_e(st[1]), _lean_e(st[2]))
    if k == "insert":
        return ".insert %s" % _lean_e(st[1])
    if k in ("popLast", "popFirst"):
        return ".%s .%s" % (k, st[1])
    if k == "ite":
        return ".ite %s %s %s" % (_lean_c(st[1]), _lean_s(st[2], ind + 1), _lean_s(st[3], ind + 1))
    if k == "forUp":
        return ".forUp .%s %s %s %s" % (st[1], _lean_e(st[2]), _lean_e(st[3]), _lean_s(st[4], ind + 1))
    if k == "while":
        return ".while %s %s" % (_lean_c(st[1]), _lean_s(st[2], ind + 1))
    raise vlib.BrokenTie("statement %r" % (st,))


def cpp_shape(path):
    """(Lean term of the body of check_for_isolated_junctions, parameter arrays in order)"""
    ps = _CppParser(_cpp_tokens(open(path).read()))
    body = ps.function("check_for_isolated_junctions")
    items = body[1]
    if len(items) != 1:
        raise vlib.BrokenTie("network_isolation.cpp: %d top-level statements in check_for_isolated_junctions (expected the source loop)" % len(items))
    return _lean_s(items[0], 1), ps.params


# ---- wntr/sim/core.py by ast

_REGS = {"pipes", "pumps", "valves", "links", "junctions", "tanks", "reservoirs", "nodes"}


def _reg_of(node):
    import ast

    txt = ast.unparse(node)
    if txt.startswith("itertools.chain(") and isinstance(node, ast.Call):
        out = []
        for a in node.args:
            out += _reg_of(a)
        return out
    for r in _REGS:
        if txt == "self._wn.%s()" % r:
            return [r]
    return ["other"]


def _find_method(tree, name):
    import ast

    for node in ast.walk(tree):
        if isinstance(node, ast.ClassDef) and node.name == "WNTRSimulator":
            for b in node.body:
                if isinstance(b, ast.FunctionDef) and b.name == name:
                    return b
    raise vlib.BrokenTie("WNTRSimulator.%s not found" % name)


def _ignorable(st):
    import ast

    if isinstance(st, ast.Expr) and isinstance(st.value, ast.Constant):
        return True
    txt = ast.unparse(st)
    if txt.startswith("logger.") or txt.startswith("logger_level =") or txt.startswith("diagnostics.run("):
        return True
    if isinstance(st, ast.If) and ("logger_level <=" in ast.unparse(st.test) or "logger.getEffectiveLevel()" in ast.unparse(st.test)):
        return True
    return False


def _match_stmts(stmts, table, what):
    """greedy: `table` = list of (token, [exact unparsed statements]) and of structural entries
    (token, header regex, 'for'|'if', sub-table[, else sub-table]); returns the token list"""
    import ast
    import re

    out, i = [], 0
    stmts = [x for x in stmts if not _ignorable(x)]
    while i < len(stmts):
        hit = False
        for ent in table:
            if len(ent) == 2:
                tok, texts = ent
                if [ast.unparse(x) for x in stmts[i:i + len(texts)]] == texts:
                    if tok:
                        out.append(tok)
                    i += len(texts)
                    hit = True
                    break
            else:
                tok, head, kind, sub = ent[:4]
                st = stmts[i]
                if kind == "for" and isinstance(st, ast.For) and not st.orelse:
                    h = "for %s in %s" % (ast.unparse(st.target), ast.unparse(st.iter))
                elif kind == "if" and isinstance(st, ast.If):
                    h = "if " + ast.unparse(st.test)
                else:
                    continue
                if re.fullmatch(head, h):
                    out.append(tok)
                    out += _match_stmts(st.body, sub, what)
                    if kind == "if" and st.orelse:
                        if len(ent) < 5:
                            raise vlib.BrokenTie("%s: unexpected else branch of %s" % (what, h))
                        out.append("else_")
                        out += _match_stmts(st.orelse, ent[4], what)
                    out.append("close")
                    i += 1
                    hit = True
                    break
        if not hit:
            raise vlib.BrokenTie("%s: statement not understood: %s" % (what, ast.unparse(stmts[i])[:200]))
    return out


def _write(link, v):
    return ["ndx1, ndx2 = ndx_map[%s]" % link, "data[ndx1] = %d" % v, "data[ndx2] = %d" % v]


_CLOSED = "wntr.network.LinkStatus.Closed"
_UPDATE_TABLE = [
    (None, ["data = self._internal_graph.data"]),
    (None, ["ndx_map = self._map_link_to_internal_graph_data_ndx"]),
    ("forChanges", r"for \(obj, attr\) in self\._change_tracker\.get_changes\(ref_point='graph'\)", "for", [
        ("ifStatusAttr", r"if 'status' == attr", "if", [
            ("ifObjClosed", r"if obj\.status == " + _CLOSED.replace(".", r"\."), "if",
             [("write0", _write("obj", 0))], [("write1", _write("obj", 1))])])]),
    ("forMulti", r"for \(key, link_list\) in self\._node_pairs_with_multiple_links\.items\(\)", "for", [
        ("firstLink", ["first_link = link_list[0]"]),
        ("write0", _write("first_link", 0)),
        ("forLinkList", r"for link in link_list", "for", [
            ("ifLinkNotClosed", r"if link\.status != " + _CLOSED.replace(".", r"\."), "if", [("write1", _write("link", 1))])])]),
    ("resetReference", ["self._change_tracker.reset_reference_point(key='graph')"]),
]
_ISOLATED_TABLE = [
    ("forPrevJ", r"for j in self\._prev_isolated_junctions", "for",
     [("clearJ", ["junction = self._wn.get_node(j)", "junction._is_isolated = False"])]),
    ("forPrevL", r"for l in self\._prev_isolated_links", "for",
     [("clearL", ["link = self._wn.get_link(l)", "link._is_isolated = False"])]),
    ("onesIndicator", ["node_indicator = np.ones(self._wn.num_nodes, dtype=self._int_dtype)"]),
    ("idsWhereOne", ["isolated_junction_ids = [i for i in range(len(node_indicator)) if node_indicator[i] == 1]"]),
    ("newSets", ["isolated_junctions = OrderedSet()", "isolated_links = OrderedSet()"]),
    ("forIds", r"for j_id in isolated_junction_ids", "for", [
        ("flagJ", ["j = self._node_id_to_name[j_id]", "junction = self._wn.get_node(j)", "junction._is_isolated = True"]),
        ("addJ", ["isolated_junctions.add(j)"]),
        ("linksOfNode", ["connected_links = self._wn.get_links_for_node(j)"]),
        ("forConnected", r"for l in connected_links", "for", [
            ("flagL", ["link = self._wn.get_link(l)", "link._is_isolated = True"]),
            ("addL", ["isolated_links.add(l)"])])]),
    ("updateModel", ["wntr.sim.hydraulics.update_model_for_isolated_junctions_and_links(self._model, self._wn, self._model_updater, "
                     "self._prev_isolated_junctions, self._prev_isolated_links, isolated_junctions, isolated_links)"]),
    ("keepJ", ["self._prev_isolated_junctions = isolated_junctions"]),
    ("keepL", ["self._prev_isolated_links = isolated_links"]),
    ("returnCounts", ["return (len(isolated_junctions), len(isolated_links))"]),
]
_ENDIDS = ["from_node_name = link.start_node_name", "to_node_name = link.end_node_name",
           "from_node_id = self._node_name_to_id[from_node_name]", "to_node_id = self._node_name_to_id[to_node_name]"]
_INIT_TABLE = [
    ("initLists", ["n_links = OrderedDict()", "rows = []", "cols = []", "vals = []"]),
    ("forInitLinks", r"for \(link_name, link\) in itertools\.chain\(.*\)", "for", [
        ("endIds", _ENDIDS),
        ("ifNewPair", r"if \(from_node_id, to_node_id\) not in n_links", "if",
         [("zeroCounts", ["n_links[from_node_id, to_node_id] = 0", "n_links[to_node_id, from_node_id] = 0"])]),
        ("incCounts", ["n_links[from_node_id, to_node_id] += 1", "n_links[to_node_id, from_node_id] += 1"]),
        ("pushBoth", ["rows.append(from_node_id)", "cols.append(to_node_id)", "rows.append(to_node_id)", "cols.append(from_node_id)"]),
        ("ifLinkClosed", r"if link\.status == " + _CLOSED.replace(".", r"\."), "if",
         [("push0", ["vals.append(0)", "vals.append(0)"])], [("push1", ["vals.append(1)", "vals.append(1)"])])]),
    ("buildCsr", ["rows = np.array(rows, dtype=self._int_dtype)", "cols = np.array(cols, dtype=self._int_dtype)",
                  "vals = np.array(vals, dtype=self._int_dtype)", "n_nodes = self._wn.num_nodes",
                  "self._internal_graph = scipy.sparse.csr_matrix((vals, (rows, cols)), shape=(n_nodes, n_nodes))"]),
    ("newNdxMap", ["ndx_map = OrderedDict()"]),
    ("forNdxLinks", r"for \(link_name, link\) in self\._wn\.\w+\(\)", "for", [
        ("endIds", _ENDIDS),
        ("lookupBoth", ["ndx1 = _get_csr_data_index(self._internal_graph, from_node_id, to_node_id)",
                        "ndx2 = _get_csr_data_index(self._internal_graph, to_node_id, from_node_id)",
                        "ndx_map[link] = (ndx1, ndx2)"])]),
    ("keepNdxMap", ["self._map_link_to_internal_graph_data_ndx = ndx_map"]),
    ("rowLengths", ["self._number_of_connections = [0 for i in range(self._wn.num_nodes)]",
                    "for node_id in self._node_id_to_name.keys():\n    self._number_of_connections[node_id] = "
                    "self._internal_graph.indptr[node_id + 1] - self._internal_graph.indptr[node_id]",
                    "self._number_of_connections = np.array(self._number_of_connections, dtype=self._int_dtype)"]),
    ("newMulti", ["self._node_pairs_with_multiple_links = OrderedDict()"]),
    ("forPairs", r"for \(from_node_id, to_node_id\) in n_links\.keys\(\)", "for", [
        ("ifSeveral", r"if n_links\[from_node_id, to_node_id\] > 1", "if", [
            ("skipReverse", ["if (to_node_id, from_node_id) in self._node_pairs_with_multiple_links:\n    continue"]),
            ("zeroPair", ["self._internal_graph[from_node_id, to_node_id] = 0", "self._internal_graph[to_node_id, from_node_id] = 0"]),
            ("newList", ["from_node_name = self._node_id_to_name[from_node_id]", "to_node_name = self._node_id_to_name[to_node_id]",
                         "tmp_list = self._node_pairs_with_multiple_links[from_node_id, to_node_id] = []"]),
            ("forLinksOfFrom", r"for link_name in self\._wn\.get_links_for_node\(from_node_name\)", "for", [
                ("getLink", ["link = self._wn.get_link(link_name)"]),
                ("ifTouchesTo", r"if link\.start_node_name == to_node_name or link\.end_node_name == to_node_name", "if", [
                    ("appendLink", ["tmp_list.append(link)"]),
                    ("ifLinkNotClosed", r"if link\.status != " + _CLOSED.replace(".", r"\."), "if", [
                        ("write1", ["ndx1, ndx2 = ndx_map[link]", "self._internal_graph.data[ndx1] = 1",
                                    "self._internal_graph.data[ndx2] = 1"])])])])])]),
    ("newSources", ["self._source_ids = []"]),
    ("forSources", r"for \(node_name, node\) in self\._wn\.\w+\(\)", "for",
     [("appendSource", ["node_id = self._node_name_to_id[node_name]", "self._source_ids.append(node_id)"])]),
    ("packSources", ["self._source_ids = np.array(self._source_ids, dtype=self._int_dtype)"]),
]
_CSRINDEX_TABLE = [
    ("rowStart", ["row_indptr = a.indptr[row]"]),
    ("rowLen", ["num = a.indptr[row + 1] - row_indptr"]),
    ("rowCols", ["cols = a.indices[row_indptr:row_indptr + num]"]),
    ("counter0", ["n = 0"]),
    ("forCols", r"for j in cols", "for", [
        ("ifColEq", r"if j == col", "if", [("returnPos", ["return row_indptr + n"])]),
        ("incCounter", ["n += 1"])]),
    ("raiseNotFound", ["raise RuntimeError('Unable to find csr data index.')"]),
]
_HEAD_CALLS = [("self._prev_isolated_junctions =", "seedJ"), ("self._prev_isolated_links =", "seedL"),
               ("create_hydraulic_model(", "createModel"), ("self._get_control_managers()", "controlManagers"),
               ("self._register_controls_with_observers()", "registerObservers"),
               ("self._initialize_internal_graph()", "initGraph"), ("self._change_tracker.set_reference_point('graph')", "refGraph"),
               ("self._change_tracker.set_reference_point('model')", "refModel")]
_CALL_ARGS = {"self._source_ids": "sourceIds", "node_indicator": "onesPerNode", "self._internal_graph.indptr": "graphIndptr",
              "self._internal_graph.indices": "graphIndices", "self._internal_graph.data": "graphData",
              "self._number_of_connections": "numberOfConnections"}


def py_shapes(path):
    """dict of Lean definitions read off wntr/sim/core.py"""
    import ast

    tree = ast.parse(open(path).read())
    out = {}
    # --- which registries are iterated
    init = _find_method(tree, "_initialize_internal_graph")
    it = {"initLinks": None, "ndxLinks": None, "sources": [], "seedJunctions": None, "seedLinks": None}
    for st in init.body:
        if isinstance(st, ast.For):
            body = "\n".join(ast.unparse(x) for x in st.body)
            if "n_links[" in body and "vals.append" in body:
                it["initLinks"] = _reg_of(st.iter)
            elif "ndx_map[link] =" in body:
                it["ndxLinks"] = _reg_of(st.iter)
            elif "self._source_ids.append" in body:
                it["sources"] += _reg_of(st.iter)
    run = _find_method(tree, "run_sim")
    for st in run.body:
        if isinstance(st, ast.Assign) and len(st.targets) == 1:
            tgt = ast.unparse(st.targets[0])
            if tgt in ("self._prev_isolated_junctions", "self._prev_isolated_links"):
                v = st.value
                ok = (isinstance(v, ast.Call) and ast.unparse(v.func) == "OrderedSet" and len(v.args) == 1
                      and isinstance(v.args[0], ast.GeneratorExp) and len(v.args[0].generators) == 1)
                reg = ["other"]
                if ok:
                    g = v.args[0].generators[0]
                    tg = ast.unparse(g.target)
                    if (len(g.ifs) == 1 and isinstance(g.target, ast.Tuple) and len(g.target.elts) == 2
                            and ast.unparse(v.args[0].elt) == ast.unparse(g.target.elts[0])
                            and ast.unparse(g.ifs[0]) == ast.unparse(g.target.elts[1]) + "._is_isolated"):
                        reg = _reg_of(g.iter)
                it["seedJunctions" if tgt.endswith("junctions") else "seedLinks"] = reg
    for k, v in it.items():
        if v is None:
            raise vlib.BrokenTie("core.py: could not find the loop / assignment for %s" % k)
    out["iter"] = "{ " + ", ".join("%s := [%s]" % (k, ", ".join("." + r for r in v)) for k, v in it.items()) + " }"
    # --- statement skeletons
    upd = _find_method(tree, "_update_internal_graph")
    out["updateToks"] = _match_stmts(upd.body, _UPDATE_TABLE, "_update_internal_graph")
    iso = _find_method(tree, "_get_isolated_junctions_and_links")
    call = None
    body = []
    for st in iso.body:
        if isinstance(st, ast.Expr) and isinstance(st.value, ast.Call) and ast.unparse(st.value.func) == "check_for_isolated_junctions":
            call = st.value
            body.append(ast.parse("__callSearch__").body[0])
        else:
            body.append(st)
    if call is None:
        raise vlib.BrokenTie("_get_isolated_junctions_and_links: no call of check_for_isolated_junctions")
    out["isolatedToks"] = _match_stmts(body, _ISOLATED_TABLE + [("callSearch", ["__callSearch__"])], "_get_isolated_junctions_and_links")
    out["callArgs"] = [_CALL_ARGS.get(ast.unparse(a), "other") for a in call.args] + ["other"] * len(call.keywords)
    out["initToks"] = _match_stmts(init.body, _INIT_TABLE, "_initialize_internal_graph")
    fn = [n for n in tree.body if isinstance(n, ast.FunctionDef) and n.name == "_get_csr_data_index"]
    if len(fn) != 1:
        raise vlib.BrokenTie("core.py: _get_csr_data_index not found")
    out["csrIndexToks"] = _match_stmts(fn[0].body, _CSRINDEX_TABLE, "_get_csr_data_index")
    head = []
    for st in run.body:
        if isinstance(st, ast.While):
            break
        txt = ast.unparse(st)
        hits = [tok for key, tok in _HEAD_CALLS if key in txt]
        if not hits:
            continue
        if not isinstance(st, (ast.Assign, ast.Expr)) or len(hits) != 1:
            raise vlib.BrokenTie("run_sim head: %s is not a plain statement: %s" % (hits, txt[:160]))
        head += hits
    out["headToks"] = head
    # --- the loop body of run_sim
    loop = [st for st in run.body if isinstance(st, ast.While)]
    if len(loop) != 1:
        raise vlib.BrokenTie("run_sim: expected one while loop")
    toks = []

    def walk(stmts):
        for st in stmts:
            txt = ast.unparse(st)
            if isinstance(st, ast.If):
                t = ast.unparse(st.test)
                head = {"not resolve": "ifNotResolve", "solver_status == 0": "ifFailed",
                        "self._change_tracker.changes_made(ref_point='graph')": "ifChanged",
                        "isinstance(self._report_timestep, (float, int))": "ifReportGrid",
                        "self._report_timestep.upper() == 'ALL'": "ifReportAll"}.get(t)
                if head:
                    toks.append(head)
                walk(st.body)
                if head:
                    toks.append("close")
                walk(st.orelse)
                continue
            if isinstance(st, (ast.For, ast.While, ast.With, ast.Try)):
                raise vlib.BrokenTie("run_sim loop body: unexpected compound statement %s" % txt[:80])
            if isinstance(st, ast.Break):
                toks.append("brk")
            elif isinstance(st, ast.Continue):
                toks.append("cont")
            elif txt == "resolve = True":
                toks.append("resolveOn")
            elif txt == "resolve = False":
                toks.append("resolveOff")
            elif "_compute_next_timestep_and_run_presolve_controls_and_rules(" in txt:
                toks.append("presolve")
            elif "_run_feasibility_controls(" in txt:
                toks.append("feasibility")
            elif "_update_internal_graph(" in txt:
                toks.append("updateGraph")
            elif "_get_isolated_junctions_and_links(" in txt:
                toks.append("getIsolated")
            elif "_solver_helper(" in txt:
                toks.append("backupSolve" if "self._backup_solver," in txt else "solve")
            elif "store_results_in_network(" in txt:
                toks.append("store")
            elif "_run_postsolve_controls(" in txt:
                toks.append("postsolve")
            elif "save_results(" in txt:
                toks.append("save")
            elif "_is_isolated" in txt or "_prev_isolated" in txt or "_internal_graph" in txt:
                raise vlib.BrokenTie("run_sim loop body touches the isolation state directly: %s" % txt[:120])

    walk(loop[0].body)
    out["loopToks"] = toks
    return out


_POPEN = {"forChanges", "ifStatusAttr", "ifObjClosed", "forMulti", "forLinkList", "ifLinkNotClosed"}


_IOPEN = {"forPrevJ", "forPrevL", "forIds", "forConnected"}


def _ptree(toks, ind=1, opens=None, blk="blockP", what="_update_internal_graph"):
    """flat tokens (open … [else_ …] close) -> Lean term of Prog.PStmt / Prog.IStmt"""
    pos = [0]
    _POPEN = opens or globals()["_POPEN"]

    def block(depth):
        items = []
        while pos[0] < len(toks) and toks[pos[0]] not in ("close", "else_"):
            t = toks[pos[0]]
            pos[0] += 1
            if t in _POPEN:
                a = block(depth + 1)
                b = None
                if pos[0] < len(toks) and toks[pos[0]] == "else_":
                    pos[0] += 1
                    b = block(depth + 1)
                if pos[0] >= len(toks) or toks[pos[0]] != "close":
                    raise vlib.BrokenTie("%s: unbalanced skeleton %s" % (what, toks))
                pos[0] += 1
                if t == "ifObjClosed":
                    items.append(".%s %s %s" % (t, a, b if b is not None else "(%s [])" % blk))
                elif b is not None:
                    raise vlib.BrokenTie("%s: else branch on %s" % (what, t))
                else:
                    items.append(".%s %s" % (t, a))
            else:
                items.append("." + t)
        pad = "  " * (depth + 1)
        return "(%s [\n" % blk + ",\n".join(pad + x for x in items) + "])" if items else "(%s [])" % blk

    out = block(ind)
    if pos[0] != len(toks):
        raise vlib.BrokenTie("%s: unbalanced skeleton %s" % (what, toks))
    return out[1:-1]


def write_shape(repo):
    body, params = cpp_shape(os.path.join(repo, "wntr/sim/network_isolation/network_isolation.cpp"))
    py = py_shapes(os.path.join(repo, "wntr/sim/core.py"))
    lst = lambda xs: "[" + ", ".join("." + x for x in xs) + "]"
    txt = ("-- GENERATED by harness/props/c09.py from wntr/sim/network_isolation/network_isolation.cpp (hand-written tokenizer +\n"
           "-- recursive descent) and wntr/sim/core.py (Python ast). Do not edit.\n"
           "import WntrModel.Model.IsolationProg\nnamespace Wntr.Isolation.Gen\nopen Wntr.Isolation.Prog\n\n"
           "/-- the body of `check_for_isolated_junctions` -/\ndef cppSearch : S :=\n  %s\n\n"
           "/-- its array parameters, in order -/\ndef cppParams : List Arr := %s\n\n"
           "/-- the arguments `_get_isolated_junctions_and_links` passes, in order -/\ndef callArgs : List PyArg := %s\n\n"
           "/-- registry generators iterated by `_initialize_internal_graph` and by the head of `run_sim` -/\ndef iter : Iter :=\n  %s\n\n"
           "/-- `_update_internal_graph` -/\ndef updateProg : PStmt :=\n  %s\n\n/-- `_get_isolated_junctions_and_links` -/\ndef isolatedProg : IStmt :=\n  %s\n\n"
           "def initToks : List PyTok := %s\n\ndef csrIndexToks : List PyTok := %s\n\ndef headToks : List PyTok := %s\n\n"
           "/-- the `while True:` body of `run_sim` -/\ndef loopToks : List LoopTok := %s\n\nend Wntr.Isolation.Gen\n"
           % (body, lst(params), lst(py["callArgs"]), py["iter"], _ptree(py["updateToks"]),
              _ptree(py["isolatedToks"], opens=_IOPEN, blk="blockI", what="_get_isolated_junctions_and_links"), lst(py["initToks"]),
              lst(py["csrIndexToks"]), lst(py["headToks"]), lst(py["loopToks"])))
    vlib.write_if_changed(os.path.join(vlib.LEAN, "WntrModel/Gen/IsolationShape.lean"), txt)


# ----------------------------------------------------------------------------- generators


def gen_csr(rng, big=False):
    """random memory-safe CSR input for the compiled search (not necessarily symmetric / 0-1 / full rows)"""
    n = rng.randint(1, 24 if big else 12)
    dens = rng.choice([0.05, 0.15, 0.3, 0.6])
    rows = []
    for u in range(n):
        cols = [v for v in range(n) if rng.random() < dens]
        if rng.random() < 0.3:
            rng.shuffle(cols)
        if cols and rng.random() < 0.1:
            cols.append(rng.choice(cols))  # duplicate column inside a row
        rows.append(cols)
    kind = rng.choice(["01", "01", "012", "sym"])
    indptr, indices, data = [0], [], []
    val = {}
    for u, cols in enumerate(rows):
        for v in cols:
            if kind == "sym":
                key = (min(u, v), max(u, v))
                if key not in val:
                    val[key] = rng.choice([0, 1, 1])
                d = val[key]
            elif kind == "012":
                d = rng.choice([0, 1, 1, 2])
            else:
                d = rng.choice([0, 1, 1])
            indices.append(v)
            data.append(d)
        indptr.append(len(indices))
    nconn = [len(r) for r in rows]
    if rng.random() < 0.2:  # fewer connections than stored entries
        nconn = [rng.randint(0, c) for c in nconn]
    ind = [1] * n
    if rng.random() < 0.3:
        ind = [rng.choice([0, 1, 1, 1]) for _ in range(n)]
    ns = rng.choice([0, 1, 1, 2, 3])
    sources = [rng.randrange(n) for _ in range(ns)]
    return dict(n=n, sources=sources, ind=ind, indptr=indptr, indices=indices, data=data, nconn=nconn, kind=kind)


CLOSED, OPEN, ACTIVE = 0, 1, 2
# link class as the simulator's bookkeeping sees it: 0 = wn.pipes() (incl. check-valve pipes), 1 = wn.pumps(), 2 = wn.valves()
KCLASS = {"pipe": 0, "cv": 0, "pump": 1, "hpump": 1, "ppump": 1, "valve": 2, "tcv": 2, "prv": 2, "psv": 2, "fcv": 2}


def gen_net(rng, quick=True, selfloops=True, linkless_tail=False):
    n = rng.randint(2, 9 if quick else 16)
    kinds = []
    for i in range(n):
        r = rng.random()
        kinds.append("J" if r < 0.75 else ("T" if r < 0.87 else "R"))
    if rng.random() < 0.9 and all(k == "J" for k in kinds):
        kinds[rng.randrange(n)] = "R"
    links = []  # (a, b, kind, initial_status)
    m = n - (1 if linkless_tail else 0)
    style = rng.choice(["tree", "loopy", "sparse"])
    if m >= 2:
        if style != "sparse":
            for v in range(1, m):
                u = rng.randrange(v)
                links.append([u, v] if rng.random() < 0.5 else [v, u])
        extra = rng.randint(0, m) if style != "tree" else rng.randint(0, 2)
        for _ in range(extra):
            a, b = rng.randrange(m), rng.randrange(m)
            if a == b and not (selfloops and rng.random() < 0.3):
                continue
            links.append([a, b])
        # parallel links (same or reversed direction)
        if links and rng.random() < 0.7:
            for _ in range(rng.randint(1, 3)):
                a, b = rng.choice(links)[:2]
                links.append([a, b] if rng.random() < 0.5 else [b, a])
    if not links and m >= 2:
        links.append([0, 1])
    if not linkless_tail and n >= 2 and not any((n - 1) in l for l in links):
        links.append([rng.randrange(n - 1), n - 1])  # the last node always has a link (the link-less tail is its own stream)
    out = []
    for a, b in links:
        r = rng.random()
        # "pump" = power pump, "valve" = TCV (names kept from the first version of the corpus)
        k = "pipe" if r < 0.5 else rng.choice(["cv", "pump", "hpump", "valve", "prv", "psv", "fcv"])
        if k in ("prv", "psv", "fcv") and (kinds[a] != "J" or kinds[b] != "J"):
            k = "valve"               # add_valve refuses PRV / PSV / FCV on a tank or reservoir
        if KCLASS[k] == 2:
            st = rng.choice([CLOSED, OPEN, ACTIVE, ACTIVE])
        else:
            st = rng.choice([CLOSED, OPEN, OPEN])
        out.append((a, b, k, st))
    return dict(n=n, kinds=kinds, links=out)


def gen_ops(rng, net, quick=True):
    nl = len(net["links"])
    ops = ["p"]
    if nl == 0:
        return ops
    # links that share a node pair are flipped more often
    pairs = {}
    for k, (a, b, _, _) in enumerate(net["links"]):
        pairs.setdefault((min(a, b), max(a, b)), []).append(k)
    par = [k for ks in pairs.values() if len(ks) > 1 for k in ks]
    for _ in range(rng.randint(3, 14 if quick else 30)):
        r = rng.random()
        if r < 0.65:
            k = rng.choice(par) if par and rng.random() < 0.5 else rng.randrange(nl)
            kind = net["links"][k][2]
            if rng.random() < 0.75:
                v = rng.choice([CLOSED, CLOSED, OPEN, ACTIVE] if KCLASS[kind] == 2 else [CLOSED, OPEN])
                ops.append("U%d=%d" % (k, v))
            else:
                v = rng.choice([CLOSED, OPEN, ACTIVE] if KCLASS[kind] == 2 else [CLOSED, OPEN, ACTIVE])
                ops.append("I%d=%d" % (k, v))
        elif r < 0.78:
            ops.append("p")
        elif r < 0.86:
            ops.append("u")
        elif r < 0.93 or ops.count("R") >= 2:
            ops.append("g")
        else:
            ops.append("R")       # run_sim starts again on the network as it is (flags and statuses stay): real head of run_sim
    ops.append("p")
    return ops


# ----------------------------------------------------------------------------- implementation side of (b)


def build_wn(wntr, net):
    wn = wntr.network.WaterNetworkModel()
    for i, k in enumerate(net["kinds"]):
        if k == "J":
            wn.add_junction("N%d" % i, base_demand=0.001, elevation=0.0)
        elif k == "T":
            wn.add_tank("N%d" % i, elevation=10.0, init_level=5.0, min_level=0.0, max_level=20.0, diameter=30.0)
        else:
            wn.add_reservoir("N%d" % i, base_head=60.0)
    names = {CLOSED: "CLOSED", OPEN: "OPEN", ACTIVE: "ACTIVE"}
    for j, (a, b, k, st) in enumerate(net["links"]):
        nm, na, nb = (net.get("lp", "L") + "%d") % j, "N%d" % a, "N%d" % b
        if k in ("pipe", "cv"):
            wn.add_pipe(nm, na, nb, length=100.0, diameter=0.3, roughness=100.0, initial_status=names[st], check_valve=(k == "cv"))
        elif k == "pump":
            wn.add_pump(nm, na, nb, pump_type="POWER", pump_parameter=50.0)
            wn.get_link(nm).initial_status = wntr.network.LinkStatus(st)
        elif k == "hpump":
            if "HC" not in wn.curve_name_list:
                wn.add_curve("HC", "HEAD", [(0.05, 20.0)])
            wn.add_pump(nm, na, nb, pump_type="HEAD", pump_parameter="HC")
            wn.get_link(nm).initial_status = wntr.network.LinkStatus(st)
        else:
            wn.add_valve(nm, na, nb, diameter=0.3, valve_type="TCV" if k == "valve" else k.upper(), minor_loss=0.0,
                         initial_setting=10.0, initial_status=names[st])
    wn.reset_initial_values()
    return wn


def net_line(net, internal0, ops):
    order = [j for j, l in enumerate(net["links"]) if KCLASS[l[2]] == 0] + \
            [j for j, l in enumerate(net["links"]) if KCLASS[l[2]] == 1] + \
            [j for j, l in enumerate(net["links"]) if KCLASS[l[2]] == 2]
    src = [i for i, k in enumerate(net["kinds"]) if k == "T"] + [i for i, k in enumerate(net["kinds"]) if k == "R"]
    ls = ", ".join("%d %d %d %d %d" % (a, b, KCLASS[k], st, internal0[j])
                   for j, (a, b, k, st) in enumerate(net["links"]))
    return "net %d | %s | %s | %s | %s" % (net["n"], ls, " ".join(map(str, order)), " ".join(map(str, src)), " ".join(ops))


def _c(l):
    return ",".join(str(int(x)) for x in l)


class ImplSim:
    """the real simulator object prepared exactly as run_sim prepares it up to the first solve"""

    def __init__(self, wntr, net, internal0):
        from wntr.network.controls import Control, ControlAction, _InternalControlAction, SimTimeCondition
        import wntr.sim.core as core
        import wntr.sim.hydraulics as hyd

        self.wntr, self.net = wntr, net
        # links may be named like nodes (EPANET numeric ids: pipe '3' and junction '3'): prefix "N" for both
        self.lp = net.get("lp", "L") + "%d"
        wn = self.wn = build_wn(wntr, net)
        LS = wntr.network.LinkStatus
        for j, v in enumerate(internal0):
            wn.get_link(self.lp % j)._internal_status = LS(v)
        self.uacts, self.iacts = {}, {}
        for j, (a, b, k, st) in enumerate(net["links"]):
            link = wn.get_link(self.lp % j)
            for v in (CLOSED, OPEN, ACTIVE):
                # controls that never fire by themselves; their actions are run by the history and notify the real tracker
                act = ControlAction(link, "status", LS(v))
                wn.add_control("cu_%d_%d" % (j, v), Control(SimTimeCondition(wn, "=", 10 ** 9 + j * 3 + v), act))
                self.uacts[(j, v)] = act
                iact = _InternalControlAction(link, "_internal_status", LS(v), "status")
                wn.add_control("ci_%d_%d" % (j, v), Control(SimTimeCondition(wn, "=", 2 * 10 ** 9 + j * 3 + v), iact))
                self.iacts[(j, v)] = iact
        sim = self.sim = wntr.sim.WNTRSimulator(wn)
        sim._model, sim._model_updater = hyd.create_hydraulic_model(wn=wn, HW_approx="default")
        sim._valve_source_checker = core._ValveSourceChecker(wn)
        sim._get_control_managers()
        sim._register_controls_with_observers()
        self.init_exc = None
        try:
            sim._initialize_internal_graph()
        except Exception as e:  # IndexError / RuntimeError
            self.init_exc = e
            return
        sim._change_tracker.set_reference_point("graph")
        sim._change_tracker.set_reference_point("model")

    def lid(self, link):
        return int(link.name[1:])

    def init_segment(self):
        sim = self.sim
        g = sim._internal_graph
        multi = ";".join("%d-%d:%s" % (f, t, _c(self.lid(l) for l in lst))
                         for (f, t), lst in sim._node_pairs_with_multiple_links.items())
        ndx = ",".join("%d-%d" % tuple(sim._map_link_to_internal_graph_data_ndx[l]) for _, l in self.wn.links())
        return "init ok ok=1 P=%s X=%s N=%s D=%s M=%s NDX=%s" % (
            _c(g.indptr), _c(g.indices), _c(sim._number_of_connections), _c(g.data), multi, ndx)

    def changed(self):
        return _c(self.lid(o) for o, a in self.sim._change_tracker._changed["graph"] if a == "status")

    def iso(self):
        wn = self.wn
        return "J=%s L=%s PJ=%s PL=%s" % (
            "".join("1" if n._is_isolated else "0" for _, n in wn.nodes()),
            "".join("1" if l._is_isolated else "0" for _, l in wn.links()),
            _c(int(x[1:]) for x in self.sim._prev_isolated_junctions),
            _c(int(x[1:]) for x in self.sim._prev_isolated_links))

    def apply(self, op):
        sim = self.sim
        if op == "u":
            sim._update_internal_graph()
            return "D=%s C=%s" % (_c(sim._internal_graph.data), self.changed())
        if op == "g":
            sim._get_isolated_junctions_and_links()
            return self.iso()
        if op == "p":
            sim._update_internal_graph()
            sim._get_isolated_junctions_and_links()
            return "D=%s C=%s %s" % (_c(sim._internal_graph.data), self.changed(), self.iso())
        j, v = op[1:].split("=")
        (self.uacts if op[0] == "U" else self.iacts)[(int(j), int(v))].run_control_action()
        link = self.wn.get_link(self.lp % int(j))
        return "C=%s V=%d,%d,%d" % (self.changed(), int(link._user_status), int(link._internal_status), int(link.status))

    def restart(self):
        """the REAL head of `run_sim` on a new simulator object, up to the first `update_model_for_controls` (i.e. seeding of the
        previously-isolated sets, model, controls, graph, reference points, presolve + feasibility controls at t = 0, first
        `_update_internal_graph` / `_get_isolated_junctions_and_links`); returns the observed tokens and segments"""
        import wntr.sim.hydraulics as hyd

        class _Stop(Exception):
            pass

        def stop(*a, **k):
            raise _Stop()

        tr = Trace(self.wntr, self.wn, [KCLASS[l[2]] for l in self.net["links"]], single_line=True)
        tr.cur = dict(header="", raw=[], segs=[], rows=[], flagged_start=True)
        sim = self.wntr.sim.WNTRSimulator(self.wn)
        with tr:
            saved = hyd.update_model_for_controls
            hyd.update_model_for_controls = stop
            try:
                sim.run_sim()
                raise RuntimeError("run_sim returned before update_model_for_controls")
            except _Stop:
                pass
            finally:
                hyd.update_model_for_controls = saved
        self.sim = sim
        return tr.cur["raw"], tr.cur["segs"]

    def cut_off(self):
        """independent reachability over the links' CURRENT status property"""
        LS = self.wntr.network.LinkStatus
        n = self.net["n"]
        adj = [[] for _ in range(n)]
        for j, (a, b, _, _) in enumerate(self.net["links"]):
            if self.wn.get_link(self.lp % j).status != LS.Closed:
                adj[a].append(b)
                adj[b].append(a)
        seen = set(i for i, k in enumerate(self.net["kinds"]) if k != "J")
        stack = list(seen)
        while stack:
            u = stack.pop()
            for v in adj[u]:
                if v not in seen:
                    seen.add(v)
                    stack.append(v)
        iso_j = [i for i in range(n) if i not in seen]
        iso_l = [j for j, (a, b, _, _) in enumerate(self.net["links"]) if a in iso_j or b in iso_j]
        return iso_j, iso_l


# ----------------------------------------------------------------------------- in-process trace of real runs (run-level tie)


def _init_str(wn, sim):
    g = sim._internal_graph
    lid = lambda l: int(l.name[1:])
    multi = ";".join("%d-%d:%s" % (f, t, _c(lid(l) for l in lst)) for (f, t), lst in sim._node_pairs_with_multiple_links.items())
    ndx = ",".join("%d-%d" % tuple(sim._map_link_to_internal_graph_data_ndx[l]) for _, l in wn.links())
    return "init ok ok=1 P=%s X=%s N=%s D=%s M=%s NDX=%s" % (
        _c(g.indptr), _c(g.indices), _c(sim._number_of_connections), _c(g.data), multi, ndx)


def _flags_str(wn):
    return "J=%s L=%s" % ("".join("1" if n._is_isolated else "0" for _, n in wn.nodes()),
                          "".join("1" if l._is_isolated else "0" for _, l in wn.links()))


def _iso_str(wn, sim):
    return "%s PJ=%s PL=%s" % (_flags_str(wn), _c(int(x[1:]) for x in sim._prev_isolated_junctions),
                               _c(int(x[1:]) for x in sim._prev_isolated_links))


class Trace:
    """observes, without touching /repo, every call of the isolation bookkeeping inside real `run_sim` calls on ONE network whose
    nodes / links are named N<i> / L<j> in registry order: `_initialize_internal_graph` (with the `_prev_isolated_*` seeds run_sim
    computed just before), every status action the change tracker is notified of, `_update_internal_graph`,
    `_get_isolated_junctions_and_links` (+ the arguments it hands to `update_model_for_isolated_junctions_and_links`),
    `store_results_in_network`, `changes_made('graph')`, `save_results`.  The token sequence is replayed through the Lean model
    (`net` line: state after every call; `legs` line: Model/IsolationRun.lean `runLegs` rows)."""

    def __init__(self, wntr, wn, kclass, single_line=False):
        self.wntr, self.wn, self.kclass, self.single_line = wntr, wn, kclass, single_line
        self.lines = []          # dict(header, raw=[tokens incl. markers], segs=[impl segment per non-marker token], rows=[...])
        self.cur = None
        self.problems = []
        self.aborted = False
        self.sim = None

    # -- events
    def _tok(self, tok, seg):
        if self.cur is not None:
            self.cur["raw"].append(tok)
            if seg is not None:
                self.cur["segs"].append(seg)

    def on_init(self, sim):
        wn = self.wn
        self.sim = sim
        clear = not any(n._is_isolated for _, n in wn.nodes()) and not any(l._is_isolated for _, l in wn.links())
        seg = _init_str(wn, sim)
        if self.cur is None or (clear and not self.single_line):
            links = list(wn.links())
            order = [int(nm[1:]) for nm, _ in wn.pipes()] + [int(nm[1:]) for nm, _ in wn.pumps()] + [int(nm[1:]) for nm, _ in wn.valves()]
            src = [int(nm[1:]) for nm, _ in wn.tanks()] + [int(nm[1:]) for nm, _ in wn.reservoirs()]
            ls = ", ".join("%d %d %d %d %d" % (int(l.start_node_name[1:]), int(l.end_node_name[1:]), self.kclass[j],
                                               int(l._user_status), int(l._internal_status)) for j, (_, l) in enumerate(links))
            header = "%d | %s | %s | %s" % (wn.num_nodes, ls, " ".join(map(str, order)), " ".join(map(str, src)))
            self.cur = dict(header=header, raw=[], segs=[seg], rows=[], flagged_start=not clear)
            self.lines.append(self.cur)
        self._tok("R", seg + " " + _iso_str(wn, sim))

    def on_act(self, tracker, subject):
        from wntr.network.controls import ControlAction
        from wntr.network.base import Link

        obj, attr = subject.target()
        if attr != "status" or not isinstance(obj, Link) or tracker is not getattr(self.sim, "_change_tracker", None):
            return                # (trackers of earlier run_sim calls stay subscribed to the network's actions)
        j = int(obj.name[1:])
        ch = _c(int(o.name[1:]) for o, a in tracker._changed.get("graph", ()) if a == "status")
        self._tok("%s%d=%d" % ("U" if isinstance(subject, ControlAction) else "I", j, int(subject._value)),
                  "C=%s V=%d,%d,%d" % (ch, int(obj._user_status), int(obj._internal_status), int(obj.status)))

    def on_update(self, sim):
        ch = _c(int(o.name[1:]) for o, a in sim._change_tracker._changed["graph"] if a == "status")
        self._tok("u", "D=%s C=%s" % (_c(sim._internal_graph.data), ch))

    def on_isolated(self, sim, args):
        q = "QJ=? QL=?"
        if args is not None:
            pj, pl, ij, il = args
            q = "QJ=%s QL=%s" % (_c(int(x[1:]) for x in pj), _c(int(x[1:]) for x in pl))
            if list(ij) != list(sim._prev_isolated_junctions) or list(il) != list(sim._prev_isolated_links):
                q += " (args differ from the sets kept)"
        self._tok("G", "%s %s" % (_iso_str(self.wn, sim), q))

    def on_store(self):
        wn = self.wn
        bad = [n for n, l in wn.links() if l._is_isolated and l._flow != 0] + \
              [n for n, j in wn.junctions() if j._is_isolated and (j._head != 0 or j._demand != 0 or j._pressure != 0 or j._leak_demand != 0)]
        if bad:
            self.problems.append(("flagged-not-zeroed", "store_results_in_network left non-zero values on flagged elements %s" % bad, {"elements": bad}))
        self._tok("s", _flags_str(wn))

    def on_changes_made(self, res):
        self._tok("c1" if res else "c0", None)

    def on_save(self):
        wn = self.wn
        seg = "S=%s %s" % (_c(int(l.status) for _, l in wn.links()), _flags_str(wn))
        # a non-Closed link whose two ends have a path of non-Closed links to a source, still flagged isolated: store_results has
        # forced its reported flow to 0 whatever the hydraulics say ("reconnecting restores normal results" is violated)
        adj = {}
        for _, l in wn.links():
            if int(l.status) != 0:
                adj.setdefault(l.start_node_name, []).append(l.end_node_name)
                adj.setdefault(l.end_node_name, []).append(l.start_node_name)
        seen = set(nm for nm, _ in wn.tanks()) | set(nm for nm, _ in wn.reservoirs())
        stack = list(seen)
        while stack:
            u = stack.pop()
            for v in adj.get(u, ()):
                if v not in seen:
                    seen.add(v)
                    stack.append(v)
        bad = [nm for nm, l in wn.links() if l._is_isolated and int(l.status) != 0 and l.start_node_name in seen and l.end_node_name in seen]
        if bad and not self.problems:
            self.problems.append(("connected-link-zeroed", "t=%s link(s) %s are not Closed and join nodes connected to a source but are still "
                                  "treated as isolated: reported flow forced to 0 (%s)" % (wn.sim_time, bad, [wn.get_link(x).flow for x in bad]),
                                  {"t": wn.sim_time, "links": bad}))
        self._tok("r", seg)
        if self.cur is not None:
            self.cur["rows"].append(seg)

    # -- patching
    def __enter__(self):
        import wntr.sim.core as core
        import wntr.sim.hydraulics as hyd
        from wntr.network.controls import ControlChangeTracker

        S, T, tr = core.WNTRSimulator, ControlChangeTracker, self
        o_init, o_upd, o_iso = S._initialize_internal_graph, S._update_internal_graph, S._get_isolated_junctions_and_links
        o_um, o_store, o_save = hyd.update_model_for_isolated_junctions_and_links, hyd.store_results_in_network, hyd.save_results
        o_tu, o_cm = T.update, T.changes_made
        self._saved = [(S, "_initialize_internal_graph", o_init), (S, "_update_internal_graph", o_upd),
                       (S, "_get_isolated_junctions_and_links", o_iso), (hyd, "update_model_for_isolated_junctions_and_links", o_um),
                       (hyd, "store_results_in_network", o_store), (hyd, "save_results", o_save), (T, "update", o_tu),
                       (T, "changes_made", o_cm)]
        box = {}

        def w_init(sim):
            o_init(sim)
            tr.on_init(sim)

        def w_upd(sim):
            o_upd(sim)
            tr.on_update(sim)

        def w_um(m, wn, updater, pj, pl, ij, il):
            box["args"] = (list(pj), list(pl), list(ij), list(il))
            return o_um(m, wn, updater, pj, pl, ij, il)

        def w_iso(sim):
            box["args"] = None
            r = o_iso(sim)
            tr.on_isolated(sim, box["args"])
            return r

        def w_store(wn, m):
            o_store(wn, m)
            tr.on_store()

        def w_save(wn, node_res, link_res):
            o_save(wn, node_res, link_res)
            tr.on_save()

        def w_tu(tracker, subject):
            o_tu(tracker, subject)
            tr.on_act(tracker, subject)

        def w_cm(tracker, ref_point):
            r = o_cm(tracker, ref_point)
            if ref_point == "graph" and tracker is getattr(tr.sim, "_change_tracker", None):
                tr.on_changes_made(r)
            return r

        for (o, name, _), w in zip(self._saved, [w_init, w_upd, w_iso, w_um, w_store, w_save, w_tu, w_cm]):
            setattr(o, name, w)
        return self

    def __exit__(self, et, ev, tb):
        for o, name, f in self._saved:
            setattr(o, name, f)
        if et is not None:
            self.aborted = True
        return False

    # -- what goes to the Lean driver
    @staticmethod
    def parse_legs(raw):
        """the observed calls must follow the order of the loop body: acts* u G [s acts* (c1 u | c0 [r])]"""
        act = lambda t: t[0] in "UI"
        legs, i, n = [], 0, len(raw)
        while i < n:
            if raw[i] != "R":
                return None, "expected R at %d: %s" % (i, raw[i])
            i += 1
            passes = []
            while i < n and raw[i] != "R":
                pre = []
                while i < n and act(raw[i]):
                    pre.append(raw[i])
                    i += 1
                if raw[i:i + 2] != ["u", "G"]:
                    return None, "expected u G at %d: %s" % (i, raw[i:i + 2])
                i += 2
                if i >= n or raw[i] == "R":
                    passes.append((pre, [], 0))       # the solve failed: break
                    break
                if raw[i] != "s":
                    return None, "expected s at %d: %s" % (i, raw[i])
                i += 1
                post = []
                while i < n and act(raw[i]):
                    post.append(raw[i])
                    i += 1
                if i >= n or raw[i] not in ("c0", "c1"):
                    return None, "expected changes_made at %d: %s" % (i, raw[i:i + 1])
                if raw[i] == "c1":
                    if raw[i + 1:i + 2] != ["u"]:
                        return None, "expected u after a change at %d" % i
                    i += 2
                    passes.append((pre, post, 0))
                else:
                    i += 1
                    rep = 1 if (i < n and raw[i] == "r") else 0
                    i += rep
                    passes.append((pre, post, rep))
            legs.append(passes)
        return legs, None

    def driver_lines(self):
        """[(net line, impl segments, legs line or None, impl rows, grammar problem or None)]"""
        out = []
        for ln in self.lines:
            toks = [t for t in ln["raw"] if t not in ("c0", "c1")]
            net = "net %s | %s" % (ln["header"], " ".join(toks))
            legs, err = self.parse_legs(ln["raw"])
            ll = None
            if legs is not None and not ln["flagged_start"]:
                ll = "legs %s | %s" % (ln["header"], " ; ".join(
                    " / ".join("%s > %s > %d" % (" ".join(a), " ".join(b), r) for a, b, r in leg) for leg in legs))
            out.append((net, ln["segs"], ll, ln["rows"], None if self.aborted else err))
        return out


# ----------------------------------------------------------------------------- full runs (c)


def gen_run(rng, quick=True):
    """a small looped DD/PDD network with >= 1 source, parallel pipes and time controls on some links"""
    n = rng.randint(3, 7 if quick else 10)
    kinds = ["J"] * n
    kinds[0] = "R"
    if rng.random() < 0.35 and n > 3:
        kinds[rng.randrange(1, n)] = "T"
    links = []
    for v in range(1, n):
        u = rng.randrange(v)
        links.append((u, v) if rng.random() < 0.6 else (v, u))
    for _ in range(rng.randint(0, 3)):
        a, b = rng.sample(range(n), 2)
        links.append((a, b))
    if rng.random() < 0.7:
        for _ in range(rng.randint(1, 2)):
            a, b = rng.choice(links)
            links.append((a, b) if rng.random() < 0.5 else (b, a))
    init = [CLOSED if rng.random() < 0.15 else OPEN for _ in links]
    steps = rng.randint(4, 7)
    ctrls = []
    for _ in range(rng.randint(1, 5)):
        j = rng.randrange(len(links))
        t1 = rng.randint(0, steps - 1)
        t2 = rng.randint(t1 + 1, steps)
        first = CLOSED if init[j] == OPEN or rng.random() < 0.8 else OPEN
        ctrls.append((j, t1, first))
        if rng.random() < 0.8:
            ctrls.append((j, t2, OPEN if first == CLOSED else CLOSED))
    return dict(n=n, kinds=kinds, links=links, init=init, steps=steps, ctrls=ctrls,
                pdd=rng.random() < 0.3, demands=[round(rng.uniform(0.0005, 0.004), 6) for _ in range(n)],
                elev=[round(rng.uniform(0, 8), 2) for _ in range(n)])


def gen_swap_run(rng):
    """two equally sized zones behind their own inlet pipe on alternating supply: in one step the inlet of zone A closes and the
    inlet of zone B opens, so the SET of isolated junctions/links changes while its size does not; later both are open"""
    k = rng.randint(1, 3)                      # junctions per zone
    kinds = ["R", "J"] + ["J"] * (2 * k)
    links = [(0, 1)]
    inlet = {}
    for z, base in (("A", 2), ("B", 2 + k)):
        inlet[z] = len(links)
        links.append((1, base) if rng.random() < 0.5 else (base, 1))
        for i in range(1, k):
            links.append((base + i - 1, base + i) if rng.random() < 0.5 else (base + i, base + i - 1))
    n = len(kinds)
    init = [OPEN] * len(links)
    init[inlet["B"]] = CLOSED
    t = rng.randint(1, 3)
    steps = t + rng.randint(3, 4)
    ctrls = [(inlet["A"], t, CLOSED), (inlet["B"], t, OPEN), (inlet["A"], t + 2, OPEN)]
    if rng.random() < 0.5:
        ctrls.append((inlet["B"], t + 2, CLOSED))   # swap back
    return dict(n=n, kinds=kinds, links=links, init=init, steps=steps, ctrls=ctrls, pdd=rng.random() < 0.3,
                demands=[round(rng.uniform(0.0005, 0.004), 6) for _ in range(n)], elev=[round(rng.uniform(0, 8), 2) for _ in range(n)])


def gen_pause_run(rng):
    """a chain R - J.. -[cut]- zone: the cutting pipe is closed by an int-valued action (as the INP reader creates them) for a
    while; the run is paused while the zone is cut off and continued with a new simulator; the zone is reconnected later"""
    k1, k2 = rng.randint(1, 2), rng.randint(1, 3)
    n = 1 + k1 + k2
    kinds = ["R"] + ["J"] * (k1 + k2)
    links = []
    for v in range(1, n):
        links.append((v - 1, v) if rng.random() < 0.5 else (v, v - 1))
    cut = k1                      # link between node k1 and k1+1
    t_close, t_open = 1, rng.randint(3, 4)
    steps = t_open + rng.randint(1, 2)
    pause = rng.randint(t_close + 1, t_open - 1) if t_open - 1 >= t_close + 1 else t_close + 1
    ctrls = [(cut, t_close, CLOSED), (cut, t_open, OPEN)]
    return dict(n=n, kinds=kinds, links=links, init=[OPEN] * len(links), steps=steps, ctrls=ctrls, pdd=rng.random() < 0.3,
                demands=[round(rng.uniform(0.0005, 0.004), 6) for _ in range(n)], elev=[round(rng.uniform(0, 8), 2) for _ in range(n)],
                pause=pause, intvals=True)


SPECIAL_KINDS = ["hpump", "tcv", "prv", "psv", "fcv", "cv", "cvrev"]


def gen_elem_run(rng, want=None, pause_mode=None):
    """a small network on a tree backbone rooted at the reservoir with pumps / valves (PRV, PSV, FCV, TCV; Active, Open, Closed) /
    check-valve pipes on backbone edges pointing away from the reservoir (benign hydraulics: pumps push and valves throttle in the
    direction of the flow; control valves never share a node), a few extra pipes (loops, by-passes), and time controls that close
    and reopen links -- also the special ones -- so that zones containing pumps and valves are cut off and reconnected.
    `cvrev` is a check-valve pipe pointing TOWARDS the reservoir: it closes itself (internal status) and cuts its zone off.
    pause_mode 'first': paused while a zone is cut off, the zone is reconnected at the first step of the continued run."""
    n = rng.randint(4, 8)
    kinds = ["R"] + ["J"] * (n - 1)
    links, lk = [], []
    for v in range(1, n):
        u = v - 1 if rng.random() < 0.65 else rng.randrange(v)
        links.append((u, v))
        lk.append(["pipe"])
    tree = list(range(len(links)))
    nspecial = rng.randint(1, 3)
    used = set()
    cand = tree[:]
    rng.shuffle(cand)
    specials = []
    for j in cand:
        if len(specials) >= nspecial:
            break
        a, b = links[j]
        if a in used or b in used:
            continue
        k = want if (want and not specials) else rng.choice(SPECIAL_KINDS)
        if 0 in (a, b) and k in ("prv", "psv", "fcv"):
            if want and not specials:
                continue              # control valves cannot be attached to a reservoir / tank
            k = rng.choice(["hpump", "tcv", "cv"])
        if k == "fcv" and any(x[0] == "fcv" for x in lk):
            k = "tcv"                 # two ACTIVE flow-control valves in series between two sources fix the same flow twice (singular)
        if k == "hpump":
            lk[j] = ["hpump", 0.05, round(rng.uniform(8, 25), 2)]
        elif k == "tcv":
            lk[j] = ["tcv", round(rng.uniform(0, 40), 2), rng.choice([ACTIVE, ACTIVE, OPEN])]
        elif k == "prv":
            lk[j] = ["prv", round(rng.uniform(15, 35), 2), rng.choice([ACTIVE, ACTIVE, ACTIVE, OPEN])]
        elif k == "psv":
            lk[j] = ["psv", round(rng.uniform(5, 20), 2), rng.choice([ACTIVE, ACTIVE, ACTIVE, OPEN])]
        elif k == "fcv":
            lk[j] = ["fcv", 0.5, rng.choice([ACTIVE, ACTIVE, ACTIVE, OPEN])]
        elif k == "cv":
            lk[j] = ["cv"]
        else:
            lk[j] = ["cv"]
            links[j] = (b, a)
        used.update((a, b))
        specials.append(j)
    # loops / by-passes are plain pipes; PRV / PSV / FCV stay bridges (a by-pass around a valve that fixes a head or a flow is not a
    # benign hydraulic problem): extra pipes join nodes on the same side of every control valve
    comp = list(range(n))
    for j in tree:
        if lk[j][0] not in ("prv", "psv", "fcv"):
            a, b = links[j]
            ca, cb = comp[a], comp[b]
            comp = [ca if c == cb else c for c in comp]
    for _ in range(rng.choice([0, 0, 1, 1, 2])):
        a, b = rng.sample(range(n), 2)
        if comp[a] == comp[b]:
            links.append((a, b))
            lk.append(["pipe"])
    if rng.random() < 0.3:
        a, b = links[rng.choice(specials)] if (specials and rng.random() < 0.5) else rng.choice(links)
        if comp[a] == comp[b]:
            links.append((a, b) if rng.random() < 0.5 else (b, a))
            lk.append(["pipe"])
    # a tank makes a second source: two ACTIVE control valves in series between two sources over-determine the hydraulics
    # (PSV fixes a head, FCV a flow: singular at the first solve) -- nothing to do with isolation, kept out of the generator
    if rng.random() < 0.2 and sum(1 for x in lk if x[0] in ("prv", "psv", "fcv")) <= 1:
        leaves = [v for v in range(1, n) if sum(1 for (a, b) in links if v in (a, b)) == 1 and v not in used]
        if leaves:
            kinds[rng.choice(leaves)] = "T"
    init = []
    for j in range(len(links)):
        if lk[j][0] in ("tcv", "prv", "psv", "fcv"):
            init.append(lk[j][2])
        else:
            init.append(CLOSED if (lk[j][0] == "pipe" and rng.random() < 0.08) else OPEN)
    steps = rng.randint(4, 6)
    ctrls = []

    def vals(j):
        return [OPEN, ACTIVE] if lk[j][0] in ("tcv", "prv", "psv", "fcv") else [OPEN]

    # the main cut: a backbone edge (special or plain) upstream of at least one special element when possible
    cuts = [j for j in tree if any(links[s][0] >= max(links[j]) or links[s] == links[j] for s in specials)] or tree
    cut = rng.choice(cuts)
    t1 = rng.randint(0, steps - 2)
    t2 = rng.randint(t1 + 1, steps)
    ctrls.append((cut, t1, CLOSED))
    reopen = rng.choice(vals(cut)) if lk[cut][0] != "pipe" or True else OPEN
    ctrls.append((cut, t2, reopen))
    for _ in range(rng.randint(0, 2)):
        j = rng.randrange(len(links))
        ta = rng.randint(0, steps - 1)
        tb = rng.randint(ta + 1, steps)
        ctrls.append((j, ta, CLOSED if rng.random() < 0.7 else rng.choice(vals(j))))
        if rng.random() < 0.7:
            ctrls.append((j, tb, rng.choice(vals(j))))
    sc = dict(n=n, kinds=kinds, links=links, lk=lk, init=init, steps=steps, ctrls=ctrls, pdd=rng.random() < 0.25,
              demands=[round(rng.uniform(0.0005, 0.004), 6) for _ in range(n)], elev=[round(rng.uniform(0, 8), 2) for _ in range(n)])
    if pause_mode == "first" and t2 - 1 >= max(t1, 1):
        sc["pause"] = t2 - 1            # run 1 ends with the step of hour t2-1 (zone cut off), run 2 starts at hour t2 (reopened)
        sc["intvals"] = rng.random() < 0.5
    elif pause_mode == "any" or (pause_mode is None and rng.random() < 0.25):
        sc["pause"] = rng.randint(1, steps - 1)
        sc["intvals"] = rng.random() < 0.5
    return sc


def gen_tank_drain_run(rng):
    """R - J.. -[cut]- J.. - small tank: the reservoir side is cut off for a while, the zone lives on the tank until it reaches its
    minimum level, WNTR's own tank control then closes the tank's link (internal status) and the zone is cut off from everything;
    later the reservoir is reconnected and the tank refills"""
    k1, k2 = rng.randint(1, 2), rng.randint(1, 3)
    n = 1 + k1 + k2 + 1
    kinds = ["R"] + ["J"] * (k1 + k2) + ["T"]
    links = []
    for v in range(1, n):
        links.append((v - 1, v) if rng.random() < 0.5 else (v, v - 1))
    lk = [["pipe"] for _ in links]
    if rng.random() < 0.5:
        j = k1 + rng.randrange(k2) if k2 > 1 else k1
        if j != k1 and j != len(links) - 1:
            lk[j] = [rng.choice(["tcv", "hpump"])] + ([round(rng.uniform(0, 20), 2), ACTIVE] if True else [])
            if lk[j][0] == "hpump":
                lk[j] = ["hpump", 0.05, 10.0]
                links[j] = (j, j + 1)
    cut = k1
    t_close = rng.randint(1, 2)
    t_open = t_close + rng.randint(3, 5)
    steps = t_open + rng.randint(2, 3)
    init = [ACTIVE if x[0] == "tcv" else OPEN for x in lk]
    return dict(n=n, kinds=kinds, links=links, lk=lk, init=init, steps=steps, ctrls=[(cut, t_close, CLOSED), (cut, t_open, OPEN)],
                pdd=False, demands=[round(rng.uniform(0.001, 0.003), 6) for _ in range(n)], elev=[round(rng.uniform(0, 5), 2) for _ in range(n)],
                tank={"elevation": 20.0, "init_level": round(rng.uniform(1.0, 2.0), 2), "min_level": 0.5, "max_level": 6.0,
                      "diameter": round(rng.uniform(2.0, 4.0), 2)})


def gen_wild_run(rng):
    """NOT benign: control valves inside loops and next to by-passes, check valves and head pumps pointing against the flow (the
    simulator closes them itself: status changes no control of the scenario commands), small tanks that hit their limits, PDD,
    leaks (also on junctions that get cut off), rules instead of controls, pauses.  Judged by the statement only: per REPORTED
    step, reachability through the non-Closed links as reported; a run that stops converging is counted, not judged."""
    n = rng.randint(4, 9)
    kinds = ["R"] + ["J"] * (n - 1)
    links, lk = [], []
    for v in range(1, n):
        u = v - 1 if rng.random() < 0.6 else rng.randrange(v)
        links.append((u, v))
        lk.append(["pipe"])
    tree = list(range(len(links)))
    cand = tree[:]
    rng.shuffle(cand)
    cv_nodes = set()
    for j in cand[:rng.randint(1, 4)]:
        a, b = links[j]
        k = rng.choice(SPECIAL_KINDS + ["hpumprev", "cvrev"])
        if k in ("prv", "psv", "fcv") and (0 in (a, b) or a in cv_nodes or b in cv_nodes):
            k = rng.choice(["tcv", "cv", "hpump"])      # add_valve refuses them on a reservoir; two on one node is C16's finding
        if k == "fcv" and any(x[0] == "fcv" for x in lk):
            k = "tcv"
        if k in ("prv", "psv", "fcv"):
            cv_nodes.update((a, b))
        if k in ("hpump", "hpumprev"):
            lk[j] = ["hpump", 0.05, round(rng.uniform(5, 25), 2)]
            if k == "hpumprev":
                links[j] = (b, a)
        elif k == "tcv":
            lk[j] = ["tcv", round(rng.uniform(0, 40), 2), rng.choice([ACTIVE, OPEN])]
        elif k == "prv":
            lk[j] = ["prv", round(rng.uniform(10, 50), 2), rng.choice([ACTIVE, ACTIVE, OPEN])]
        elif k == "psv":
            lk[j] = ["psv", round(rng.uniform(5, 40), 2), rng.choice([ACTIVE, ACTIVE, OPEN])]
        elif k == "fcv":
            lk[j] = ["fcv", rng.choice([0.5, 0.002, 0.0005]), rng.choice([ACTIVE, ACTIVE, OPEN])]
        else:
            lk[j] = ["cv"]
            if k == "cvrev":
                links[j] = (b, a)
    for _ in range(rng.choice([0, 1, 1, 2, 3])):
        a, b = rng.sample(range(n), 2)
        links.append((a, b))
        lk.append(["cv"] if rng.random() < 0.2 else ["pipe"])
    if rng.random() < 0.3:
        a, b = rng.choice(links)
        links.append((a, b) if rng.random() < 0.5 else (b, a))
        lk.append(["pipe"])
    tank = None
    if rng.random() < 0.35:
        leaves = [v for v in range(1, n) if v not in cv_nodes and
                  not any(v in links[j] and lk[j][0] in ("prv", "psv", "fcv") for j in range(len(links)))]
        if leaves:
            kinds[rng.choice(leaves)] = "T"
            if rng.random() < 0.5:
                tank = {"elevation": 20.0, "init_level": round(rng.uniform(0.8, 3.0), 2), "min_level": 0.5, "max_level": 3.5,
                        "diameter": round(rng.uniform(2.0, 5.0), 2)}
    init = []
    for j in range(len(links)):
        if lk[j][0] in ("tcv", "prv", "psv", "fcv"):
            init.append(lk[j][2])
        else:
            init.append(CLOSED if rng.random() < 0.08 else OPEN)
    steps = rng.randint(4, 7)
    ctrls = []
    for _ in range(rng.randint(1, 4)):
        j = rng.randrange(len(links))
        ta = rng.randint(0, steps - 1)
        tb = rng.randint(ta + 1, steps)
        vals = [OPEN, ACTIVE] if lk[j][0] in ("tcv", "prv", "psv", "fcv") else [OPEN]
        ctrls.append((j, ta, CLOSED if rng.random() < 0.75 else rng.choice(vals)))
        if rng.random() < 0.75:
            ctrls.append((j, tb, rng.choice(vals)))
    leaks = []
    for v in rng.sample(range(1, n), min(n - 1, rng.choice([0, 0, 1, 2]))):
        if kinds[v] == "J":
            t0 = rng.choice([0, 0, rng.randint(1, steps - 1)])
            leaks.append((v, rng.choice([1e-4, 5e-4, 1e-3]), t0, rng.choice([None, None, rng.randint(t0 + 1, steps)])))
    sc = dict(n=n, kinds=kinds, links=links, lk=lk, init=init, steps=steps, ctrls=ctrls, pdd=rng.random() < 0.5,
              demands=[round(rng.uniform(0.0005, 0.004), 6) for _ in range(n)], elev=[round(rng.uniform(0, 8), 2) for _ in range(n)],
              wild=True, leaks=leaks, rules=rng.random() < 0.4)
    if tank:
        sc["tank"] = tank
    if rng.random() < 0.2:
        sc["pause"] = rng.randint(1, steps - 1)
        sc["intvals"] = rng.random() < 0.5
    return sc


def build_run_wn(wntr, sc):
    from wntr.network.controls import Control, ControlAction, SimTimeCondition

    wn = wntr.network.WaterNetworkModel()
    for i, k in enumerate(sc["kinds"]):
        if k == "J":
            wn.add_junction("N%d" % i, base_demand=sc["demands"][i], elevation=sc["elev"][i])
        elif k == "T":
            tk = sc.get("tank", {"elevation": 30.0, "init_level": 10.0, "min_level": 0.0, "max_level": 40.0, "diameter": 40.0})
            wn.add_tank("N%d" % i, **tk)
        else:
            wn.add_reservoir("N%d" % i, base_head=70.0)
    names = {CLOSED: "CLOSED", OPEN: "OPEN", ACTIVE: "ACTIVE"}
    for j, (a, b) in enumerate(sc["links"]):
        nm, na, nb = (sc.get("lp", "L") + "%d") % j, "N%d" % a, "N%d" % b
        k = sc["lk"][j] if sc.get("lk") else ["pipe"]
        st = names[sc["init"][j]]
        if k[0] in ("pipe", "cv"):
            wn.add_pipe(nm, na, nb, length=200.0, diameter=0.3, roughness=110.0, initial_status=st, check_valve=(k[0] == "cv"))
        elif k[0] == "hpump":
            wn.add_curve("C%d" % j, "HEAD", [(k[1], k[2])])
            wn.add_pump(nm, na, nb, pump_type="HEAD", pump_parameter="C%d" % j, initial_status=st)
        elif k[0] == "ppump":
            wn.add_pump(nm, na, nb, pump_type="POWER", pump_parameter=k[1], initial_status=st)
        else:
            wn.add_valve(nm, na, nb, diameter=0.3, valve_type=k[0].upper(), minor_loss=0.0, initial_setting=k[1], initial_status=st)
    LS = wntr.network.LinkStatus
    for c, (j, t, v) in enumerate(sc["ctrls"]):
        # the INP reader stores plain ints in control actions (LINK x CLOSED AT TIME t -> value 0): both forms must behave alike
        act = ControlAction(wn.get_link((sc.get("lp", "L") + "%d") % j), "status", int(v) if sc.get("intvals") else LS(v))
        if sc.get("rules"):
            from wntr.network.controls import Rule
            wn.add_control("c%d" % c, Rule(SimTimeCondition(wn, "=", t * 3600), [act], name="c%d" % c))
        else:
            wn.add_control("c%d" % c, Control(SimTimeCondition(wn, "=", t * 3600), act))
    for (v, area, t0, t1) in sc.get("leaks", []):
        wn.get_node("N%d" % v).add_leak(wn, area=area, start_time=t0 * 3600, end_time=None if t1 is None else t1 * 3600)
    wn.options.time.duration = sc["steps"] * 3600
    wn.options.time.hydraulic_timestep = 3600
    wn.options.time.report_timestep = 3600
    wn.options.time.rule_timestep = 3600
    wn.options.hydraulic.demand_model = "PDD" if sc["pdd"] else "DD"
    return wn


def run_oracle(wntr, sc, trace=None):
    """returns (problem or None, stats). problem = (key, text, observed).  `trace`: a list that receives the Trace of the run"""
    wn = build_run_wn(wntr, sc)
    if trace is None:
        return _run_oracle(wntr, sc, wn)
    kc = [KCLASS[(sc["lk"][j] if sc.get("lk") else ["pipe"])[0]] for j in range(len(sc["links"]))]
    with Trace(wntr, wn, kc) as tr:
        trace.append(tr)
        prob, stats = _run_oracle(wntr, sc, wn)
    if prob is not None and prob[0] == "run-raises":
        tr.aborted = True
    if prob is None and tr.problems:
        prob = tr.problems[0]
    return prob, stats


class _DebugLogging:
    """results must not depend on the logging level: a share of the scenarios runs with the `wntr` logger at DEBUG (records go to a
    NullHandler, nothing is printed); everything is restored afterwards"""

    def __init__(self, on):
        self.on = on

    def __enter__(self):
        if self.on:
            import logging

            self.lg = logging.getLogger("wntr")
            self.saved = (self.lg.level, self.lg.propagate)
            self.h = logging.NullHandler()
            self.lg.addHandler(self.h)
            self.lg.setLevel(logging.DEBUG)
            self.lg.propagate = False

    def __exit__(self, *a):
        if self.on:
            self.lg.removeHandler(self.h)
            self.lg.setLevel(self.saved[0])
            self.lg.propagate = self.saved[1]
        return False


class _QuietFds:
    """SuperLU reports singular matrices (`dgstrf info k`) straight to the C stdout: silenced for the non-benign family"""

    def __init__(self, on):
        self.on = on

    def __enter__(self):
        if self.on:
            sys.stdout.flush()
            sys.stderr.flush()
            self.saved = [os.dup(1), os.dup(2)]
            nul = os.open(os.devnull, os.O_WRONLY)
            os.dup2(nul, 1)
            os.dup2(nul, 2)
            os.close(nul)

    def __exit__(self, *a):
        if self.on:
            os.dup2(self.saved[0], 1)
            os.dup2(self.saved[1], 2)
            os.close(self.saved[0])
            os.close(self.saved[1])
        return False


def _run_oracle(wntr, sc, wn):
    with _QuietFds(bool(sc.get("wild"))), _DebugLogging(bool(sc.get("debuglog"))):
        return _run_oracle1(wntr, sc, wn)


def _run_oracle1(wntr, sc, wn):
    lp = sc.get("lp", "L") + "%d"
    sim = wntr.sim.WNTRSimulator(wn)
    kw = {"HW_approx": "piecewise"} if sc.get("piecewise") else {}
    try:
        if sc.get("pause"):
            # pause after `pause` hours and continue with a NEW simulator object (the connectivity graph is rebuilt from the
            # statuses the first leg left behind); the concatenated results are judged like an uninterrupted run
            import pandas as pd

            class _Cat:
                pass

            wn.options.time.duration = sc["pause"] * 3600
            r1 = sim.run_sim(**kw)
            wn.options.time.duration = sc["steps"] * 3600
            r2 = wntr.sim.WNTRSimulator(wn).run_sim(**kw)
            res = _Cat()
            res.error_code = r1.error_code if r1.error_code is not None else r2.error_code
            res.node = {k: pd.concat([r1.node[k], r2.node[k]]) for k in ("pressure", "demand", "head", "leak_demand")}
            res.link = {k: pd.concat([r1.link[k], r2.link[k]]) for k in ("status", "flowrate")}
        else:
            res = sim.run_sim(**kw)
        if sc.get("rerun"):
            # the SAME simulator object used again after a reset: it must not keep anything from the first run
            wn.reset_initial_values()
            res = sim.run_sim(**kw)
    except Exception as e:
        return ("run-raises", "run_sim raised %s: %s" % (type(e).__name__, e), {"exception": repr(e)}), {}
    stats = {"iso_steps": 0, "conn_steps": 0, "reconnect": 0, "steps": 0}
    if res.error_code is not None and sc.get("wild"):
        stats["wild_unconverged"] = 1         # hydraulics that are not benign: the reported prefix is still judged
    elif res.error_code is not None:
        # plain pipes, one or more fixed-head sources, demand-driven or PDD with mild demands: nothing but the isolation
        # bookkeeping can make such a run fail ("the simulator still solves the rest of the network")
        return ("rest-not-solved", "run_sim did not converge (error_code %r, last reported time %s)"
                % (res.error_code, list(res.node["pressure"].index)[-1:]), {"error_code": repr(res.error_code)}), {"unconverged": 1}
    times = list(res.node["pressure"].index)
    if times != [t * 3600 for t in range(sc["steps"] + 1)] and not (sc.get("wild") and res.error_code is not None):
        return ("steps-missing", "reported times %s" % times, {"times": times}), stats
    leakq = res.node.get("leak_demand") if isinstance(res.node, dict) else None
    n = sc["n"]
    was_iso = set()
    for t in times:
        stats["steps"] += 1
        st = res.link["status"].loc[t]
        adj = [[] for _ in range(n)]
        for j, (a, b) in enumerate(sc["links"]):
            if int(st[lp % j]) != 0:
                adj[a].append(b)
                adj[b].append(a)
        seen = set(i for i, k in enumerate(sc["kinds"]) if k != "J")
        stack = list(seen)
        while stack:
            u = stack.pop()
            for v in adj[u]:
                if v not in seen:
                    seen.add(v)
                    stack.append(v)
        flow = res.link["flowrate"].loc[t]
        # links the simulator closed by itself (check valve, pump shut-off, tank limit, valve logic): reported Closed although the
        # last command of the scenario (or the initial status) is not Closed -- evidence only
        selfc = 0
        for j in range(len(sc["links"])):
            cmd = sc["init"][j]
            for (jj, tt, vv) in sc["ctrls"]:
                if jj == j and tt * 3600 <= t:
                    cmd = vv
            if cmd != CLOSED and int(st[lp % j]) == 0:
                selfc += 1
        stats["self_closed_link_steps"] = stats.get("self_closed_link_steps", 0) + selfc
        if selfc and len(seen) < n:
            stats["iso_steps_with_self_closed_link"] = stats.get("iso_steps_with_self_closed_link", 0) + 1
        for i in range(n):
            if sc["kinds"][i] != "J":
                continue
            nm = "N%d" % i
            p, d, h = float(res.node["pressure"].loc[t, nm]), float(res.node["demand"].loc[t, nm]), float(res.node["head"].loc[t, nm])
            lq = float(leakq.loc[t, nm]) if leakq is not None else 0.0
            inc = [j for j, (a, b) in enumerate(sc["links"]) if a == i or b == i]
            if i not in seen:
                stats["iso_steps"] += 1
                bad = [("pressure", p)] * (p != 0.0) + [("demand", d)] * (d != 0.0) + [("leak_demand", lq)] * (lq != 0.0) + \
                      [("flow link %d" % j, float(flow[lp % j])) for j in inc if float(flow[lp % j]) != 0.0]
                if bad:
                    return ("isolated-not-zeroed", "t=%d junction %s is cut off but reports %s" % (t, nm, bad),
                            {"t": t, "junction": nm, "nonzero": bad}), stats
                was_iso.add(i)
            else:
                stats["conn_steps"] += 1
                if i in was_iso:
                    stats["reconnect"] += 1
                    was_iso.discard(i)
                net_in = sum(float(flow[lp % j]) * (1 if sc["links"][j][1] == i else 0) -
                             float(flow[lp % j]) * (1 if sc["links"][j][0] == i else 0) for j in inc)
                exp = sc["demands"][i]
                zeroed = (p == 0.0 and h == 0.0) or (not sc["pdd"] and d == 0.0)
                if zeroed:
                    return ("connected-zeroed", "t=%d junction %s has an open path to a source but reports pressure=%r head=%r demand=%r"
                            % (t, nm, p, h, d), {"t": t, "junction": nm, "pressure": p, "head": h, "demand": d}), stats
                if not sc["pdd"] and abs(d - exp) > 1e-9:
                    return ("connected-demand", "t=%d connected junction %s demand %r != %r" % (t, nm, d, exp),
                            {"t": t, "junction": nm, "demand": d, "expected": exp}), stats
                if abs(net_in - d - lq) > 1e-5:
                    return ("rest-not-solved", "t=%d connected junction %s: net inflow %r != demand %r + leak %r" % (t, nm, net_in, d, lq),
                            {"t": t, "junction": nm, "net_inflow": net_in, "demand": d}), stats
        # "reconnecting restores normal results": an open link whose two ends are connected to a source carries the flow its
        # head-flow law dictates; a reported flow of exactly 0 across a head difference (or through an open pump) is what a link
        # still treated as isolated reports (its row is `flow = 0` and store_results writes the integer 0)
        for j, (a, b) in enumerate(sc["links"]):
            k = (sc["lk"][j] if sc.get("lk") else ["pipe"])[0]
            s_j = int(st[lp % j])
            if s_j == 0 or a not in seen or b not in seen or float(flow[lp % j]) != 0.0:
                continue
            ha, hb = float(res.node["head"].loc[t, "N%d" % a]), float(res.node["head"].loc[t, "N%d" % b])
            # a flow of exactly 0 is only called "zeroed" when it contradicts the link's own law at the reported heads: a pipe /
            # open valve with a head difference, an open head pump whose gain is not its shut-off head (a pump feeding a dead end
            # with no demand sits exactly at shut-off with flow 0: the true solution, Newton may even return 0.0)
            if k == "hpump":
                A = float(wn.get_link(lp % j).get_head_curve_coefficients()[0])
                odd = abs((hb - ha) - A) > 1e-3 * max(1.0, A)
            else:
                odd = (k != "ppump" and abs(ha - hb) > 1e-3 and (k in ("pipe", "tcv") or s_j == 1) and not (k == "cv" and ha < hb))
            if odd:
                stats["link_checked_bad"] = 1
                return ("connected-link-zeroed", "t=%d link L%d (%s, reported status %d) joins two junctions connected to a source "
                        "(heads %r, %r) but reports flow exactly 0" % (t, j, k, s_j, ha, hb),
                        {"t": t, "link": lp % j, "kind": k, "status": s_j, "heads": [ha, hb]}), stats
    return None, stats


# ----------------------------------------------------------------------------- the check


class C09(Check):
    pid = "C09"
    level = "proof"
    prop_modules = ["WntrModel.Props.C09"]
    extra_targets = ["WntrModel.Model.Isolation", "WntrModel.Model.IsolationStatic", "WntrModel.Model.IsolationRun"]
    manifest = dict(
        category="proof",
        text="Lean theorems for every finite multigraph of pipes, pumps and valves and every history of status changes: (source level) the "
        "statement skeleton parsed on every run from network_isolation.cpp IS the reference program (cpp_search_is_reference, decide) whose "
        "interpretation equals checkIsolated on every input (cpp_search_means_checkIsolated), which clears exactly the nodes reachable "
        "through data==1 entries (dfs_reaches_exactly, cpp_search_reaches_exactly; the while loop always ends on the empty set, "
        "search_fuel_suffices); the statement trees parsed from _update_internal_graph and _get_isolated_junctions_and_links mean updateGraph "
        "and getIsolated (update_program_means_updateGraph, isolated_program_means_getIsolated); the ast skeletons of "
        "_initialize_internal_graph / _get_csr_data_index, the registries iterated (pipes, pumps, valves; all junctions and ALL links for the "
        "previously-isolated seeds), the head and the loop body of run_sim are the ones the model transliterates (python_shape_is_reference); "
        "(bookkeeping) the CSR entry of a node pair is 1 iff some link of the pair is not Closed under the status property of its class "
        "(Pipe/Pump: internal Closed wins, else user; Valve: user Closed/Open win, else internal; Open, Active, CV count as open) over every "
        "history incl. restarts of run_sim on a network that still carries flags (csr_init_correct, csr_update_preserves, "
        "restart_restores_invariant), hence flagged == cut off (isolated_iff_cut_off, connected_never_isolated, reconnect_restores); (run "
        "level) for every list of legs and passes of the loop body with arbitrary presolve / postsolve / feasibility status actions, "
        "every reported row shows a junction as zero iff by the statuses reported in that row no path of non-Closed links joins it to a "
        "tank or reservoir (reported_zero_iff_cut_off, cut_off_reported_zero, connected_reported_solved_run). Ties checked on every "
        "run: the translators; the compiled search, the real bookkeeping on random multigraphs with all link classes, histories and restarts "
        "(real head of run_sim), and every call of the bookkeeping observed inside real runs (pipes, CV pipes, head pumps, PRV/PSV/FCV/TCV, "
        "tank-limit closures, pause/continue while cut off) replayed through the Lean driver; the statement's oracle on the results.",
        design_ref="DESIGN.md §5 C09, §4 M8",
        note="trusted: Lean kernel, axioms {propext, Classical.choice, Quot.sound}; the translators (tokenizer + recursive descent for the C++ "
        "function, ast tables for core.py) and the correspondence harness. Modelled, not verified: C++ int/long arithmetic and std::set "
        "(the interpreter works on unbounded integers and a duplicate-free list; counted loops read their bounds once, justified by "
        "reference_program_wf), scipy's csr_matrix constructor (modelled by buildCsr: sorted merged rows, indptr as prefix counts; its output "
        "is PROVED to meet the structure contract for every network without self-loops -- csr_structure_correct, "
        "csr_init_correct_of_topology -- and compared with scipy's indptr / indices / data on every generated case; what remains a "
        "decidable hypothesis evaluated per case is multiOk, the n_links table of the Python code), SWIG marshalling, the hydraulic solve (full runs are judged by the statement's oracle only; generated hydraulics are kept "
        "benign: control valves are bridges, at most one FCV, no tank next to two control valves). _update_internal_graph and "
        "_get_isolated_junctions_and_links are parsed into statement trees whose interpretation is proved equal to updateGraph / getIsolated "
        "(one tree node = a fixed group of source statements, matched textually); _initialize_internal_graph, _get_csr_data_index and the head "
        "of run_sim are token skeletons tied to initGraph / getCsrDataIndex / startRun by reading plus the differential runs. The order of "
        "the calls inside run_sim is tied by the generated token list and by the grammar check on the observed traces. Theorems exclude "
        "self-loops (accepted by WNTR, rejected by EPANET; exercised by the correspondence). reset_initial_values between two runs of one "
        "simulator is exercised, not modelled.",
        technique="Lean 4 proof (translator-regenerated program skeletons + interpreter refinement + invariants over histories) + differential "
        "runs against the Lean driver (in-process call traces of real simulations)",
    )
    rule = (
        "obligations: theorems of Props/C09.lean. correspondence cases: (a) one random CSR input to the compiled search; (b) one random "
        "multigraph of pipes / CV pipes / power and head pumps / TCV, PRV, PSV, FCV + initial statuses + history of status actions, graph "
        "updates, isolation calls and run_sim restarts through the real WNTRSimulator; (c) one full WNTRSimulator run (or paused and "
        "continued pair of runs) with time controls, its bookkeeping calls traced and replayed. distinct = distinct generated inputs; "
        "non-trivial = (a) at least one data==1 entry and one source, (b) at least one isolated junction at some point of the history or a "
        "parallel pair, (c) at least one isolated reported step"
    )
    trusted_base = [
        "translators in harness/props/c09.py (C++ tokenizer + recursive descent; Python ast statement tables)",
        "correspondence harness harness/props/c09.py (drives the real WNTRSimulator methods and the compiled extension, wraps the "
        "bookkeeping functions in-process)",
        "scipy.sparse.csr_matrix construction = Model buildCsr: compared array by array per case (the structure contract itself is proved)",
        "SWIG marshalling of numpy arrays into check_for_isolated_junctions (exercised); C++ integer and std::set semantics (modelled)",
    ]
    assumptions = [
        "link status changes during a run happen only through control actions that notify the ControlChangeTracker",
        "networks of the correspondence are built by add_* calls only (get_links_for_node order = registry order)",
        "a network carries _is_isolated flags only on junctions and links (tanks / reservoirs are never flagged: invariant srcOk)",
        "full-run hydraulics are benign (non-convergence on the generated networks is judged as rest-not-solved)",
    ]

    def translate(self, ctx):
        write_shape(vlib.REPO)

    # ------------------------------------------------------------------ (a)
    def corr_csr(self, ctx, cases, failures, broken):
        import numpy as np

        wntr = vlib.import_wntr()
        from wntr.sim.network_isolation import check_for_isolated_junctions, get_long_size

        dt = np.int64 if get_long_size() == 8 else np.int32
        # the compiled function runs in a forked child: an edit that makes it read or write out of bounds must end in a
        # replayable failure, not in a dead checker
        rfd, wfd = os.pipe()
        pid = os.fork()
        if pid == 0:
            try:
                os.close(rfd)
                with os.fdopen(wfd, "w") as f:
                    for c in cases:
                        ind = np.array(c["ind"], dtype=dt)
                        check_for_isolated_junctions(np.array(c["sources"], dtype=dt), ind, np.array(c["indptr"], dtype=dt),
                                                     np.array(c["indices"], dtype=dt), np.array(c["data"], dtype=dt),
                                                     np.array(c["nconn"], dtype=dt))
                        f.write(_c(ind) + "\n")
                        f.flush()
            finally:
                os._exit(0)
        os.close(wfd)
        with os.fdopen(rfd) as f:
            impl = [l.strip() for l in f.read().splitlines()]
        _, status = os.waitpid(pid, 0)
        if len(impl) < len(cases):
            c = cases[len(impl)]
            self._search_crashed = True
            failures.append(Failure("cpp-search-crash",
                                    "check_for_isolated_junctions killed the interpreter (wait status %d) on a well-formed CSR input" % status,
                                    {"input": c, "observed": "process died", "expected": self._csr_reach(c)}))
            cases = cases[:len(impl)]
        lines = ["csr %s | %s | %s | %s | %s | %s" % tuple(
            " ".join(map(str, c[k])) for k in ("sources", "ind", "indptr", "indices", "data", "nconn")) for c in cases]
        out = vlib.lean_run(DRIVER, "\n".join(lines) + "\n") if lines else []
        if len(out) != len(lines):
            raise vlib.Infra("IsolationDriver returned %d lines for %d requests" % (len(out), len(lines)))
        for c, a, b in zip(cases, impl, out):
            nontriv = any(d == 1 for d in c["data"]) and bool(c["sources"])
            ctx.case(("csr", json.dumps(c, sort_keys=True)), nontriv)
            ctx.count("csr:" + c["kind"])
            # independent reachability on the flat arrays (the statement of dfs_reaches_exactly)
            exp = self._csr_reach(c)
            # a concrete violation only on inputs of the kind the simulator produces (entries 0 / 1); on other entries a difference
            # from the model is a broken tie, not a defect (`val != 0` would be a harmless rewrite of `val == 1`)
            if a != exp and all(d in (0, 1) for d in c["data"]):
                failures.append(Failure("cpp-search-reachability",
                                        "check_for_isolated_junctions differs from reachability through data==1 entries: got %s expected %s" % (a, exp),
                                        {"input": c, "observed": a, "expected": exp}))
            if a != b.strip():
                broken.append(Broken("correspondence", "checkIsolated vs compiled check_for_isolated_junctions",
                                     "input %s\nimpl  %s\nmodel %s" % (json.dumps(c), a, b)))
                self._save_corpus("csr", c)
        if cases:
            ctx.sample({"kind": "csr", "input": cases[0], "indicator_after": impl[0]})

    @staticmethod
    def _csr_reach(c):
        ind = list(c["ind"])
        n = c["n"]
        alive = [x == 1 for x in ind]
        seen = set()
        stack = []
        for s in c["sources"]:
            if alive[s] and s not in seen:
                seen.add(s)
                stack.append(s)
        while stack:
            u = stack.pop()
            for i in range(c["nconn"][u]):
                p = c["indptr"][u] + i
                if c["data"][p] == 1:
                    v = c["indices"][p]
                    if alive[v] and v not in seen:
                        seen.add(v)
                        stack.append(v)
        return _c(0 if i in seen else ind[i] for i in range(n))

    # ------------------------------------------------------------------ (b)
    def corr_net(self, ctx, cases, failures, broken):
        wntr = vlib.import_wntr()
        lines, impls = [], []
        for (net, internal0, ops) in cases:
          with _DebugLogging(bool(net.get("debuglog"))):
            im = ImplSim(wntr, net, internal0)
            segs = []
            tail_linkless = self._tail_linkless(net)
            if im.init_exc is not None:
                segs = None
                if isinstance(im.init_exc, IndexError) and tail_linkless:
                    failures.append(Failure(
                        "init-graph-linkless-last-node",
                        "_initialize_internal_graph raises IndexError when the node(s) with the highest id have no link "
                        "(a link-less junction anywhere else is reported isolated and zeroed): %s" % im.init_exc,
                        {"network": net, "observed": repr(im.init_exc),
                         "expected": "junction N%d flagged isolated, rest of the network solved" % (net["n"] - 1)}))
                else:
                    failures.append(Failure("init-graph-raises", "_initialize_internal_graph raised %r" % im.init_exc,
                                            {"network": net, "observed": repr(im.init_exc)}))
            else:
                segs = [im.init_segment()]
                ever_iso = False
                xops = []
                for op in ops:
                    if op == "R":
                        try:
                            rt, rs = im.restart()
                        except Exception as e:
                            failures.append(Failure("restart-raises", "run_sim on the network as the history left it raised %r" % e,
                                                    {"network": net, "internal0": internal0, "ops": ops, "upto": len(xops), "observed": repr(e)}))
                            break
                        xops += rt
                        segs += rs
                    else:
                        xops.append(op)
                        segs.append(im.apply(op))
                    if op in ("p", "R"):
                        # property oracle on the real flags: flagged == cut off (independent BFS over link.status)
                        ej, el = im.cut_off()
                        gj = [i for i, (_, nd) in enumerate(im.wn.nodes()) if nd._is_isolated]
                        gl = [j for j, (_, l) in enumerate(im.wn.links()) if l._is_isolated]
                        ever_iso = ever_iso or bool(ej)
                        closed = [j for j in range(len(net["links"])) if im.wn.get_link(im.lp % j).status == wntr.network.LinkStatus.Closed]
                        # the statement: cut-off junctions and their links are zeroed, nothing connected is.  A stale flag on a
                        # CLOSED link is unobservable (flow 0 either way): that is left to the model comparison, not judged here.
                        link_bad = [j for j in el if j not in gl] + [j for j in gl if j not in el and j not in closed]
                        if gj != ej or link_bad:
                            failures.append(Failure(
                                "flags-vs-reachability" + ("-parallel" if self._has_parallel(net) else ""),
                                "after _update_internal_graph + _get_isolated_junctions_and_links the flagged junctions %s / links %s "
                                "differ from the cut-off ones %s / %s" % (gj, gl, ej, el),
                                {"network": net, "internal0": internal0, "ops": ops, "upto": len(segs) - 1,
                                 "flagged_junctions": gj, "flagged_links": gl, "cut_off_junctions": ej, "cut_off_links": el}))
                            break
                im.ever_iso = ever_iso
                ops = xops
            lines.append(net_line(net, internal0, ops))
            impls.append((im, segs, ops))
        out = vlib.lean_run(DRIVER, "\n".join(lines) + "\n") if lines else []
        if len(out) != len(lines):
            raise vlib.Infra("IsolationDriver returned %d lines for %d requests" % (len(out), len(lines)))
        for (net, internal0, _), (im, segs, ops), line, mo in zip(cases, impls, lines, out):
            par = self._has_parallel(net)
            ctx.case(("net", line), nontrivial=bool(par or getattr(im, "ever_iso", False)))
            ctx.count("net:parallel" if par else "net:simple")
            if net.get("lp") == "N":
                ctx.count("net:link-names-like-node-names")
            if net.get("debuglog"):
                ctx.count("net:logging-at-DEBUG")
            if any(a == b for a, b, _, _ in net["links"]):
                ctx.count("net:selfloop")
            if getattr(im, "ever_iso", False):
                ctx.count("net:isolated-at-some-point")
            for op in ops:
                ctx.count("op:" + (op[0] if op[0] in "UI" else op))
            msegs = [s.strip() for s in mo.split(" | ")]
            if " ok=1 " not in msegs[0] + " ":
                broken.append(Broken("correspondence", "StructOk contract", "the CSR structure contract fails on the model's arrays: %s\n%s" % (line, msegs[0])))
            if segs is None:
                continue
            if len(msegs) != len(segs) or any(a != b for a, b in zip(segs, msegs)):
                k = next((i for i, (a, b) in enumerate(zip(segs, msegs)) if a != b), min(len(segs), len(msegs)))
                broken.append(Broken("correspondence", "M8 bookkeeping vs WNTRSimulator",
                                     "%s\nfirst difference at segment %d (op %s)\nimpl  %s\nmodel %s" % (
                                         line, k, (["init"] + ops)[k] if k < len(ops) + 1 else "?",
                                         segs[k] if k < len(segs) else "-", msegs[k] if k < len(msegs) else "-")))
                self._save_corpus("net", {"net": net, "internal0": internal0, "ops": ops})
        if cases:
            ctx.sample({"kind": "net", "line": lines[0], "impl_last_segment": (impls[0][1] or ["(init raised)"])[-1]})

    @staticmethod
    def _has_parallel(net):
        seen = set()
        for a, b, _, _ in net["links"]:
            k = (min(a, b), max(a, b))
            if k in seen:
                return True
            seen.add(k)
        return False

    @staticmethod
    def _tail_linkless(net):
        used = set()
        for a, b, _, _ in net["links"]:
            used.add(a)
            used.add(b)
        return (net["n"] - 1) not in used

    def _save_corpus(self, kind, obj):
        if os.path.realpath(vlib.REPO) != "/repo":
            return                # disagreements seen on a scratch / mutated tree do not belong in the corpus
        d = os.path.join(vlib.CORPUS, "C09")
        os.makedirs(d, exist_ok=True)
        import hashlib

        s = json.dumps({"kind": kind, "case": obj}, sort_keys=True)
        p = os.path.join(d, "auto-%s-%s.json" % (kind, hashlib.sha256(s.encode()).hexdigest()[:10]))
        if not os.path.exists(p) and len(os.listdir(d)) < 40:
            with open(p, "w") as f:
                f.write(s)

    # ------------------------------------------------------------------ (c)
    def corr_runs(self, ctx, scs, failures, broken=None):
        """full runs: the statement's oracle on the results; with `broken` given also the run-level tie (every call of the
        bookkeeping observed in-process, replayed through the Lean model)"""
        wntr = vlib.import_wntr()
        pend = []
        for sc in scs:
            tl = [] if broken is not None else None
            prob, stats = run_oracle(wntr, sc, trace=tl)
            ctx.case(("run", json.dumps(sc, sort_keys=True)), nontrivial=stats.get("iso_steps", 0) > 0)
            for k, v in stats.items():
                ctx.count("run:" + k, v)
            if any(sc["links"].count(l) + sc["links"].count((l[1], l[0])) > 1 for l in sc["links"]):
                ctx.count("run:with-parallel")
            for k in sorted(set(l[0] for l in sc.get("lk", [])) - {"pipe"}):
                ctx.count("run:kind:" + k)
            if sc.get("pause"):
                ctx.count("run:paused")
            if sc.get("lp") == "N":
                ctx.count("run:link-names-like-node-names")
            if sc.get("debuglog"):
                ctx.count("run:logging-at-DEBUG")
            if prob is not None:
                key, text, obs = prob
                failures.append(Failure("run-" + key, text, {"scenario": sc, "observed": obs}))
            if tl:
                for item in tl[0].driver_lines():
                    pend.append((sc,) + item)
        if scs:
            ctx.sample({"kind": "run", "scenario": scs[0]})
        if not pend:
            return
        lines = []
        for _, net, _, legs, _, _ in pend:
            lines.append(net)
            if legs is not None:
                lines.append(legs)
        out = vlib.lean_run(DRIVER, "\n".join(lines) + "\n")
        if len(out) != len(lines):
            raise vlib.Infra("IsolationDriver returned %d lines for %d requests" % (len(out), len(lines)))
        k = 0
        nb = 0
        for sc, net, segs, legs, rows, err in pend:
            msegs = [x.strip() for x in out[k].split(" | ")]
            k += 1
            ctx.count("trace:lines")
            ctx.count("trace:calls", len(segs) - 1)
            if err is not None:
                nb += 1
                if nb <= 3:
                    broken.append(Broken("correspondence", "run_sim call order vs Model/IsolationRun.lean",
                                         "the observed calls do not follow the loop body the model is written for: %s\n%s" % (err, net)))
            if " ok=1 " not in msegs[0] + " ":
                broken.append(Broken("correspondence", "StructOk contract", "the CSR structure contract fails on the model's arrays: %s\n%s" % (net, msegs[0])))
            if len(msegs) != len(segs) or any(a != b for a, b in zip(segs, msegs)):
                d = next((i for i, (a, b) in enumerate(zip(segs, msegs)) if a != b), min(len(segs), len(msegs)))
                toks = ["init"] + net.split("|")[-1].split()
                nb += 1
                if nb <= 3:
                    broken.append(Broken("correspondence", "bookkeeping inside run_sim vs M8",
                                         "%s\nfirst difference at call %d (%s)\nimpl  %s\nmodel %s" % (
                                             net, d, toks[d] if d < len(toks) else "?", segs[d] if d < len(segs) else "-",
                                             msegs[d] if d < len(msegs) else "-")))
                    self._save_corpus("run", sc)
            if legs is not None:
                mrows = out[k].strip()
                k += 1
                ctx.count("trace:rows", len(rows))
                if mrows != " | ".join(rows):
                    nb += 1
                    if nb <= 3:
                        broken.append(Broken("correspondence", "reported rows vs runLegs",
                                             "%s\nimpl  %s\nmodel %s" % (legs, " | ".join(rows), mrows)))
                        self._save_corpus("run", sc)

    # ------------------------------------------------------------------
    def _cases(self, ctx, wide=False):
        rng = ctx.rng
        q = ctx.quick and not wide
        csr = [gen_csr(rng, big=not q) for _ in range(150 if q else 4000)]
        nets = []
        for _ in range(60 if q else 1500):
            net = gen_net(rng, quick=q)
            internal0 = [ACTIVE if rng.random() < 0.9 else rng.choice([CLOSED, OPEN]) for _ in net["links"]]
            nets.append((net, internal0, gen_ops(rng, net, quick=q)))
        for i, (net, _, _) in enumerate(nets):
            # a quarter of the graphs: links named like nodes (EPANET numeric ids collide: pipe '3' and junction '3');
            # a quarter: the wntr logger at DEBUG (the bookkeeping must not depend on the logging level)
            if i % 4 == 1 or i % 8 == 6:
                net["lp"] = "N"
            if i % 4 == 3 or i % 8 == 6:
                net["debuglog"] = True
        for _ in range(2 if q else 10):  # separate stream: the node(s) with the highest id have no link at all
            net = gen_net(rng, quick=True, linkless_tail=True)
            while net["n"] < 3:
                net = gen_net(rng, quick=True, linkless_tail=True)
            net["kinds"][-1] = "J"
            nets.append((net, [ACTIVE] * len(net["links"]), ["p"]))
        runs = [gen_run(rng, quick=q) for _ in range(14 if q else 300)]
        runs += [gen_swap_run(rng) for _ in range(3 if q else 40)]
        runs += [gen_pause_run(rng) for _ in range(3 if q else 40)]
        # pumps / valves (PRV, PSV, FCV, TCV) / check-valve pipes on the backbone, zones containing them cut off and reconnected;
        # a third of them paused while cut off and reconnected at the first step of the continued run
        elem = []
        for i in range(36 if q else 2000):
            elem.append(gen_elem_run(rng, want=SPECIAL_KINDS[i % len(SPECIAL_KINDS)] if i % 2 == 0 else None,
                                     pause_mode="first" if i % 3 == 0 else None))
        # variants of the same scenarios: the piecewise Hazen-Williams rows, and a second run of the same simulator object
        extra = []
        for i, sc in enumerate(runs):
            if i % 4 == 0:
                extra.append(dict(sc, piecewise=True))
            if i % 4 == 1:
                extra.append(dict(sc, rerun=True))
            if i % 8 == 2:
                extra.append(dict(sc, rerun=True, piecewise=True))
            if i % 3 == 0 and sc["steps"] >= 3:
                # paused and continued while (possibly) something is cut off; int-valued actions as read from an INP file
                extra.append(dict(sc, pause=1 + (i // 3) % (sc["steps"] - 1), intvals=(i % 2 == 0)))
        runs += extra
        runs += elem
        # not benign on purpose (valves in loops, self-closing check valves / pumps, tank limits, PDD, leaks, rules)
        runs += [gen_wild_run(rng) for _ in range(40 if q else 1500)]
        # a zone that lives on a small tank until WNTR's own tank control closes the tank's link (internal status)
        runs += [gen_tank_drain_run(rng) for _ in range(4 if q else 60)]
        for i, sc in enumerate(runs):
            if i % 4 == 1 or i % 8 == 6:
                sc["lp"] = "N"                # link names collide with node names
            if i % 4 == 3 or i % 8 == 6:
                sc["debuglog"] = True         # run with logging at DEBUG
        return csr, nets, runs

    def correspondence(self, ctx):
        failures, broken = [], []
        ccsr, cnet, crun = [], [], []
        for fn, item in vlib.corpus_items("C09"):
            k, c = item.get("kind"), item.get("case")
            if k == "csr":
                ccsr.append(c)
            elif k == "net":
                cnet.append((c["net"], c["internal0"], c["ops"]))
            elif k == "run":
                crun.append(c)
            ctx.count("corpus:" + str(k))
        for c in cnet:
            c[0]["links"] = [tuple(l) for l in c[0]["links"]]
        for c in crun:
            c["links"] = [tuple(l) for l in c["links"]]
            c["ctrls"] = [tuple(l) for l in c["ctrls"]]
        csr, nets, runs = self._cases(ctx)
        self._search_crashed = False
        self.corr_csr(ctx, ccsr + csr, failures, broken)
        if self._search_crashed or any(f.key.startswith("cpp-search") for f in failures):
            # the same compiled function would be called in-process by the simulator (and an out-of-bounds read there kills the
            # checker): stop here with the concrete failing input
            return failures, broken
        self.corr_net(ctx, cnet + nets, failures, broken)
        self.corr_runs(ctx, crun + runs, failures, broken)
        return failures, broken

    def search(self, ctx, broken):
        """something no longer checks: wider generators, judged by the statement's oracles on the real code only"""
        failures, b2 = [], []
        csr, nets, runs = self._cases(ctx, wide=True)
        self._search_crashed = False
        self.corr_csr(ctx, csr[:600], failures, b2)
        if not failures:
            self.corr_net(ctx, nets[:250], failures, b2)
        if not failures:
            self.corr_runs(ctx, runs[:60], failures)
        return failures

    def replay(self, ctx, path):
        r = json.load(open(path if os.path.isabs(path) else os.path.join(vlib.VERIF, path)))
        print(json.dumps(r, indent=1)[:3000])
        rp = r.get("replay", {})
        failures, broken = [], []
        if "input" in rp:
            self.corr_csr(ctx, [rp["input"]], failures, broken)
        elif "network" in rp:
            net = rp["network"]
            net["links"] = [tuple(l) for l in net["links"]]
            self.corr_net(ctx, [(net, rp.get("internal0", [ACTIVE] * len(net["links"])), rp.get("ops", ["p"]))], failures, broken)
        elif "scenario" in rp:
            sc = rp["scenario"]
            sc["links"] = [tuple(l) for l in sc["links"]]
            sc["ctrls"] = [tuple(l) for l in sc["ctrls"]]
            self.corr_runs(ctx, [sc], failures)
        else:
            fs, bs = self.correspondence(ctx)
            failures = fs
        hit = [f for f in failures if f.key == r.get("key")] or failures
        print("replay: %s" % ("REPRODUCED " + hit[0].what if hit else "not reproduced on the current tree"))
        return 1 if hit else 0


if __name__ == "__main__":
    vlib.run_check(C09)
