"""ast translator for C05/C06: regenerates lean/WntrModel/Gen/TankShape.lean from the CURRENT source of

  wntr/sim/hydraulics.py   update_tank_heads
  wntr/network/elements.py _interp_extrapolate, Tank.get_volume
  wntr/sim/core.py         WNTRSimulator._run_postsolve_controls, the `_InternalControlAction(.., '_internal_status', ..)` writers of
                           _get_all_tank_controls / _get_cv_controls / _get_pump_controls / _get_valve_controls

as typed tokens (Model/TankShape.lean).  Lemmas/TankShape.lean proves that interpreting these tokens IS the hand-written model
(Tank.updateHead, Tank.interpX, Tank.getVolume, Controls.runPass), so an edit of those functions breaks a named theorem.
Anything the translator cannot read raises Bad (reported as a broken tie).
"""
import ast
import os

REPO = os.environ.get("VERIF_REPO", "/repo")


class Bad(Exception):
    pass


def U(n):
    return ast.unparse(n)


def find_fn(tree, name, cls=None):
    for n in ast.walk(tree):
        if cls and isinstance(n, ast.ClassDef) and n.name == cls:
            for m in n.body:
                if isinstance(m, ast.FunctionDef) and m.name == name:
                    return m
        if not cls and isinstance(n, ast.FunctionDef) and n.name == name:
            return n
    raise Bad("function %s%s not found" % ((cls + ".") if cls else "", name))


def strip_doc(body):
    if body and isinstance(body[0], ast.Expr) and isinstance(getattr(body[0], "value", None), ast.Constant) and isinstance(body[0].value.value, str):
        return body[1:]
    return body


NAMES = {
    "wn.sim_time": "simTime", "wn._prev_sim_time": "prevSimTime", "tank.demand": "demand", "tank.leak_demand": "leakDemand",
    "tank.diameter": "diameter", "self.diameter": "diameter", "math.pi": "mathPi", "np.pi": "mathPi", "tank.head": "head",
    "tank._prev_head": "prevHead", "tank.level": "tankLevel", "self.level": "tankLevel", "tank.elevation": "elevation",
    "dt": "dt", "q_net": "qNet", "dV": "dV", "delta_h": "deltaH", "cur_level": "curLevel", "V0": "v0", "V1": "v1",
    "level_new": "levelNew", "x": "x", "y": "y", "level": "level", "A": "area", "vol": "vol",
    "cur_value": "curValue", "thresh_value": "threshValue", "self._backtrack": "backtrack", "thresh_level": "threshLevel",
    "cur_value_volume": "curVol", "thresh_volume": "thrVol", "self._source_obj.diameter": "diameter", "self._source_obj.demand": "demand",
    "self._source_obj.elevation": "elevation",
}
IX = {"0": "first", "1": "second", "-2": "secondLast", "-1": "last"}


def rat(c):
    from fractions import Fraction

    fr = Fraction(c)
    return "(%d : Rat)" % fr.numerator if fr.denominator == 1 else "((%d : Rat) / %d)" % (fr.numerator, fr.denominator)


class Tr:
    """expression / statement translation in one function's context"""

    def __init__(self, curve_cols=None, xpfp=False):
        self.cols = curve_cols or {}  # local name / text -> 'level' | 'volume'
        self.xpfp = xpfp

    def expr(self, e):
        t = U(e)
        if t in NAMES:
            return ".n .%s" % NAMES[t]
        if isinstance(e, ast.Constant) and isinstance(e.value, (int, float)) and not isinstance(e.value, bool):
            return ".lit %s" % rat(e.value)
        if isinstance(e, ast.BinOp):
            if isinstance(e.op, ast.Pow):
                if U(e.right) != "2":
                    raise Bad("power other than 2: " + t)
                return ".sq (%s)" % self.expr(e.left)
            op = {ast.Add: "add", ast.Sub: "sub", ast.Mult: "mul", ast.Div: "div"}.get(type(e.op))
            if op is None:
                raise Bad("operator in " + t)
            return ".%s (%s) (%s)" % (op, self.expr(e.left), self.expr(e.right))
        if isinstance(e, ast.Subscript) and self.xpfp and U(e.value) in ("xp", "fp") and U(e.slice) in IX:
            return ".%s .%s" % (U(e.value), IX[U(e.slice)])
        if isinstance(e, ast.Call):
            f = U(e.func)
            if f == "int" and len(e.args) == 1 and isinstance(e.args[0], ast.Call) and U(e.args[0].func) == "math.floor":
                return ".floor (%s)" % self.expr(e.args[0].args[0])
            if f == "self._source_obj.get_volume" and len(e.args) == 1:
                return ".vol (%s)" % self.expr(e.args[0])
            if f in ("np.minimum", "np.maximum") and len(e.args) == 2 and U(e.args[1]) in ("0.0", "0"):
                return ".%s (%s)" % ("min0" if f == "np.minimum" else "max0", self.expr(e.args[0]))
            if f == "np.interp" and self.xpfp and [U(a) for a in e.args[1:]] == ["xp", "fp"]:
                return ".npInterp (%s)" % self.expr(e.args[0])
            if f in ("_interp_extrapolate", "np.interp") and len(e.args) == 3:
                a, b = self.cols.get(U(e.args[1])), self.cols.get(U(e.args[2]))
                if (a, b) == ("level", "volume"):
                    inv = "false"
                elif (a, b) == ("volume", "level"):
                    inv = "true"
                else:
                    raise Bad("curve lookup on unknown columns: " + t)
                return ".lookup %s %s (%s)" % ("true" if f == "_interp_extrapolate" else "false", inv, self.expr(e.args[0]))
        raise Bad("expression not understood: " + t)

    def cond(self, c):
        t = U(c)
        if t in ("tank.vol_curve is None", "self.vol_curve is None"):
            return ".curveNone"
        if t == "len(xp) > 1":
            return ".lenGt1"
        if t in ("self._source_obj.vol_curve is None",):
            return ".curveNone"
        if t in ("self._source_attr == 'head'", "self._source_attr == 'level'", "self._source_attr == 'pressure'"):
            return ".attrIs .%s" % t.split("'")[1]
        if isinstance(c, ast.Compare) and len(c.ops) == 1 and isinstance(c.ops[0], ast.Eq):
            return ".eq (%s) (%s)" % (self.expr(c.left), self.expr(c.comparators[0]))
        raise Bad("condition not understood: " + t)

    def stmts(self, body, target_map=None):
        out = []
        for s in body:
            if isinstance(s, ast.Expr) and isinstance(s.value, ast.Constant):
                continue
            if isinstance(s, ast.Return):
                continue
            if isinstance(s, ast.Assign) and len(s.targets) == 1:
                tgt = U(s.targets[0])
                val = U(s.value)
                # curve column bookkeeping (checked literally)
                if val in ("np.array(tank.vol_curve.points)", "np.array(self.vol_curve.points)"):
                    self.arr = tgt
                    self.cols["%s[:, 0]" % tgt] = "level"
                    self.cols["%s[:, 1]" % tgt] = "volume"
                    continue
                if hasattr(self, "arr") and val in ("%s[:, 0]" % self.arr, "%s[:, 1]" % self.arr):
                    self.cols[tgt] = self.cols[val]
                    continue
                name = (target_map or {}).get(tgt) or NAMES.get(tgt)
                if name is None:
                    raise Bad("assignment target not understood: " + tgt)
                out.append(".assign .%s (%s)" % (name, self.expr(s.value)))
                continue
            if isinstance(s, ast.If):
                if U(s.test) == "level is None" and [U(x) for x in s.body] == ["level = self.level"] and not s.orelse:
                    continue  # argument defaulting of get_volume
                out.append(".ite (%s) (%s) (%s)" % (self.cond(s.test), self.block(s.body, target_map), self.block(s.orelse, target_map)))
                continue
            if isinstance(s, ast.Raise) and U(s.exc).startswith("NotImplementedError("):
                out.append(".raise")
                continue
            raise Bad("statement not understood: " + U(s)[:80])
        return out

    def block(self, body, target_map=None):
        return "sblock [%s]" % ", ".join(self.stmts(body, target_map))


def update_shape(src):
    f = find_fn(ast.parse(src), "update_tank_heads")
    body = strip_doc(f.body)
    if len(body) != 2 or not isinstance(body[1], ast.For) or U(body[1].iter) != "wn.tanks()" or U(body[1].target) != "(tank_name, tank)":
        raise Bad("update_tank_heads is not `dt = ...; for tank_name, tank in wn.tanks(): ...`")
    tr = Tr()
    pre = tr.stmts(body[:1])
    loop = tr.stmts(body[1].body, {"tank._head": "newHead"})
    return "sblock [%s]" % ", ".join(pre + loop)


def interp_extrap_shape(src):
    f = find_fn(ast.parse(src), "_interp_extrapolate")
    if [a.arg for a in f.args.args] != ["x", "xp", "fp"]:
        raise Bad("_interp_extrapolate(x, xp, fp) has other arguments")
    body = strip_doc(f.body)
    if not isinstance(body[-1], ast.Return) or U(body[-1].value) != "y":
        raise Bad("_interp_extrapolate does not return y")
    return Tr(xpfp=True).block(body)


def get_volume_shape(src):
    f = find_fn(ast.parse(src), "get_volume", "Tank")
    body = strip_doc(f.body)
    if not isinstance(body[-1], ast.Return) or U(body[-1].value) != "vol":
        raise Bad("get_volume does not return vol")
    return Tr().block(body)


EVAL_HEAD = [
    "self._backtrack = 0",
    "cur_value = getattr(self._source_obj, self._source_attr)",
    "thresh_value = self._threshold",
    "relation = self._relation",
    "if relation is Comparison.gt:\n    relation = Comparison.ge",
    "if relation is Comparison.lt:\n    relation = Comparison.le",
    "if np.isnan(self._threshold):\n    relation = np.greater\n    thresh_value = 0.0",
    "state = relation(np.round(cur_value, 10), np.round(thresh_value, 10))",
]


def evaluate_shape(src):
    """TankLevelCondition.evaluate: the frame (reset of _backtrack, relation folding, rounded comparison, crossing test through
    _last_value, demand guard, `_last_value = cur_value`, `return bool(state)`) is checked LITERALLY; the backtrack computation under the
    demand guard is translated into tokens"""
    f = find_fn(ast.parse(src), "evaluate", "TankLevelCondition")
    body = strip_doc(f.body)
    got = [U(s) for s in body[:len(EVAL_HEAD)]]
    if got != EVAL_HEAD:
        bad = [g for g, w in zip(got, EVAL_HEAD) if g != w]
        raise Bad("TankLevelCondition.evaluate: frame changed: %s" % (bad[:1] or got[-1:]))
    rest = body[len(EVAL_HEAD):]
    if len(rest) != 3 or U(rest[1]) != "self._last_value = cur_value" or U(rest[2]) != "return bool(state)":
        raise Bad("TankLevelCondition.evaluate: tail is not `if crossing: ...; self._last_value = cur_value; return bool(state)`")
    cr = rest[0]
    if not isinstance(cr, ast.If) or cr.orelse or U(cr.test) != "state and (not relation(np.round(self._last_value, 10), np.round(thresh_value, 10)))":
        raise Bad("TankLevelCondition.evaluate: crossing test changed: %s" % U(cr.test) if isinstance(cr, ast.If) else "no if")
    if len(cr.body) != 1 or not isinstance(cr.body[0], ast.If) or cr.body[0].orelse or \
            U(cr.body[0].test) != "self._source_obj.demand != 0 and (not self._source_obj.demand is None)":
        raise Bad("TankLevelCondition.evaluate: demand guard changed")
    return Tr().block(cr.body[0].body)


def postsolve_shape(src):
    f = find_fn(ast.parse(src), "_run_postsolve_controls", "WNTRSimulator")
    toks = []
    for s in strip_doc(f.body):
        t = U(s)
        if t.startswith("logger.") or (isinstance(s, ast.If) and "logger" in U(s.test)):
            continue
        if t == "self._change_tracker.set_reference_point('postsolve')":
            toks.append(".setReference")
        elif t == "self._change_tracker.remove_reference_point('postsolve')":
            toks.append(".removeReference")
        elif t == "postsolve_controls_to_run = self._postsolve_controls.check()":
            toks.append(".check")
        elif t == "postsolve_controls_to_run.sort(key=lambda i: i[0]._priority)":
            toks.append(".sortPriority false")
        elif t == "postsolve_controls_to_run.sort(key=lambda i: i[0]._priority, reverse=True)":
            toks.append(".sortPriority true")
        elif isinstance(s, ast.For) and U(s.iter) == "postsolve_controls_to_run":
            calls = [U(x) for x in s.body if not (isinstance(x, ast.If) and "logger" in U(x.test))]
            if calls != ["control.run_control_action()"]:
                raise Bad("loop over postsolve_controls_to_run does something else: %s" % calls)
            toks.append(".runEach")
        else:
            raise Bad("_run_postsolve_controls: statement not understood: " + t[:80])
    return "[%s]" % ", ".join(toks)


def companion_loop(src, fname, attr, kind_cls, status_name):
    """the first loop of _get_pump_controls / _get_valve_controls -> CompLoop tokens"""
    f = find_fn(ast.parse(src), fname, "WNTRSimulator")
    body = strip_doc(f.body)
    loops = [s for s in body if isinstance(s, ast.For)]
    if not loops or U(loops[0].iter) != "self._wn.controls()":
        raise Bad("%s: first loop is not over self._wn.controls()" % fname)
    pre = body[:body.index(loops[0])]
    extra_state = [U(s) for s in pre if not (isinstance(s, ast.Assign) and isinstance(s.value, ast.List) and not s.value.elts)]
    lp = loops[0]
    if len(lp.body) != 1 or not isinstance(lp.body[0], ast.For) or U(lp.body[0].iter) != "control.actions()":
        raise Bad("%s: no `for action in control.actions()`" % fname)
    inner = lp.body[0].body
    if len(inner) != 2 or U(inner[0]) != "target_obj, target_attr = action.target()" or not isinstance(inner[1], ast.If) or inner[1].orelse:
        raise Bad("%s: inner loop is not `target = action.target(); if target_attr == ...`" % fname)
    test = U(inner[1].test)
    if test != "target_attr == '%s'" % attr:
        raise Bad("%s: tests %s" % (fname, test))
    blk = inner[1].body
    text = "\n".join(U(x) for x in blk)
    dedup = bool(extra_state) or any(isinstance(n, (ast.Continue, ast.Break)) for x in blk for n in ast.walk(x)) or \
        any(isinstance(n, ast.Compare) and any(isinstance(o, (ast.In, ast.NotIn)) for o in n.ops) for x in blk for n in ast.walk(x))
    if "isinstance(target_obj, %s)" % kind_cls not in text:
        raise Bad("%s: no isinstance(target_obj, %s) guard" % (fname, kind_cls))
    if "new_status = LinkStatus.%s" % status_name not in text or "new_action = ControlAction(target_obj, 'status', new_status)" not in text:
        raise Bad("%s: companion does not command status %s" % (fname, status_name))
    news = [n for x in blk for n in ast.walk(x) if isinstance(n, ast.Call) and U(n.func) == "type(control)"]
    if len(news) != 1 or not any(".append(new_control)" in U(x) for x in blk):
        raise Bad("%s: companion is not built by one type(control)(...) and appended" % fname)
    call = news[0]
    cond_ok = len(call.args) >= 1 and (U(call.args[0]) == "control.condition" or (U(call.args[0]) == "condition" and "condition = control.condition" in text))
    prio_ok = any(k.arg == "priority" and U(k.value) == "control.priority" for k in call.keywords)
    return "{ attr := .%s, kind := .%s, status := %d, samePriority := %s, sameCondition := %s, perAction := %s }" % (
        {"setting": "setting", "base_speed": "baseSpeed"}[attr], {"Valve": "valve", "Pump": "pump"}[kind_cls],
        {"Active": 2, "Open": 1}[status_name], str(prio_ok).lower(), str(cond_ok).lower(), str(not dedup).lower())


def internal_writers(src):
    """(builder, link kind, guard) for every `_InternalControlAction(link, '_internal_status', ...)` in WNTRSimulator"""
    tree = ast.parse(src)
    cls = [n for n in ast.walk(tree) if isinstance(n, ast.ClassDef) and n.name == "WNTRSimulator"]
    if not cls:
        raise Bad("class WNTRSimulator not found")
    out = []
    total = 0
    for m in cls[0].body:
        if not isinstance(m, ast.FunctionDef):
            continue
        calls = [c for c in ast.walk(m) if isinstance(c, ast.Call) and U(c.func) == "_InternalControlAction"]
        if not calls:
            continue
        total += len(calls)
        for c in calls:
            if len(c.args) < 2 or U(c.args[1]) != "'_internal_status'":
                raise Bad("%s: _InternalControlAction on another attribute: %s" % (m.name, U(c)))
        text = U(m)
        if m.name == "_get_all_tank_controls":
            if "self._wn.get_links_for_node(tank_name, 'ALL')" not in text:
                raise Bad("_get_all_tank_controls no longer walks the links at the tank")
            out += [("_get_all_tank_controls", k, "tank") for k in ("pipe", "pump", "valve")]
        elif m.name == "_get_cv_controls":
            if "for pipe_name, pipe in self._wn.pipes()" not in text or "if pipe.check_valve" not in text:
                raise Bad("_get_cv_controls is not `for pipe in pipes(): if pipe.check_valve`")
            out.append(("_get_cv_controls", "pipe", "cv"))
        elif m.name == "_get_pump_controls":
            if "for pump_name, pump in self._wn.pumps()" not in text:
                raise Bad("_get_pump_controls does not loop over pumps()")
            out.append(("_get_pump_controls", "pump", "always"))
        elif m.name == "_get_valve_controls":
            if "for valve_name, valve in self._wn.valves()" not in text:
                raise Bad("_get_valve_controls does not loop over valves()")
            out.append(("_get_valve_controls", "valve", "valve-type"))
        else:
            raise Bad("unexpected builder of _internal_status controls: " + m.name)
    # no other writer of _internal_status in the simulator package
    import re

    for rel in ("wntr/sim/core.py", "wntr/sim/hydraulics.py"):
        s = open(os.path.join(REPO, rel)).read()
        for ln in s.splitlines():
            if re.search(r"\._internal_status\s*=[^=]", ln):
                raise Bad("%s assigns _internal_status directly: %s" % (rel, ln.strip()))
    return out


def generate():
    hyd = open(os.path.join(REPO, "wntr/sim/hydraulics.py")).read()
    el = open(os.path.join(REPO, "wntr/network/elements.py")).read()
    core = open(os.path.join(REPO, "wntr/sim/core.py")).read()
    ctl = open(os.path.join(REPO, "wntr/network/controls.py")).read()
    w = internal_writers(core)
    lines = [
        "-- GENERATED by harness/props/c06_translate.py from wntr/sim/hydraulics.py, wntr/network/elements.py, wntr/sim/core.py (Python ast). Do not edit.",
        "import WntrModel.Model.TankShape",
        "namespace Wntr.TankShape.Gen",
        "open Wntr.TankShape Wntr.Tank",
        "",
        "/-- `update_tank_heads`: `dt = ...` and the body of `for tank_name, tank in wn.tanks()` (`tank._head = ...` is `newHead`) -/",
        "def updateShape : S := " + update_shape(hyd),
        "",
        "/-- `_interp_extrapolate(x, xp, fp)` -/",
        "def interpExtrapShape : S := " + interp_extrap_shape(el),
        "",
        "/-- `Tank.get_volume(level)` (the `if level is None: level = self.level` defaulting dropped) -/",
        "def getVolumeShape : S := " + get_volume_shape(el),
        "",
        "/-- `TankLevelCondition.evaluate`: the backtrack computation under the demand guard (the frame around it is checked literally) -/",
        "def backtrackShape : S := " + evaluate_shape(ctl),
        "",
        "/-- `WNTRSimulator._run_postsolve_controls` (logging dropped) -/",
        "def postsolveShape : List PTok := " + postsolve_shape(core),
        "",
        "/-- the companion loops of `_get_valve_controls` / `_get_pump_controls` -/",
        "def valveCompLoop : CompLoop := " + companion_loop(core, "_get_valve_controls", "setting", "Valve", "Active"),
        "def pumpCompLoop : CompLoop := " + companion_loop(core, "_get_pump_controls", "base_speed", "Pump", "Open"),
        "",
        "/-- every builder of an `_InternalControlAction(link, '_internal_status', ...)`: builder, link kind, guard -/",
        "def internalWriters : List Writer := [" + ", ".join('⟨"%s", .%s, "%s"⟩' % x for x in w) + "]",
        "",
        "end Wntr.TankShape.Gen",
    ]
    return "\n".join(lines) + "\n", w


if __name__ == "__main__":
    print(generate()[0])
