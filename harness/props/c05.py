"""C05 -- reported states are consistent with every conditional simple control; tank-level thresholds are met by a
partial time step.

Model: lean/WntrModel/Model/Controls.lean (post-solve pass, presolve pass without rules, change tracker) and Model/Tank.lean
(TankLevelCondition.evaluate incl. _last_value/_backtrack, ValueCondition.evaluate, the status property).
Theorems: lean/WntrModel/Props/C05.lean.
Tie (C): every observed TankLevelCondition.evaluate / ValueCondition.evaluate call, every presolve pass (due list as
ControlChecker.check returned it -> link attributes + accepted sim_time) and every post-solve pass (due list -> link
attributes) of instrumented WNTRSimulator runs is diffed against the Lean functions; plus seeded direct calls of the conditions.
Oracles on the REAL reported steps (report_timestep='ALL' and a coarser grid), evaluated by the Lean driver:
controlsConsistent (`step` lines) and thresholdNotOvershot (`thr` lines).
"""
import json
import math
import os
import sys

sys.path.insert(0, os.path.dirname(os.path.dirname(os.path.abspath(__file__))))
sys.path.insert(0, os.path.dirname(os.path.abspath(__file__)))
import vlib
from vlib import Broken, Failure, Check
import c05c06_common as K
from c06 import tentative_outside_curve

F = vlib.frac_str
SECS = 1.0 + 1e-6  # one second of flow; the float floor may be one unit off when the quotient is within rounding of an integer
ATOL = 1e-9
AMBIG = 1e-9  # a reported value this close to the threshold is not judged (the code compares np.round(.,10))


class C05(Check):
    pid = "C05"
    level = "proof"
    prop_modules = ["WntrModel.Props.C05", "WntrModel.Lemmas.TankShape"]
    extra_targets = ["WntrModel.Model.Controls"]
    manifest = dict(
        category="proof",
        text="Lean theorems over a line-by-line model of the post-solve control pass (check, stable priority sort, actions, change "
        "tracker), the presolve pass for models without rules (backtrack order, groups, sim_time -= backtrack), "
        "TankLevelCondition.evaluate (_last_value, _backtrack) and the status property: for arbitrary control lists a reported step shows "
        "every triggered simple control's commanded value unless a triggered control of >= priority on the same target commands "
        "otherwise; commanded Closed is reported Closed, commanded Open is reported Open unless _internal_status is Closed; a crossing "
        "level condition shortens the step to within one second of flow of the threshold with the action applied before that solve; "
        "two thresholds crossed in one tentative step are served in time order, each with its own partial step (the _last_value "
        "concern of the design does not materialise because level conditions are re-evaluated post-solve). Tie: every observed "
        "condition evaluation, presolve pass and post-solve pass of instrumented runs is diffed against the model; the oracles "
        "controlsConsistent / thresholdNotOvershot are evaluated by the Lean driver on the real reported steps.",
        design_ref="DESIGN.md §5 C05, §4 M5/M7",
        note="modelled, not verified: the hydraulic solve (conditions are evaluated on whatever the real solver produced), IEEE rounding; "
        "rules are out of scope (simple controls only; rule interleaving is C04's Sched model); which of CV / pump shut-off / tank limit "
        "holds a commanded-open link closed is accepted from the link's type and the adjacent tank levels, not re-derived A threshold crossed in the first step of a paused-and-continued run (same simulator, duration raised) must still be met by a partial step and take effect in that row (simulation oracle, keys threshold-*-after-pause; the Lean model covers one run_sim call).",
        technique="Lean 4 proof over hand-written model + ast translator (Gen/TankShape.lean: update_tank_heads, _interp_extrapolate, Tank.get_volume, backtrack block of TankLevelCondition.evaluate, _run_postsolve_controls, _internal_status writers; Lemmas/TankShape.lean: the interpreted skeletons ARE the model) + differential run (in-process wrapping) + Lean-evaluated oracles on real results",
    )
    rule = (
        "obligations: theorems of Props/C05.lean. correspondence cases: observed condition evaluations (deduplicated, capped), every "
        "observed presolve / post-solve pass (capped), seeded direct condition calls; oracle cases: (network, reported step) for "
        "controlsConsistent and (network, control, crossing) for thresholdNotOvershot"
    )
    trusted_base = [
        "harness/props/c05c06_common.py (in-process wrappers report the inputs/outputs they observe)",
        "IEEE-754 arithmetic is not modelled: doubles are sent as exact rationals; np.round(x,10) is modelled as exact round-half-even",
    ]
    assumptions = [
        "runs that converge (rows saved before a non-converged step / exceeded trials are judged)",
        "models without rules: only simple controls (IF node/tank condition THEN one link action) are generated",
        "a commanded-open link reported closed is excused when it has a check valve, is a pump, or touches a tank within Htol of a limit",
    ]

    def translate(self, ctx):
        """Gen/TankShape.lean (post-solve pass skeleton, _internal_status writer table, tank arithmetic) from the Python ast"""
        import c06_translate

        try:
            text, writers = c06_translate.generate()
        except c06_translate.Bad as e:
            raise vlib.BrokenTie("c06_translate: %s" % e)
        self.writers = writers
        ctx.cov["translated"] = ["_run_postsolve_controls", "_internal_status writers (%d)" % len(writers), "update_tank_heads", "Tank.get_volume"]
        vlib.write_if_changed(os.path.join(vlib.GEN, "TankShape.lean"), text)

    # ------------------------------------------------------------------ function level
    def _function_level(self, ctx, B, failures, broken):
        wntr = vlib.import_wntr()
        from wntr.network.controls import ValueCondition

        rng = ctx.rng
        K.probe_mode()
        for name, detail in K.PROBE_BROKEN:
            broken.append(Broken("correspondence", name, detail))
        for k in range(6 if ctx.quick else 30):
            p = K.synthetic_tank(rng)
            wn, tank = K.make_real_tank(wntr, p)
            p = K.tank_params(tank)
            tid = B.new_tank(p)
            for c in K.synthetic_lvl_cases(rng, p, 20 if ctx.quick else 60):
                rec, err = K.safe_call(K.real_lvl, wntr, tank, c)
                if err:
                    ctx.count("direct-call-exception")
                    if not any(b.name == "TankLevelCondition.evaluate (direct call)" for b in broken):
                        broken.append(Broken("correspondence", "TankLevelCondition.evaluate (direct call)", "%s on %s tank=%s" % (err, c, p)))
                    continue
                ctx.case(("lvl", bool(p["curve"]), c["kind"], c["attr"], c["rel"], c["thr"], c["head"]))
                ctx.count("lvl-direct:" + c["kind"])

                def cb(ans, rec=rec, p=p):
                    m = K.check_lvl_answer(rec, p, ans)
                    if m:
                        broken.append(Broken("correspondence", "TankLevelCondition.evaluate vs Tank.evalLevel",
                                             "direct call %s tank=%s: %s" % ({k: rec[k] for k in ("attr", "rel", "thr", "head", "demand", "last")}, p, m)))

                B.ask(K.lvl_line(tid, rec), cb)
        wn = wntr.network.WaterNetworkModel()
        wn.add_junction("J", base_demand=0.0, elevation=3.0)
        j = wn.get_node("J")
        for _ in range(120 if ctx.quick else 600):
            rel = rng.choice(["gt", "ge", "lt", "le", "eq", "ne"])
            thr = round(rng.uniform(-5, 60), rng.choice([1, 2, 6]))
            cur = rng.choice([thr, thr + 4e-11, thr - 4e-11, thr + 1e-9, thr - 1e-9, rng.uniform(-5, 60), thr + rng.uniform(-1, 1)])
            attr = rng.choice(["pressure", "head"])
            setattr(j, "_" + attr, cur)
            st = bool(ValueCondition(j, attr, K.REL_NAMES[rel], thr).evaluate())
            ctx.case(("val", rel, thr, cur))
            ctx.count("val-direct:" + rel)

            def cb2(ans, rel=rel, thr=thr, cur=cur, st=st):
                if (ans == "T") != st and not (K.near_half(cur) or K.near_half(thr)):
                    broken.append(Broken("correspondence", "ValueCondition.evaluate vs Tank.evalValue", "%s cur=%r thr=%r impl %s model %s" % (rel, cur, thr, st, ans)))

            B.ask("val %s %s %s" % (rel, F(cur), F(thr)), cb2)

    # ------------------------------------------------------------------ one network
    def _network(self, ctx, B, spec, label, failures, broken, expect_judged=None, grid=False):
        tr = K.run_instrumented(spec, keep_wn=True)
        if spec.get("rerun"):
            ctx.count("rerun:" + ("fresh" if spec["rerun"].get("fresh") else "same-simulator") + (":control-edits" if spec["rerun"].get("ctl_edits") else ""))
        spec_run = spec
        spec = K.effective_spec(spec)  # the controls as the judged (second) run has them
        sig = K.spec_sig(spec)
        hyd = spec["options"]["hyd"]
        if tr.exception:
            ctx.count("run-exception:" + tr.exception.split(":")[0])
            if not tr.exception.startswith("NotImplementedError"):
                failures.append(Failure("run-exception-" + tr.exception.split(":")[0], "WNTRSimulator raised %s (%s)" % (tr.exception, label),
                                        {"spec": spec.get("_orig", spec), "observed": tr.exception}))
            return tr
        ctx.count("run:" + ("error_code" if tr.error else "ok"))
        wn = tr.wn
        tids = {n: B.new_tank(tr.tanks[n]) for n in tr.tank_names}
        cap = 120 if ctx.quick else 500
        # --- observed condition evaluations
        seen = set()
        for r in tr.lvl:
            key = (r["tank"], r["attr"], r["rel"], r["thr"], r["head"], r["demand"], r["last"])
            if key in seen or len(seen) >= cap:
                continue
            seen.add(key)
            ctx.count("lvl-observed" + (":backtrack" if r["back"] else ""))

            def cb(ans, r=r):
                m = K.check_lvl_answer(r, tr.tanks[r["tank"]], ans)
                if m:
                    broken.append(Broken("correspondence", "TankLevelCondition.evaluate vs Tank.evalLevel", "%s: observed %s: %s" % (label, r, m)))

            B.ask(K.lvl_line(tids[r["tank"]], r), cb)
        seen = set()
        for r in tr.val:
            key = (r["rel"], r["cur"], r["thr"])
            if key in seen or len(seen) >= cap:
                continue
            seen.add(key)
            ctx.count("val-observed")

            def cb2(ans, r=r):
                if (ans == "T") != r["state"] and not (K.near_half(r["cur"]) or K.near_half(r["thr"])):
                    broken.append(Broken("correspondence", "ValueCondition.evaluate vs Tank.evalValue", "%s: observed %s model %s" % (label, r, ans)))

            B.ask("val %s %s %s" % (r["rel"], F(r["cur"]), F(r["thr"])), cb2)
        # --- the status property: every (kind, _user_status, _internal_status) -> status seen at a reported step
        seen = set()
        for r in tr.rows:
            for i, ln in enumerate(tr.links):
                key = (tr.kinds[i], r["priv"][i][0], r["priv"][i][1], r["links"][ln][0])
                if key in seen:
                    continue
                seen.add(key)
                ctx.count("status-observed:%s" % tr.kinds[i])

                def cb_s(ans, key=key):
                    if float(K.parse_rat(ans)) != key[3]:
                        broken.append(Broken("correspondence", "Link.status vs Tank.status", "%s: kind=%s _user_status=%s _internal_status=%s: impl %s model %s" % ((label,) + key + (ans,))))

                B.ask("stat %s %s %s" % (key[0], F(key[1]), F(key[2])), cb_s)
        # --- registration order of the control managers vs `Controls.simulatorControls`
        od = getattr(tr, "order", None)
        if od and "error" not in od and od["user_link_only"] and len(spec["controls"]) == len([1 for _ in wn.controls()]):
            toks = []
            for k, c in enumerate(spec["controls"]):
                li = tr.links.index(c["link"])
                a = c.get("act", "status")
                v = (1.0 if c["value"] == "OPEN" else 0.0) if a == "status" else float(c["value"])
                toks.append("%d %d %d %s %s %s" % (k, c["prio"], li, tr.kinds[li], {"status": "status", "setting": "setting", "base_speed": "speed"}[a], F(v)))
            ctx.case(("order", sig))
            ctx.count("registration-order")

            def cb_o(ans, od=od):
                model = [int(x) for x in ans.split()]
                for which in ("pre", "post"):
                    real = od[which]
                    want = [i for i in model if i in set(real)]
                    if real != want:
                        broken.append(Broken("correspondence", "_get_control_managers registration order vs Controls.simulatorControls",
                                             "%s %ssolve manager:\n impl  %s\n model %s  (user k, tank 10000+, cv 20000+, pump companion 1000+k, pump internal 30000+, "
                                             "valve companion 2000+k, valve internal 40000+)" % (label, which, real, want)))
                        break

            B.ask("order 1000 %d %s %d %d %d %d" % ((len(spec["controls"]), " ".join(toks)) + tuple(od["counts"])), cb_o)
        # --- companions of setting / base_speed controls (_get_pump_controls / _get_valve_controls)
        allc = spec["controls"]
        if any(c.get("act", "status") != "status" for c in allc):
            toks = []
            for k, c in enumerate(allc):
                li = tr.links.index(c["link"])
                a = c.get("act", "status")
                v = (1.0 if c["value"] == "OPEN" else 0.0) if a == "status" else float(c["value"])
                toks.append("%d %d %d %s %s %s" % (k, c["prio"], li, tr.kinds[li], {"status": "status", "setting": "setting", "base_speed": "speed"}[a], F(v)))
            exp = " | ".join("%s %s" % (w, " ; ".join("%d,%s,%s,%d" % (tr.links.index(x["link"]), x["field"], F(x["value"]), x["prio"]) for x in tr.companions[w])) for w in ("P", "V"))
            odd = [x for w in ("P", "V") for x in tr.companions[w] if not x["shares_condition"] or x["ctype"] != x["src_ctype"]]
            ctx.case(("companions", sig))
            ctx.count("companions", sum(len(tr.companions[w]) for w in ("P", "V")))

            def cb_c(ans, exp=exp, odd=odd):
                norm = lambda t: " ".join(t.split())
                if norm(ans) != norm(exp) or odd:
                    broken.append(Broken("correspondence", "_get_pump_controls/_get_valve_controls companions vs Controls.companionsOf",
                                         "%s:\n impl  %s\n model %s\n odd %s" % (label, exp, ans, odd[:2])))

            B.ask("comp 1000 %d %s" % (len(allc), " ".join(toks)), cb_c)
        # --- passes
        B.ask("track %d %s" % (len(tr.tracked), " ".join("%d %s" % t for t in tr.tracked)))

        def observable(fields):
            out = []
            for (i, w) in tr.tracked:
                u, it, s, sp = fields[i]
                if w == "V":
                    out.append(s)
                elif w == "P":
                    out.append(sp)
                elif tr.kinds[i] == "valve":
                    out.append(0.0 if u == 0.0 else (1.0 if u == 1.0 else it))
                else:
                    out.append(0.0 if it == 0.0 else u)
            return out

        npass = 0
        for p in tr.post:
            if not p["usable"] or npass >= cap:
                continue
            npass += 1
            ctx.case(("post", sig, p["t"], len(p["due"])))
            ctx.count("post-pass" + (":conflict" if len({(d[2], d[3]) for d in p["due"]}) < len(p["due"]) else ""))
            B.ask(K.links_line(tr.kinds, p["before"]))

            def cb3(ans, p=p):
                ch, rest = ans.split(" | ")
                got = K.parse_links(rest)
                want_ch = observable(p["before"]) != observable(p["after"])
                if got != [tuple(x) for x in p["after"]] or (ch == "1") != want_ch:
                    broken.append(Broken("correspondence", "_run_postsolve_controls vs Controls.runPass",
                                         "%s t=%s due=%s\n impl  %s changed=%s\n model %s changed=%s" % (label, p["t"], p["due"], p["after"], want_ch, got, ch)))

            B.ask("post %d %s" % (len(p["due"]), " ".join("%d %d %d %s %s" % (d[0], d[1], d[2], d[3], F(d[4])) for d in p["due"])), cb3)
        npass = 0
        for p in tr.pre:
            if not p.get("usable_rules") or npass >= cap:
                continue
            npass += 1
            ctx.case(("prer", sig, p["t0"], len(p["due"]), len(p["rules"])))
            ctx.count("pre-pass-with-rules" + (":rule-decided" if p["t1"] != p["t0"] and all(int(p["t0"]) - d[5] != int(p["t1"]) for d in p["due"]) else "")
                      + (":rules-fired" if any(a for _, a in p["rules"]) else ""))
            B.ask(K.links_line(tr.kinds, p["before"]))

            def cb5(ans, p=p):
                head, rest = ans.split(" | ")
                t1, ri1, ch = head.split()
                got = K.parse_links(rest)
                if got != [tuple(x) for x in p["after"]] or int(t1) != int(p["t1"]) or int(ri1) != p["ri1"]:
                    broken.append(Broken("correspondence", "presolve pass with rules vs Controls.presolveRules",
                                         "%s t0=%s rule_iter=%s due=%s rules=%s\n impl  t1=%s rule_iter=%s %s\n model t1=%s rule_iter=%s %s"
                                         % (label, p["t0"], p["ri0"], p["due"], p["rules"], p["t1"], p["ri1"], p["after"], t1, ri1, got)))

            B.ask("prer %d %d %d %d %d %s R %d %s" % (
                1 if p["first"] else 0, int(p["t0"]), p["rule_step"], p["ri0"], len(p["due"]),
                " ".join("%d %d %d %s %s %d" % (d[0], d[1], d[2], d[3], F(d[4]), d[5]) for d in p["due"]), len(p["rules"]),
                " ".join("%d %d %s" % (tt, len(acts), " ".join("%d %d %s %s" % (a[0], a[1], a[2], F(a[3])) for a in acts)) for tt, acts in p["rules"])), cb5)
        npass = 0
        for p in tr.pre:
            if not p["usable"] or npass >= cap:
                continue
            npass += 1
            ctx.case(("pre", sig, p["t0"], len(p["due"])))
            ctx.count("pre-pass" + (":backtracked" if p["t1"] != p["t0"] else "") + (":first" if p["first"] else ""))
            B.ask(K.links_line(tr.kinds, p["before"]))

            def cb4(ans, p=p):
                head, rest = ans.split(" | ")
                t1, ch = head.split()
                got = K.parse_links(rest)
                if got != [tuple(x) for x in p["after"]] or int(t1) != int(p["t1"]):
                    broken.append(Broken("correspondence", "presolve pass vs Controls.presolve",
                                         "%s t0=%s due=%s\n impl  t1=%s %s\n model t1=%s %s" % (label, p["t0"], p["due"], p["t1"], p["after"], t1, got)))

            B.ask("pre %d %d %d %s" % (1 if p["first"] else 0, int(p["t0"]), len(p["due"]),
                                      " ".join("%d %d %d %s %s %d" % (d[0], d[1], d[2], d[3], F(d[4]), d[5]) for d in p["due"])), cb4)
        # --- structural facts of run_sim the theorems rely on: a step is reported only after a post-solve pass that changed
        #     nothing the tracker watches, and what is saved is the state that pass was evaluated on / left behind
        last = {}
        for p in tr.post:
            last[p["t"]] = p
        for r in tr.rows:
            p = last.get(r["t"])
            ctx.count("reported-after-quiet-pass")
            if p is None or [tuple(x) for x in p["after"]] != [tuple(x) for x in r["priv"]] or observable(p["before"]) != observable(p["after"]):
                broken.append(Broken("correspondence", "run_sim reports the fixpoint of the post-solve pass",
                                     "%s t=%s: last post-solve pass %s, saved private state %s" % (label, r["t"], None if p is None else (p["before"], p["after"]), r["priv"])))
                break
        # --- oracles on reported steps
        self._oracles(ctx, B, spec, tr, tr.rows, tids, label, failures, expect_judged)
        if grid and tr.rows and not tr.error:
            tr2 = K.run_instrumented(spec_run, report=2 * hyd, keep_wn=True)
            if not tr2.exception:
                ctx.count("grid-rerun")
                self._oracles(ctx, B, spec, tr2, tr2.rows, tids, label + "/report=%d" % (2 * hyd), failures, None, thresholds=False)
        return tr

    def _oracles(self, ctx, B, spec, tr, rows, tids, label, failures, expect_judged, thresholds=True):
        wn = tr.wn
        hyd = spec["options"]["hyd"]
        ctl = K.cond_controls(spec)
        if not rows or not ctl:
            return
        tankset = set(tr.tank_names)
        cvpump = []
        adj = []
        for i, ln in enumerate(tr.links):
            l = wn.get_link(ln)
            # who may hold a commanded-open link closed is read off the translated table of `_internal_status` writers
            # (Gen.internalWriters; theorem internal_writers_of_pipe): builder guard "always" / "cv" (the link's own check valve) /
            # "tank" (a tank at one of its ends, judged at a level limit by the driver)
            wr = getattr(self, "writers", None) or [("_get_all_tank_controls", k, "tank") for k in ("pipe", "pump", "valve")] + [("_get_cv_controls", "pipe", "cv"), ("_get_pump_controls", "pump", "always")]
            own = any(k == tr.kinds[i] and (g == "always" or (g == "cv" and getattr(l, "check_valve", False))) for _, k, g in wr)
            cvpump.append(1 if own and tr.kinds[i] != "valve" else 0)
            by_tank = any(k == tr.kinds[i] and g == "tank" for _, k, g in wr)
            adj.append([tids[n] for n in (l.start_node_name, l.end_node_name) if n in tankset] if by_tank else [])
        band = tr.htol + 1e-9
        # the statement speaks about the REPORTED state: conditions and link states are read off the result tables
        # (results.node['pressure'|'head'], results.link['status'|'setting']; tank level = reported pressure)
        res = tr.results
        use_tables = res is not None and len(res.node["head"].index) == len(rows)
        if use_tables:
            ctx.count("oracle-on-result-tables")
        FOLD = {"gt": "ge", "lt": "le"}
        for ri, r in enumerate(rows):
            toks = ["step", F(band), "T", str(len(tr.tank_names))]
            for n in tr.tank_names:
                toks += [str(tids[n]), F(r["tanks"][n][0])]
            toks += ["L", str(len(tr.links))]
            for i, ln in enumerate(tr.links):
                st, se = r["links"][ln]
                if use_tables:
                    st = float(res.link["status"][ln].iloc[ri])
                    if tr.kinds[i] == "valve":
                        se = float(res.link["setting"][ln].iloc[ri])
                toks += [F(st), F(se), str(cvpump[i]), str(len(adj[i]))] + [str(a) for a in adj[i]]
            ctoks = []
            ambiguous = set()
            nc = 0
            for k, c in enumerate(ctl):
                li = tr.links.index(c["link"])
                act = c.get("act", "status")
                if use_tables:
                    table = "head" if c["attr"] == "head" else "pressure"
                    cur = float(res.node[table][c["src"]].iloc[ri])
                    # a tank condition compares with gt/lt folded into ge/le (TankLevelCondition)
                    ctok = ["V", FOLD.get(c["rel"], c["rel"]) if c["src"] in tankset else c["rel"], F(c["thr"]), F(cur)]
                elif c["src"] in tankset:
                    ctok = ["L", str(tids[c["src"]]), c["attr"], c["rel"], F(c["thr"])]
                    h = r["tanks"][c["src"]][0]
                    cur = h if c["attr"] == "head" else h - tr.tanks[c["src"]]["elev"]
                else:
                    cur = r["junc"][c["src"]][0 if c["attr"] == "head" else 1]
                    ctok = ["V", c["rel"], F(c["thr"]), F(cur)]
                if abs(cur - c["thr"]) <= AMBIG * max(1.0, abs(c["thr"])):
                    ambiguous.add(k)
                    ambiguous.add(1000 + k)
                if act == "status":
                    ctoks += [str(k), str(c["prio"]), str(li), "S", F(1.0 if c["value"] == "OPEN" else 0.0)] + ctok
                    nc += 1
                elif act == "setting":
                    ctoks += [str(k), str(c["prio"]), str(li), "V", F(float(c["value"]))] + ctok
                    nc += 1
                if act in ("setting", "base_speed"):
                    # the companion the simulator adds: same condition, same priority, status := Active (valve) / Open (pump)
                    ctoks += [str(1000 + k), str(c["prio"]), str(li), "S", F(2.0 if act == "setting" else 1.0)] + ctok
                    nc += 1
            toks += ["C", str(nc)] + ctoks
            ctx.case(("step", label, r["t"]))

            def cb(ans, r=r, ambiguous=ambiguous):
                for tok in ans.split():
                    k, v = tok.split(":")
                    k = int(k)
                    if k >= 1000:
                        # a companion (`status := Active` of a setting control / `Open` of a base_speed control): it counts as a
                        # conflicting control for the others; its own command is judged only as "not reported CLOSED" (a valve
                        # that is Active reports its _internal_status, which is Open or Active, never Closed, away from a tank limit)
                        ctx.count("verdict:companion:%s" % v)
                        c = ctl[k - 1000]
                        rep = float(res.link["status"][c["link"]].iloc[ri]) if use_tables else r["links"][c["link"]][0]
                        if v == "bad" and rep == 0.0 and (k - 1000) not in ambiguous:
                            failures.append(Failure(
                                "setting-control-not-reactivated",
                                "%s t=%s: control %s (IF %s %s %s %s THEN %s %s %s, priority %d) holds on the reported state: its companion puts the link back in "
                                "service, but %s is reported CLOSED and no triggered control of >= priority closes it"
                                % (label, r["t"], c["name"], c["src"], c["attr"], c["rel"], c["thr"], c["link"], c.get("act"), c["value"], c["prio"], c["link"]),
                                {"spec": spec.get("_orig", spec), "oracle": "controlsConsistent(companion)", "time": r["t"], "control": c, "private": r["priv"][tr.links.index(c["link"])]}))
                        continue
                    c = ctl[k]
                    kind = ("level" if c["src"] in tankset else "pressure") + ("" if c.get("act", "status") == "status" else "-setting")
                    if k in ambiguous:
                        ctx.count("verdict:ambiguous")
                        continue
                    ctx.count("verdict:%s:%s" % (kind, v))
                    if v == "bad":
                        li = tr.links.index(c["link"])
                        failures.append(Failure(
                            "control-inconsistent-%s-%s" % (kind, str(c["value"]).lower() if c.get("act", "status") == "status" else "value"),
                            "%s t=%s: control %s (IF %s %s %s %s THEN %s %s, priority %d) holds on the reported state but %s is reported %s "
                            "(kind %s, no check valve / pump / tank at a limit / conflicting control of >= priority explains it)"
                            % (label, r["t"], c["name"], c["src"], c["attr"], c["rel"], c["thr"], c["link"], c["value"], c["prio"], c["link"],
                               {0.0: "CLOSED", 1.0: "OPEN", 2.0: "ACTIVE"}.get(r["links"][c["link"]][0]), tr.kinds[li]),
                            {"spec": spec.get("_orig", spec), "oracle": "controlsConsistent", "time": r["t"], "control": c, "reported": r["links"][c["link"]],
                             "tanks": r["tanks"], "private": r["priv"][li]}))

            B.ask(" ".join(toks), cb)
        if not thresholds:
            return
        # thresholdNotOvershot
        for n in tr.tank_names:
            rr = [(r["t"], r["tanks"][n][0], r["tanks"][n][1]) for r in rows]
            B.ask("rows %d %d %s" % (tids[n], len(rr), " ".join("%s %s %s" % (F(t), F(h), F(q)) for t, h, q in rr)))
        judged = {}
        for k, c in enumerate(ctl):
            act = c.get("act", "status")
            if c["src"] not in tankset or act not in ("status", "setting"):
                continue
            val = (1.0 if c["value"] == "OPEN" else 0.0) if act == "status" else float(c["value"])
            p = tr.tanks[c["src"]]
            for i in range(len(rows) - 1):
                a, b = rows[i], rows[i + 1]
                li = tr.links.index(c["link"])
                if act == "setting":
                    # the write changes the valve's `setting` (a tracked target): a partial step is due when it took effect
                    if a["priv"][li][2] == val or b["links"][c["link"]][1] != val:
                        continue
                else:
                    u, it = a["priv"][li][:2]

                    def status(user, internal, kind=tr.kinds[li]):
                        if kind == "valve":
                            return user if user in (0.0, 1.0) else internal
                        return 0.0 if internal == 0.0 else user

                    # a partial step is due to this control only if its action (write `val` into _user_status on the state the
                    # presolve pass starts from = the previous reported state) changes the link's status, and it took effect
                    if status(val, it) == status(u, it) or b["links"][c["link"]][0] != val:
                        continue

                def cb2(ans, c=c, a=a, b=b, p=p, k=k):
                    if ans == "na":
                        return
                    judged[k] = judged.get(k, 0) + 1
                    ctx.count("threshold:" + ans + (":partial-step" if b["t"] % hyd != 0 else ""))
                    if ans == "bad":
                        ra = (a["t"],) + a["tanks"][c["src"]]
                        rb = (b["t"],) + b["tanks"][c["src"]]
                        clamp = tentative_outside_curve(p, hyd, ra, rb)
                        failures.append(Failure(
                            "threshold-overshot" + ("-volcurve-clamp" if clamp else ""),
                            "%s: control %s (IF %s %s %s %s) first holds at t=%s with level %.6f (previous step t=%s level %.6f, flow %.6g m3/s): "
                            "more than one second of flow past the threshold -- no partial step%s"
                            % (label, c["name"], c["src"], c["attr"], c["rel"], c["thr"], b["t"], rb[1] - p["elev"], a["t"], ra[1] - p["elev"], ra[2],
                               "; the tentative volume left the volume curve (interp clamps before the backtrack)" if clamp else ""),
                            {"spec": spec.get("_orig", spec), "oracle": "thresholdNotOvershot", "control": c, "pair": [ra, rb], "tank_params": p}))

                B.ask("thr %d %s %s %s %s %s %d" % (tids[c["src"]], c["attr"], c["rel"], F(c["thr"]), F(SECS), F(ATOL * (1 + abs(rows[i]["tanks"][c["src"]][1]))), i), cb2)
        if expect_judged is not None:
            def final(ans):
                for k in expect_judged:
                    if judged.get(k, 0) == 0:
                        failures.append(Failure("designed-crossing-not-served",
                                                "%s: control %s never took effect at a step where its condition first holds" % (label, ctl[k]["name"]),
                                                {"spec": spec.get("_orig", spec), "control": ctl[k], "rows": [(r["t"], r["tanks"]) for r in rows]}))

            B.ask("val eq 0 0", final)

    # ------------------------------------------------------------------ run
    def _pause_continue_oracle(self, ctx, failures, n=None):
        """a run paused on the hydraulic grid and continued with the same simulator (duration raised, no reset): a tank-level
        threshold crossed in the FIRST step of the continued leg is still met by a partial step and the commanded link is closed in
        that very row.  The uninterrupted run of the same model tells where the crossing lies (only crossings between 15 % and 65 % of
        a step are used, so that a whole-step overshoot is unmistakable); the tolerance is a quarter of the level change of a whole
        step (the real partial step lands within about one second of inflow)."""
        import warnings as _w
        wntr = vlib.import_wntr()
        from wntr.network.controls import Control, ControlAction, ValueCondition
        from wntr.network.base import LinkStatus
        rng = ctx.rng
        n = n or (24 if ctx.quick else 150)

        def build(par):
            wn = wntr.network.WaterNetworkModel()
            wn.add_reservoir("R", base_head=par["head"])
            wn.add_junction("J", base_demand=0.0, elevation=0.0)
            wn.add_junction("A", base_demand=0.002, elevation=0.0)
            wn.add_junction("B", base_demand=0.002, elevation=0.0)
            wn.add_tank("T", elevation=10.0, init_level=par["init"], min_level=0.0, max_level=20.0, diameter=par["diam"])
            wn.add_pipe("PR", "R", "J", length=500, diameter=0.3, roughness=100)
            wn.add_pipe("PT", "J", "T", length=500, diameter=0.2, roughness=100)
            wn.add_pipe("PA", "J", "A", length=100, diameter=0.2, roughness=100)
            wn.add_pipe("PA2", "R", "A", length=2000, diameter=0.2, roughness=100)
            wn.add_pipe("PB", "J", "B", length=100, diameter=0.2, roughness=100)
            wn.add_pipe("PB2", "R", "B", length=2000, diameter=0.2, roughness=100)
            wn.options.time.hydraulic_timestep = par["hyd"]
            wn.options.time.report_timestep = "ALL"
            wn.options.time.duration = par["hyd"] * par["steps"]
            for lname, thr in par["thr"].items():
                c = Control(ValueCondition(wn.get_node("T"), "level", ">", thr), ControlAction(wn.get_link(lname), "status", LinkStatus.Closed))
                wn.add_control("close_" + lname, c)
            return wn

        def table(results):
            lev = results.node["pressure"]["T"]
            return [(int(t), float(lev[t]), float(results.node["demand"]["T"][t]), {l: int(results.link["status"][l][t]) for l in ("PA", "PB")}) for t in lev.index]

        for k in range(n):
            init = round(rng.uniform(1.5, 2.5), 3)
            t1 = round(init + rng.uniform(0.25, 0.9), 3)
            par = {"head": rng.choice([50.0, 60.0, 70.0]), "diam": rng.choice([4.0, 5.0, 6.0, 8.0]), "init": init, "hyd": rng.choice([60, 120, 300]), "steps": 14,
                   "thr": {"PA": t1, "PB": round(t1 + rng.uniform(0.4, 1.2), 3)}}
            area = 3.141592653589793 / 4 * par["diam"] ** 2
            with _w.catch_warnings():
                _w.simplefilter("ignore")
                try:
                    ref = table(wntr.sim.WNTRSimulator(build(par)).run_sim())
                except Exception:
                    ctx.count("pause-continue:reference-run-failed")
                    continue
            for lname, thr in par["thr"].items():
                hit = [r for r in ref if r[1] >= thr]
                if not hit or hit[0][0] == 0:
                    ctx.count("pause-continue:threshold-not-reached")
                    continue
                t0 = hit[0][0]
                tp = (t0 - 1) // par["hyd"] * par["hyd"]
                frac = (t0 - tp) / float(par["hyd"])
                if tp < par["hyd"] or not (0.15 <= frac <= 0.65) or any(r[0] == t0 for r in ref if r[0] % par["hyd"] == 0):
                    ctx.count("pause-continue:crossing-not-mid-step")
                    continue
                rate = abs(next(r[2] for r in ref if r[0] == tp)) / area
                tol = 0.25 * rate * par["hyd"] + 1e-6
                wn = build(par)
                wn.options.time.duration = tp
                with _w.catch_warnings():
                    _w.simplefilter("ignore")
                    try:
                        sim = wntr.sim.WNTRSimulator(wn)
                        sim.run_sim()
                        wn.options.time.duration = par["hyd"] * par["steps"]
                        leg2 = table(sim.run_sim())
                    except Exception:
                        ctx.count("pause-continue:continued-run-failed")   # judged by C10 / C16, not here
                        continue
                ctx.case(("pause-continue", k, lname), True)
                ctx.count("pause-continue:judged")
                hit2 = [r for r in leg2 if r[1] >= thr]
                rep = {"pause_continue": par, "control": "IF T level > %s THEN %s CLOSED" % (thr, lname), "paused_at": tp, "uninterrupted_crossing_at": t0,
                       "continued_rows": [(r[0], round(r[1], 6), r[3][lname]) for r in leg2[:8]]}
                if not hit2:
                    continue
                over = hit2[0][1] - thr
                if over > tol:
                    failures.append(Failure("threshold-overshot-after-pause",
                                            "tank-level control `%s` (hydraulic step %d): run paused at %d and continued; the threshold is first met at t=%d with level %.5f, "
                                            "%.5f beyond it (a partial step lands within %.5f; the uninterrupted run meets it at t=%d)"
                                            % (rep["control"], par["hyd"], tp, hit2[0][0], hit2[0][1], over, tol, t0), rep))
                elif hit2[0][1] > thr and hit2[0][3][lname] != 0:
                    failures.append(Failure("threshold-not-effective-after-pause",
                                            "tank-level control `%s`: run paused at %d and continued; level %.5f > threshold at t=%d but the link is reported open"
                                            % (rep["control"], tp, hit2[0][1], hit2[0][0]), rep))

    def correspondence(self, ctx):
        failures, broken = [], []
        B = K.Batch()
        self._function_level(ctx, B, failures, broken)
        specs = []
        for fn, item in vlib.corpus_items("C05"):
            specs.append(("corpus/" + fn, item["spec"], None))
        # two thresholds crossed in ONE hydraulic step: both must be served by their own partial step
        specs.append(("designed/two-thresholds-same-tank", K.two_threshold_spec(False, True), [0, 1]))
        specs.append(("designed/two-thresholds-two-tanks", K.two_threshold_spec(False, False), [0, 1]))
        specs.append(("designed/volcurve-clamp-threshold", K.head_tie_spec(), None))
        specs.append(("designed/priority-conflict-high-first", K.priority_conflict_spec(True), None))
        specs.append(("designed/priority-conflict-high-last", K.priority_conflict_spec(False), None))
        specs.append(("designed/priority-conflict-equal", K.priority_conflict_spec(True, True), None))
        # a RULE with a tank-level premise, rule step < hydraulic step, alone and next to a simple level control
        for op in ("then_action", "condition", "priority", "add"):
            specs.append(("designed/rerun-same-simulator-control-%s" % op, K.rerun_control_edit_spec(op, False), [0]))
        specs.append(("designed/rerun-fresh-simulator-control-then_action", K.rerun_control_edit_spec("then_action", True), [0]))
        specs.append(("designed/leak-threshold-drain", K.leak_threshold_spec("drain"), [0]))
        specs.append(("designed/leak-threshold-refill", K.leak_threshold_spec("refill"), [0]))
        specs.append(("designed/rule-step-1-coincides", K.rule_step_coincides_spec(1), [0, 1]))
        specs.append(("designed/rule-step-2-coincides", K.rule_step_coincides_spec(2), [0, 1]))
        specs.append(("designed/isolated-junction-pressure", K.isolated_junction_pressure_spec(), None))
        specs.append(("designed/several-setting-controls-cond", K.multi_setting_spec("cond"), None))
        specs.append(("designed/several-setting-controls-time", K.multi_setting_spec("time"), None))
        specs.append(("designed/prv-commanded-open-reverse-flow", K.prv_open_spec("PRV"), None))
        specs.append(("designed/psv-commanded-open-reverse-flow", K.prv_open_spec("PSV"), None))
        specs.append(("designed/valve-user-open-at-tank", K.valve_user_open_spec(), None))
        specs.append(("designed/specific-gravity-0.8", K.specific_gravity_spec(0.8), None))
        specs.append(("designed/specific-gravity-1.2", K.specific_gravity_spec(1.2), None))
        specs.append(("designed/rule-level-premise", K.rule_level_spec(False), None))
        specs.append(("designed/rule-level-premise+simple", K.rule_level_spec(True), None))
        # setting / base_speed controls of low priority against an explicit CLOSED of higher priority (companion controls)
        for kind in ("valve", "pump"):
            for cf in (False, True):
                specs.append(("designed/companion-priority-%s-%s" % (kind, "close-first" if cf else "close-last"), K.companion_priority_spec(kind, cf), None))
        # presolve controls of every priority firing in the step where a threshold / limit is crossed: time order must win
        for prio in ([0, 1, 3, 6] if ctx.quick else range(7)):
            specs.append(("designed/presolve-priority-%d-threshold" % prio, K.priority_presolve_spec(prio, "threshold"), [0]))
            specs.append(("designed/presolve-priority-%d-two-levels" % prio, K.priority_presolve_spec(prio, "two-levels"), [0, 1]))
        n = 10 if ctx.quick else 220
        for i in range(n):
            force = {}
            if i % 3 == 0:
                force["tank_kind"] = "cyl"
            if i % 4 == 1:
                force["rerun_controls"] = True
            if i % 5 == 2:
                force["leaks"] = True
            specs.append(("seed%d/net%d" % (ctx.seed, i), K.random_network(ctx.rng, ctx.quick, force), None))
        for k, (label, spec, expect) in enumerate(specs):
            tr = self._network(ctx, B, spec, label, failures, broken, expect_judged=expect, grid=(k % 4 == 0))
            if len(ctx.samples) < 4 and tr.rows and K.cond_controls(spec):
                c = K.cond_controls(spec)[0]
                ctx.sample({"network": label, **K.minimal_note(spec), "control": "IF %s %s %s %s THEN %s %s PRIORITY %d" % (c["src"], c["attr"], c["rel"], c["thr"], c["link"], c["value"], c["prio"]),
                            "reported": [(r["t"], r["links"][c["link"]][0]) for r in tr.rows[:8]]})
        self._pause_continue_oracle(ctx, failures)
        B.finish()
        ctx.cov["driver_requests"] = len(B.lines)
        ctx.cov["curve_lookup_mode"] = K.probe_mode()
        known = {k.get("key") for k in vlib.load_known_findings()["findings"] if k.get("property") == "C05"}
        if broken and not [f for f in failures if f.key not in known]:
            # vlib only searches when no failure at all was found; known findings must not suppress the search
            failures += self.search(ctx, broken)
        return failures, broken

    def search(self, ctx, broken):
        if getattr(self, "_searched", False):
            return []
        self._searched = True
        failures, br2 = [], []
        B = K.Batch()
        for i in range(30 if ctx.quick else 120):
            spec = K.random_network(ctx.rng, ctx.quick, {"ntanks": ctx.rng.choice([1, 2])})
            self._network(ctx, B, spec, "search/net%d" % i, failures, br2)
        B.finish()
        known = {k.get("key") for k in vlib.load_known_findings()["findings"] if k.get("property") == "C05"}
        return [f for f in failures if f.key not in known]

    def replay(self, ctx, path):
        r = json.load(open(path if os.path.isabs(path) else os.path.join(vlib.VERIF, path)))
        print(json.dumps({k: r[k] for k in r if k != "replay"}, indent=1)[:1500])
        spec = r.get("replay", {}).get("spec")
        if spec is None:
            print("replay: no network spec in the file (a broken tie, not a failing input)")
            return 0
        failures, broken = [], []
        B = K.Batch()
        self._network(ctx, B, spec, "replay", failures, broken, grid=True)
        B.finish()
        hit = [f for f in failures if f.key == r.get("key")]
        print("replay: %s" % ("REPRODUCED " + hit[0].what if hit else "not reproduced on the current tree"))
        return 1 if hit else 0


if __name__ == "__main__":
    vlib.run_check(C05)
