"""C19 -- pipe splitting, breaking and skeletonization keep what they promise to keep.

Lean side: Model/Morph.lean (M9) + Props/C19.lean.  For every network state, pipe, fraction in [0,1], end, vertex list:
`_split_or_break_pipe` succeeds (split_total), keeps the total length, every other element, puts the junction(s) at the
interpolated elevation / at arc length f of the vertex polyline, partitions the vertices in order, gives the new pipe no check
valve, and break differs from split only in the junctions; for every sequence of branch-trim / series-merge / parallel-merge
steps (any threshold, exclusion lists) `SkelInv` holds: tanks, reservoirs, pumps, valves, control-referenced elements retained,
the demand entries are a permutation of the original ones (total demand at every time), the skeleton map partitions the
original node set over retained nodes.

Tie (C): random small networks (vertices, CV / closed pipes, tanks / reservoirs at pipe ends, pumps, valves, controls, multi-category
demands).  Every sampled pipe x fraction {0, 1, near 0, near 1, dyadic, random, exactly-at-a-vertex} x add_pipe_at_end x
{split, break} x return_copy: the REAL wntr.morph.split_pipe / break_pipe vs the Lean driver (structure exact, numbers at 1e-9),
plus an independent oracle on the real result (to_dict entries).  Hydraulics: WNTRSimulator before / after a split with a tight
Newton tolerance.  Skeletonize: the mutation trace of the real run (remove_link / remove_node / add_pipe observed in-process) is
replayed through the Lean model (`Skel.run`) and the final states are compared; `skelOracle` (the executable SkelInv) is evaluated by
the driver on the real before / after data; expected demand before / after is compared at every time.
"""
import copy
import hashlib
import json
import math
import os
import sys
import warnings
from fractions import Fraction

sys.path.insert(0, os.path.dirname(os.path.dirname(os.path.abspath(__file__))))
sys.path.insert(0, os.path.dirname(os.path.abspath(__file__)))
import vlib
from vlib import Broken, Failure, Check

DRIVER = "Drivers/MorphDriver.lean"
NUMTOL = 1e-9  # model (exact rationals) vs implementation (binary64): relative to the magnitude of the quantity
HEAD_TOL = 1e-7  # m      both runs are solved to max|residual| < 1e-10 (solver_options TOL); observed on 1200 quiet splits: <= 1.2e-11 m
FLOW_TOL = 1e-9  # m3/s   observed <= 2.2e-12
SCRATCH = os.path.join(vlib.BUILD, "c19")


# ----------------------------------------------------------------------------- network descriptions


def _fr(x):
    return vlib.frac_str(x)


def gen_net(rng, big=False, hyd=False):
    """JSON-serialisable description of a small network"""
    nj = rng.randint(6, 16) if big else rng.randint(3, 7)
    pats = {"p1": [rng.choice([0.5, 1.0, 1.5, 2.0]) for _ in range(rng.randint(2, 4))],
            "p2": [rng.choice([0.25, 1.0, 3.0]) for _ in range(rng.randint(1, 3))]}
    nodes = [dict(name="R1", kind="R", elev=float(rng.choice([50, 60, 70])), xy=[0.0, 0.0], demands=[])]
    if rng.random() < 0.3:
        nodes.append(dict(name="R2", kind="R", elev=float(rng.choice([45, 55])), xy=[float(rng.randint(-40, 40)), float(rng.randint(-40, 40))], demands=[]))
    for i in range(rng.choice([0, 1, 1, 2])):
        nodes.append(dict(name="T%d" % (i + 1), kind="T", elev=float(rng.choice([30, 32.5, 35])),
                          xy=[float(rng.randint(-40, 40)), float(rng.randint(-40, 40))], demands=[]))
    bases = [0.0, 0.001, 0.002, 0.0005, 0.004, 0.00125, -0.00075, -0.0005]  # negative = inflow modelled as a demand
    for i in range(nj):
        dem = []
        for _ in range(rng.choice([1, 1, 1, 2, 3])):
            dem.append([rng.choice(bases), rng.choice([None, None, "p1", "p2", "CONST"]), rng.choice([None, None, "dom", "ind"])])
        nodes.append(dict(name="J%d" % (i + 1), kind="J", elev=float(rng.choice([0, 5, 10, 12.5, 20, 25])),
                          xy=[float(rng.randint(-40, 40)), float(rng.randint(-40, 40))], demands=dem))
    order = [n["name"] for n in nodes if n["kind"] == "J"]
    rng.shuffle(order)
    specials = [n["name"] for n in nodes if n["kind"] != "J"]
    kind = {n["name"]: n["kind"] for n in nodes}
    pipes, pumps, valves = [], [], []
    np_ = [0]

    def pipe_attrs(tree):
        np_[0] += 1
        small = rng.random() < (0.7 if big else 0.4)
        d = rng.choice([0.05, 0.1, 0.15]) if small else rng.choice([0.2, 0.3, 0.5])
        if hyd:
            d = rng.choice([0.1, 0.15, 0.2, 0.3])
        closed = (not tree) and rng.random() < 0.25
        if not hyd and not closed and rng.random() < 0.15:
            np_.append("cvstatus")
        return dict(name="P%d" % np_[0], len=float(rng.choice([10, 25, 64, 100, 150, 300, 512])), diam=d,
                    rough=float(rng.choice([80, 100, 120, 140])), minor=rng.choice([0.0, 0.0, 0.0, 0.5, 2.0, 10.0]),
                    status="CLOSED" if closed else "OPEN", cv=rng.random() < 0.15, verts=[], user_closed=False)

    def add_pipe(a, b, tree=False):
        p = pipe_attrs(tree)
        if np_[-1] == "cvstatus":  # initial_status CV, as the [PIPES] status column "CV" can be given to add_pipe
            np_.pop()
            p["status"], p["cv"] = "CV", True
        if rng.random() < 0.5:
            a, b = b, a
        p["a"], p["b"] = a, b
        pipes.append(p)
        return p

    # spanning tree rooted at R1 through the junctions; tanks / further reservoirs hang on junctions
    placed = []
    for k, j in enumerate(order):
        if k == 0:
            if rng.random() < (0.35 if not hyd else 0.2):
                pumps.append(dict(name="PU1", a="R1", b=j, power=float(rng.choice([5000, 10000]))))
            else:
                p = add_pipe("R1", j, True)
                p["cv"], p["status"] = False, "OPEN"
        else:
            prev = rng.choice(placed[-3:]) if (big and rng.random() < 0.6) else rng.choice(placed)
            if rng.random() < 0.12:
                valves.append(dict(name="V%d" % (len(valves) + 1), a=prev, b=j, type=rng.choice(["TCV", "PRV", "FCV"]), diam=0.2))
            else:
                p = add_pipe(prev, j, True)
                if hyd:
                    p["cv"] = False
        placed.append(j)
    for s in specials[1:]:
        p = add_pipe(rng.choice(placed), s, True)
        p["cv"], p["status"] = False, "OPEN"
    # loops, parallel pipes, dead-end chains
    for _ in range(rng.randint(0, 2 + nj // 3)):
        a, b = rng.sample(placed, 2) if len(placed) >= 2 else (placed[0], "R1")
        add_pipe(a, b)
    if pipes and rng.random() < (0.8 if big else 0.4):
        for _ in range(rng.randint(1, 3 if big else 1)):
            q = rng.choice(pipes)
            p = add_pipe(q["a"], q["b"])
    # vertices
    xy = {n["name"]: n["xy"] for n in nodes}
    for p in pipes:
        r = rng.random()
        if r < 0.45:
            p["verts"] = [[float(rng.randint(-40, 40)), float(rng.randint(-40, 40))] for _ in range(rng.randint(1, 3))]
        elif r < 0.55:  # staircase through the corner: axis-parallel segments, integer lengths
            p["verts"] = [[xy[p["b"]][0], xy[p["a"]][1]]]
    # one "grid" pipe: axis-parallel segments whose lengths are multiples of 8 and add up to 64, so that fractions k/8 fall
    # exactly (in binary64 and in Q alike) on vertices
    grid = None
    cands = [p for p in pipes if kind[p["b"]] == "J" and sum(1 for q in pipes if p["b"] in (q["a"], q["b"])) >= 1]
    if cands and rng.random() < 0.8:
        p = rng.choice(cands)
        parts = rng.choice([[16, 48], [32, 32], [8, 24, 32], [16, 16, 32], [8, 8, 16, 32], [24, 8, 8, 24]])
        x, y = xy[p["a"]]
        vs = []
        horiz = rng.random() < 0.5
        for L in parts:
            sgn = rng.choice([-1, 1])
            if horiz:
                x += sgn * L
            else:
                y += sgn * L
            horiz = not horiz
            vs.append([float(x), float(y)])
        end = vs.pop()
        if end != xy[p["a"]]:
            xy[p["b"]][0], xy[p["b"]][1] = end
            p["verts"] = vs
            grid = dict(pipe=p["name"], parts=parts)
    if rng.random() < 0.15 and pipes:  # a vertex that coincides with the start node (the code drops it)
        p = rng.choice([q for q in pipes if grid is None or q["name"] != grid["pipe"]] or pipes)
        if grid is None or p["name"] != grid["pipe"]:
            p["verts"] = p["verts"] + [list(xy[p["a"]])] if rng.random() < 0.5 else [list(xy[p["a"]])] + p["verts"]
    if rng.random() < 0.2 and not hyd:
        q = rng.choice(pipes)
        if q["status"] == "OPEN":
            q["user_closed"] = True  # current status differs from initial_status (a model left as a simulation left it)
    # controls
    controls = []
    pn = [p["name"] for p in pipes]
    if rng.random() < 0.7:
        for _ in range(rng.randint(1, 3)):
            k = rng.choice(["time", "time", "tank", "rule", "pipecond"])
            tgt = rng.choice(pn + [u["name"] for u in pumps] + [v["name"] for v in valves])
            if k == "tank" and not any(n["kind"] == "T" for n in nodes):
                k = "time"
            if k == "time":
                controls.append(dict(kind="time", target=tgt, status=rng.choice(["CLOSED", "OPEN"]), at=3600 * rng.randint(1, 3)))
            elif k == "tank":
                controls.append(dict(kind="tank", target=tgt, status=rng.choice(["CLOSED", "OPEN"]),
                                     ref=rng.choice([n["name"] for n in nodes if n["kind"] == "T"]), level=rng.choice([1.0, 2.0, 4.5]),
                                     rel=rng.choice(["<", ">"])))
            elif k == "pipecond":  # LINK x FLOW ABOVE y: the pipe is referenced by the CONDITION only
                controls.append(dict(kind="pipecond", target=tgt, status=rng.choice(["CLOSED", "OPEN"]), ref=rng.choice(pn),
                                     flow=rng.choice([0.001, 0.01]), rel=rng.choice(["<", ">"])))
            else:
                deg = {j: sum(1 for q in pipes if j in (q["a"], q["b"])) for j in placed}
                low = [j for j in placed if deg[j] <= 2]
                controls.append(dict(kind="rule", target=tgt, status=rng.choice(["CLOSED", "OPEN"]), ref=rng.choice(low if low and rng.random() < 0.7 else placed),
                                     pressure=rng.choice([5.0, 15.0, 30.0]), rel=rng.choice(["<", ">"])))
    # a model default pattern that is not identically 1: entries with pattern None follow it, entries marked CONST were made constant
    # through the public setter (`entry.pattern_name = None`) and must stay constant wherever skeletonize moves them
    default_pattern = rng.choice([None, "p1", "p2"])
    return dict(default_pattern=default_pattern, patterns=pats, nodes=nodes, pipes=pipes, pumps=pumps, valves=valves, controls=controls, grid=grid,
                duration=3600 * rng.choice([0, 2, 4]), hyd=hyd)


def build(wntr, d):
    from wntr.network import controls as c
    from wntr.network.base import LinkStatus

    wn = wntr.network.WaterNetworkModel()
    wn.options.time.duration = d["duration"]
    wn.options.time.hydraulic_timestep = 3600
    wn.options.time.pattern_timestep = 3600
    wn.options.time.report_timestep = 3600
    for k, v in d["patterns"].items():
        wn.add_pattern(k, v)
    if d.get("default_pattern"):
        wn.options.hydraulic.pattern = d["default_pattern"]
    for n in d["nodes"]:
        xy = tuple(n["xy"])
        if n["kind"] == "R":
            wn.add_reservoir(n["name"], base_head=n["elev"], coordinates=xy)
        elif n["kind"] == "T":
            wn.add_tank(n["name"], elevation=n["elev"], init_level=3.0, min_level=0.5, max_level=6.0, diameter=8.0, coordinates=xy)
        else:
            b, p, cat = n["demands"][0]
            pp = lambda x: None if x == "CONST" else x
            wn.add_junction(n["name"], base_demand=b, demand_pattern=pp(p), elevation=n["elev"], coordinates=xy, demand_category=cat)
            j = wn.get_node(n["name"])
            if len(j.demand_timeseries_list) == 0:  # add_junction skips a zero base demand in some versions
                j.add_demand(b, pp(p), cat)
            for b, p, cat in n["demands"][1:]:
                j.add_demand(b, pp(p), cat)
            for i, (b, p, cat) in enumerate(n["demands"]):
                if p == "CONST":
                    j.demand_timeseries_list[i].pattern_name = None
    for p in d["pipes"]:
        wn.add_pipe(p["name"], p["a"], p["b"], length=p["len"], diameter=p["diam"], roughness=p["rough"], minor_loss=p["minor"],
                    initial_status=p["status"], check_valve=p["cv"])
        l = wn.get_link(p["name"])
        l.vertices = [tuple(v) for v in p["verts"]]
        if p.get("user_closed"):
            l._user_status = LinkStatus.Closed
    for u in d["pumps"]:
        wn.add_pump(u["name"], u["a"], u["b"], "POWER", u["power"])
    for v in d["valves"]:
        setting = {"TCV": 5.0, "PRV": 30.0, "FCV": 0.01}[v["type"]]
        wn.add_valve(v["name"], v["a"], v["b"], diameter=v["diam"], valve_type=v["type"], minor_loss=0.0, initial_setting=setting)
    for i, k in enumerate(d["controls"]):
        tgt = wn.get_link(k["target"])
        act = c.ControlAction(tgt, "status", LinkStatus[k["status"]])
        if k["kind"] == "time":
            wn.add_control("c%d" % i, c.Control(c.SimTimeCondition(wn, "=", k["at"]), act))
        elif k["kind"] == "tank":
            wn.add_control("c%d" % i, c.Control(c.ValueCondition(wn.get_node(k["ref"]), "level", k["rel"], k["level"]), act))
        elif k["kind"] == "pipecond":
            wn.add_control("c%d" % i, c.Rule(c.ValueCondition(wn.get_link(k["ref"]), "flow", k["rel"], k["flow"]), [act], name="c%d" % i))
        else:
            wn.add_control("c%d" % i, c.Rule(c.ValueCondition(wn.get_node(k["ref"]), "pressure", k["rel"], k["pressure"]), [act], name="c%d" % i))
    return wn


# ----------------------------------------------------------------------------- views (what travels to the driver)

KIND = {"Junction": "J", "Tank": "T", "Reservoir": "R"}


def view_split(wn):
    nodes = []
    for name, n in wn.nodes():
        k = KIND[n.node_type]
        elev = 0.0 if k == "R" else float(n.elevation)
        nodes.append((name, k, elev, float(n.coordinates[0]), float(n.coordinates[1])))
    pipes, others = [], []
    for name, l in wn.links():
        if l.link_type == "Pipe":
            pipes.append((name, l.start_node_name, l.end_node_name, float(l.length), float(l.diameter), float(l.roughness), float(l.minor_loss),
                          int(l.initial_status), int(l.status), bool(l.check_valve), [(float(v[0]), float(v[1])) for v in l.vertices]))
        else:
            others.append((name, l.start_node_name, l.end_node_name))
    return dict(nodes=nodes, pipes=pipes, others=others)


def seg_lens(wn, pipe_name):
    """the Euclidean segment lengths exactly as `_split_or_break_pipe` computes them (binary64 sqrt is outside the Q model)"""
    p = wn.get_link(pipe_name)
    if not p.vertices:
        return []
    pts = [p.start_node.coordinates, *p.vertices, p.end_node.coordinates]
    return [sum([(a - b) ** 2 for (a, b) in zip(pts[i], pts[i + 1])]) ** 0.5 for i in range(len(pts) - 1)]


def split_line(v, case, sl, pinned=False):
    nodes = ";".join("%s,%s,%s,%s,%s" % (n[0], n[1], _fr(n[2]), _fr(n[3]), _fr(n[4])) for n in v["nodes"])
    pipes = ";".join("%s,%s,%s,%s,%s,%s,%s,%d,%d,%d,%s" % (p[0], p[1], p[2], _fr(p[3]), _fr(p[4]), _fr(p[5]), _fr(p[6]), p[7], p[8], int(p[9]),
                                                             " ".join("%s:%s" % (_fr(x), _fr(y)) for x, y in p[10])) for p in v["pipes"])
    others = ";".join("%s,%s,%s" % o for o in v["others"])
    call = "%s,%s,%s,%d,%s,%d" % (case["pipe"], case["new_pipe"], " ".join(case["newj"]), int(case["at_end"]), _fr(case["f"]), int(case["brk"]))
    return "%s | %s | %s | %s | %s | %s" % ("splitpinned" if pinned else "split", nodes, pipes, others, call, " ".join(_fr(x) for x in sl))


def parse_split(line):
    line = line.strip()
    if line.startswith("error "):
        return ("error", line[6:])
    if not line.startswith("ok N="):
        return ("bad", line)
    body = line[3:]
    i, j = body.index(" P="), body.index(" O=")
    ns, ps, os_ = body[2:i], body[i + 3:j], body[j + 3:]
    nodes = []
    for t in ns.split(";"):
        if t:
            a = t.split(",")
            nodes.append((a[0], a[1], Fraction(a[2]), Fraction(a[3]), Fraction(a[4])))
    pipes = []
    for t in ps.split(";"):
        if t:
            a = t.split(",")
            vs = [tuple(Fraction(z) for z in w.split(":")) for w in a[10].split(" ") if w]
            pipes.append((a[0], a[1], a[2], Fraction(a[3]), Fraction(a[4]), Fraction(a[5]), Fraction(a[6]), int(a[7]), int(a[8]), a[9] == "1", vs))
    others = [tuple(t.split(",")) for t in os_.split(";") if t]
    return ("ok", dict(nodes=nodes, pipes=pipes, others=others))


def close(a, b, scale=1.0):
    a, b = float(a), float(b)
    return abs(a - b) <= NUMTOL * max(1.0, abs(a), abs(b), scale)


def cmp_split_view(m, r):
    """model view (Fractions) vs implementation view (floats): None or a description of the first difference"""
    if [n[:2] for n in m["nodes"]] != [n[:2] for n in r["nodes"]]:
        return "node names/kinds %s vs %s" % ([n[:2] for n in m["nodes"]], [n[:2] for n in r["nodes"]])
    for a, b in zip(m["nodes"], r["nodes"]):
        if not (close(a[2], b[2]) and close(a[3], b[3], 100) and close(a[4], b[4], 100)):
            return "node %s: model %s impl %s" % (a[0], [float(x) for x in a[2:]], list(b[2:]))
    if [p[:3] for p in m["pipes"]] != [p[:3] for p in r["pipes"]]:
        return "pipes/ends %s vs %s" % ([p[:3] for p in m["pipes"]], [p[:3] for p in r["pipes"]])
    for a, b in zip(m["pipes"], r["pipes"]):
        if not all(close(a[i], b[i]) for i in (3, 4, 5, 6)):
            return "pipe %s numbers: model %s impl %s" % (a[0], [float(x) for x in a[3:7]], list(b[3:7]))
        if a[7:10] != b[7:10]:
            return "pipe %s (initial_status, status, check_valve): model %s impl %s" % (a[0], a[7:10], b[7:10])
        if len(a[10]) != len(b[10]) or any(not (close(x[0], y[0], 100) and close(x[1], y[1], 100)) for x, y in zip(a[10], b[10])):
            return "pipe %s vertices: model %s impl %s" % (a[0], [(float(x), float(y)) for x, y in a[10]], b[10])
    if [tuple(o) for o in m["others"]] != [tuple(o) for o in r["others"]]:
        return "pumps/valves %s vs %s" % (m["others"], r["others"])
    return None


# ----------------------------------------------------------------------------- split / break on the implementation

ERRMAP = {"ValueError:pipe": "notAPipe", "KeyError": "notAPipe", "ValueError:frac": "badFraction", "RuntimeError": "nameInUse",
          "UnboundLocalError": "unbound", "AttributeError": "noElevation"}


def call_split(wntr, wn, case, return_copy):
    try:
        with warnings.catch_warnings():
            warnings.simplefilter("ignore")
            if case["brk"]:
                w2 = wntr.morph.break_pipe(wn, case["pipe"], case["new_pipe"], case["newj"][0], case["newj"][1],
                                           add_pipe_at_end=case["at_end"], split_at_point=case["f"], return_copy=return_copy)
            else:
                w2 = wntr.morph.split_pipe(wn, case["pipe"], case["new_pipe"], case["newj"][0],
                                           add_pipe_at_end=case["at_end"], split_at_point=case["f"], return_copy=return_copy)
        return ("ok", w2)
    except Exception as e:  # mapped to the model's enum
        t = type(e).__name__
        if t == "ValueError":
            t += ":frac" if "between 0 and 1" in str(e) else ":pipe"
        return ("error", ERRMAP.get(t, t), "%s: %s" % (type(e).__name__, str(e)[:120]))


def poly_point(pts, f):
    """independent: the point at arc-length fraction f of the polyline"""
    ls = [math.hypot(q[0] - p[0], q[1] - p[1]) for p, q in zip(pts, pts[1:])]
    total = math.fsum(ls)
    if total == 0:
        return pts[0], ls, total
    c = total * f
    acc = 0.0
    for i, l in enumerate(ls):
        if l > 0 and c <= acc + l:
            t = max(0.0, (c - acc) / l)
            return (pts[i][0] + (pts[i + 1][0] - pts[i][0]) * t, pts[i][1] + (pts[i + 1][1] - pts[i][1]) * t), ls, total
        acc += l
    return pts[-1], ls, total


def dict_index(d):
    return {("n", n["name"]): n for n in d["nodes"]}, {("l", l["name"]): l for l in d["links"]}


def split_oracle(d0, r, case):
    """the statement, evaluated on to_dict of the input (d0) and of the returned model (r).  Returns [(key, what)]"""
    out = []
    pn, npn, newj, f, at_end = case["pipe"], case["new_pipe"], case["newj"], case["f"], case["at_end"]
    for k in ("options", "curves", "patterns", "sources", "controls"):
        if r[k] != d0[k]:
            out.append(("split-other-element-changed", "section %s of the model changed" % k))
    n0 = len(d0["nodes"])
    if r["nodes"][:n0] != d0["nodes"]:
        bad = [a["name"] for a, b in zip(d0["nodes"], r["nodes"]) if a != b]
        out.append(("split-other-element-changed", "original nodes changed / reordered: %s" % bad[:4]))
    new_nodes = r["nodes"][n0:]
    if [n["name"] for n in new_nodes] != list(newj) or any(n["node_type"] != "Junction" for n in new_nodes):
        out.append(("split-new-junctions", "new nodes %s, requested junctions %s" % ([n["name"] for n in new_nodes], newj)))
        return out
    orig = [l for l in d0["links"] if l["name"] == pn][0]
    idx = [l["name"] for l in d0["links"]].index(pn)
    if len(r["links"]) != len(d0["links"]) + 1 or [l for i, l in enumerate(r["links"][:-1]) if i != idx] != [l for i, l in enumerate(d0["links"]) if i != idx]:
        out.append(("split-other-element-changed", "another link changed / links reordered"))
        return out
    old, new = r["links"][idx], r["links"][-1]
    if old["name"] != pn or new["name"] != npn or new["link_type"] != "Pipe":
        out.append(("split-new-pipe", "original pipe entry %s / new link %s %s" % (old["name"], new["name"], new["link_type"])))
        return out
    nodes0 = {n["name"]: n for n in d0["nodes"]}
    s, e = nodes0[orig["start_node_name"]], nodes0[orig["end_node_name"]]
    j0, j1 = newj[0], newj[-1]
    exp_ends = ((s["name"], j0), (j1, e["name"])) if at_end else ((j0, e["name"]), (s["name"], j1))
    if (old["start_node_name"], old["end_node_name"]) != exp_ends[0] or (new["start_node_name"], new["end_node_name"]) != exp_ends[1]:
        out.append(("split-topology", "pipe ends %s / %s, expected %s / %s" % ((old["start_node_name"], old["end_node_name"]),
                                                                             (new["start_node_name"], new["end_node_name"]), exp_ends[0], exp_ends[1])))
    for k in orig:
        if k not in ("start_node_name", "end_node_name", "length", "vertices") and old[k] != orig[k]:
            out.append(("split-other-element-changed", "attribute %s of the split pipe changed: %r -> %r" % (k, orig[k], old[k])))
    L = orig["length"]
    if abs(old["length"] + new["length"] - L) > 1e-12 * max(1.0, L):
        out.append(("split-length", "lengths %r + %r != %r" % (old["length"], new["length"], L)))
    first_len = old["length"] if at_end else new["length"]
    if abs(first_len - L * f) > 1e-12 * max(1.0, L):
        out.append(("split-length-fraction", "the part at the start node has length %r, requested %r * %r" % (first_len, L, f)))
    if new["check_valve"]:
        out.append(("split-new-pipe-check-valve", "the new pipe %s has check_valve=True (split of check-valve pipe %s)" % (npn, pn)))
    for k in ("diameter", "roughness"):
        if new[k] != orig[k]:
            out.append(("split-new-pipe", "new pipe %s %r, original %r" % (k, new[k], orig[k])))
    # elevation
    if s["node_type"] == "Reservoir":
        ee = e.get("elevation")
    elif e["node_type"] == "Reservoir":
        ee = s["elevation"]
    else:
        ee = s["elevation"] + (e["elevation"] - s["elevation"]) * f
    pts = [tuple(s["coordinates"])] + [tuple(v) for v in orig["vertices"]] + [tuple(e["coordinates"])]
    (ex, ey), ls, total = poly_point(pts, f)
    sc = 1.0 + max(abs(z) for p in pts for z in p)
    for n in new_nodes:
        if abs(n["elevation"] - ee) > 1e-9 * max(1.0, abs(ee)):
            out.append(("split-junction-elevation", "junction %s elevation %r, expected %r at fraction %r" % (n["name"], n["elevation"], ee, f)))
        cx, cy = n["coordinates"]
        if abs(cx - ex) > 1e-9 * sc or abs(cy - ey) > 1e-9 * sc:
            out.append(("split-junction-coordinates", "junction %s at %r, the point at fraction %r of the polyline is %r" % (n["name"], (cx, cy), f, (ex, ey))))
        dl = n["demand_timeseries_list"]
        if n["base_demand"] != 0 or any(x["base_val"] != 0 for x in dl):
            out.append(("split-new-junctions", "junction %s has a demand %r" % (n["name"], dl)))
    # vertices: the polyline is cut at the junction (judged when no vertex coincides with the start node, which the code drops)
    V = [tuple(v) for v in orig["vertices"]]
    fv, lv = ([tuple(v) for v in old["vertices"]], [tuple(v) for v in new["vertices"]])
    if not at_end:
        fv, lv = lv, fv
    if all(v != tuple(s["coordinates"]) for v in V):
        if fv + lv != V:
            out.append(("split-vertices", "vertices %s split into %s + %s" % (V, fv, lv)))
        else:
            c = total * f
            sub = 0.0
            for i, v in enumerate(V):
                sub += ls[i]
                eps = 1e-9 * max(1.0, total)
                if (i < len(fv) and sub > c + eps) or (i >= len(fv) and sub < c - eps):
                    out.append(("split-vertices", "vertex %s at arc length %r is on the wrong side of the cut at %r" % (v, sub, c)))
                    break
    return out


def break_vs_split(rs, rb, case_b):
    """break differs from split only in the junctions: rs = split with junction j0, rb = break with (j0, j1)"""
    j0, j1 = case_b["newj"]
    for k in ("options", "curves", "patterns", "sources", "controls"):
        if rs[k] != rb[k]:
            return "section %s differs" % k
    if rb["nodes"][:-1] != rs["nodes"]:
        return "nodes other than the second junction differ"
    a, b = dict(rb["nodes"][-1]), dict(rs["nodes"][-1])
    if a.pop("name") != j1 or b.pop("name") != j0 or a != b:
        return "second junction %s is not a copy of %s" % (rb["nodes"][-1], rs["nodes"][-1])
    if rb["links"][:-1] != rs["links"][:-1]:
        return "links other than the new pipe differ"
    a, b = dict(rb["links"][-1]), dict(rs["links"][-1])
    k = "start_node_name" if case_b["at_end"] else "end_node_name"
    if a.pop(k) != j1 or b.pop(k) != j0 or a != b:
        return "new pipe %s vs %s" % (rb["links"][-1], rs["links"][-1])
    return None


def fractions_for(rng, d, p, n):
    fs = [0.0, 1.0, 2.0 ** -30, 1.0 - 2.0 ** -30, rng.randint(1, 63) / 64.0, rng.random(), 0.5]
    if d.get("grid") and d["grid"]["pipe"] == p["name"]:
        acc = 0
        for L in d["grid"]["parts"][:-1]:
            acc += L
            fs.append(acc / 64.0)
    rng.shuffle(fs)
    keep = [0.0, 1.0] + [x for x in fs if x not in (0.0, 1.0)][: max(1, n - 2)]
    return keep


class SplitRunner:
    def __init__(self, chk, ctx, wntr):
        self.chk, self.ctx, self.wntr = chk, ctx, wntr
        self.lines, self.pending = [], []

    def run_net(self, d, failures, broken, npipes, nfr, cases=None):
        wntr, ctx = self.wntr, self.ctx
        wn = build(wntr, d)
        d0 = wn.to_dict()
        v0 = view_split(wn)
        kinds = {n["name"]: n["kind"] for n in d["nodes"]}
        if cases is None:
            pipes = list(d["pipes"])
            ctx.rng.shuffle(pipes)
            gp = (d.get("grid") or {}).get("pipe")
            adj = lambda p: any(p["a"] in (o["a"], o["b"]) or p["b"] in (o["a"], o["b"]) for o in d["pumps"] + d["valves"])
            pipes.sort(key=lambda p: -int(len(p["verts"]) > 0) - int(p["cv"]) - 2 * int(p["name"] == gp) - int(adj(p)) - 2 * int(p["status"] == "CV"))
            cases = []
            for p in pipes[:npipes]:
                for f in fractions_for(ctx.rng, d, p, nfr):
                    for at_end in (True, False):
                        for brk in (False, True):
                            cases.append(dict(pipe=p["name"], new_pipe="NP", newj=["NJ", "NK"] if brk else ["NJ"], at_end=at_end, f=f, brk=brk))
        last_split = {}
        for case in cases:
            p = [q for q in d["pipes"] if q["name"] == case["pipe"]]
            rep = dict(kind="split", net=d, case=case)
            sl = seg_lens(wn, case["pipe"]) if p else []
            res = call_split(wntr, wn, case, True)
            after_in = wn.to_dict()
            if after_in != d0:
                failures.append(Failure("split-input-modified", "%s(return_copy=True) modified the input model" % ("break_pipe" if case["brk"] else "split_pipe"), rep))
                wn = build(wntr, d)
            wc = copy.deepcopy(wn)
            res2 = call_split(wntr, wc, case, False)
            cls = "f0" if case["f"] == 0 else "f1" if case["f"] == 1 else "mid"
            two_res = bool(p) and kinds[p[0]["a"]] == "R" and kinds[p[0]["b"]] == "R"
            sig = json.dumps([d["nodes"], d["pipes"], case], sort_keys=True, default=str)
            ctx.case(hashlib.sha256(sig.encode()).hexdigest()[:16], bool(p) and 0 < case["f"] < 1)
            ctx.count("split:%s:%s:%s" % ("break" if case["brk"] else "split", "end" if case["at_end"] else "start", cls))
            if p:
                ctx.count("pipe:%s%s%s" % ("verts" if p[0]["verts"] else "plain", ":cv" if p[0]["cv"] else "", ":closed" if p[0]["status"] == "CLOSED" else ""))
                if any(p[0]["a"] in (o["a"], o["b"]) or p[0]["b"] in (o["a"], o["b"]) for o in d["pumps"] + d["valves"]):
                    ctx.count("pipe:next-to-pump-or-valve")
                if p[0]["status"] == "CV":
                    ctx.count("pipe:initial-status-CV")
                if case["brk"] and p[0]["verts"] and case["f"] in (0.0, 1.0):
                    ctx.count("split:break-with-vertices-at-%d" % int(case["f"]))
                if kinds[p[0]["a"]] != "J" or kinds[p[0]["b"]] != "J":
                    ctx.count("pipe:end-%s" % "".join(sorted(kinds[p[0]["a"]] + kinds[p[0]["b"]])))
            self.lines.append(split_line(v0, case, sl))
            self.pending.append((d, case, v0, sl, res, rep))
            if res[0] == "error":
                ctx.count("split:error:" + res[1])
                valid = bool(p) and 0 <= case["f"] <= 1 and not two_res and case["new_pipe"] not in [l["name"] for l in d0["links"]] \
                    and not set(case["newj"]) & set(n["name"] for n in d0["nodes"])
                if valid:
                    if res[1] == "unbound":
                        failures.append(Failure("split-fraction-0-vertices-raises",
                                                "%s at split_at_point=%r on pipe %s with vertices raises %s" % ("break_pipe" if case["brk"] else "split_pipe", case["f"], case["pipe"], res[2]),
                                                dict(rep, observed=res[2])))
                    else:
                        failures.append(Failure("split-raises", "split/break of pipe %s at %r raises %s" % (case["pipe"], case["f"], res[2]), dict(rep, observed=res[2])))
                if res2[0] != "error" or res2[1] != res[1]:
                    broken.append(Broken("correspondence", "split return_copy=False vs True", "outcomes differ: %s vs %s for %s" % (res2[:2], res[:2], case)))
                if res2[0] == "error" and wc.to_dict() != d0:
                    ctx.count("split:refused-call-modified-model")
                    failures.append(Failure("split-refused-call-modifies-model",
                                            "%s(return_copy=False) raised %s and left the model modified (nodes %d -> %d, links %s)" % (
                                                "break_pipe" if case["brk"] else "split_pipe", res2[2], len(d0["nodes"]), wc.num_nodes,
                                                [(l.name, l.start_node_name, l.end_node_name) for _, l in wc.links() if l.name == case["pipe"]]),
                                            dict(rep, observed=res2[2])))
                continue
            r = res[1].to_dict()
            if res[1] is wn:
                failures.append(Failure("split-return-identity", "return_copy=True returned the input object", rep))
            if res2[0] != "ok" or res2[1] is not wc:
                failures.append(Failure("split-return-identity", "return_copy=False did not modify and return the input object (%s)" % (res2[:2],), rep))
            elif wc.to_dict() != r:
                failures.append(Failure("split-return-copy-differs", "return_copy=False and return_copy=True give different models", rep))
            for key, what in split_oracle(d0, r, case):
                failures.append(Failure(key, "%s %s f=%r at_end=%s: %s" % ("break_pipe" if case["brk"] else "split_pipe", case["pipe"], case["f"], case["at_end"], what),
                                        dict(rep, observed=what)))
            self.pending[-1] = (d, case, v0, sl, ("ok", view_split(res[1])), rep)
            if len(ctx.samples) < 2 and p and p[0]["verts"] and 0 < case["f"] < 1:
                ctx.sample(dict(kind="break" if case["brk"] else "split", case=case, pipe=p[0], new_nodes=r["nodes"][len(d0["nodes"]):][:2] and
                                [dict(name=n["name"], elevation=n["elevation"], coordinates=n["coordinates"]) for n in r["nodes"][len(d0["nodes"]):]],
                                parts=[dict(name=l["name"], ends=[l["start_node_name"], l["end_node_name"]], length=l["length"], vertices=l["vertices"],
                                            check_valve=l["check_valve"]) for l in r["links"] if l["name"] in (case["pipe"], case["new_pipe"])]))
            k = (case["pipe"], case["f"], case["at_end"])
            if not case["brk"]:
                last_split[k] = r
            elif k in last_split:
                diff = break_vs_split(last_split[k], r, case)
                if diff:
                    failures.append(Failure("break-vs-split", "break_pipe differs from split_pipe in more than the junctions: %s" % diff, dict(rep, observed=diff)))
        return wn

    def flush(self, failures, broken):
        if not self.lines:
            return
        mo = vlib.lean_run(DRIVER, "\n".join(self.lines) + "\n")
        if len(mo) != len(self.lines):
            raise vlib.Infra("MorphDriver returned %d lines for %d requests" % (len(mo), len(self.lines)))
        again = []
        for (d, case, v0, sl, res, rep), ml in zip(self.pending, mo):
            m = parse_split(ml)
            if m[0] == "bad":
                broken.append(Broken("correspondence", "M9 driver", "driver answered %r" % ml[:200]))
                continue
            if m[0] == "error" or res[0] == "error":
                if m[0] == res[0] and m[1] == res[1]:
                    continue
                broken.append(Broken("correspondence", "M9 split outcome", "case %s\nmodel %s\nimpl  %s" % (case, m[:2] if m[0] == "error" else "ok", res[:2] if res[0] == "error" else "ok")))
                self.chk.save_corpus(dict(kind="split", net=d, case=case))
                continue
            diff = cmp_split_view(m[1], res[1])
            if diff:
                again.append((d, case, v0, sl, res, rep, diff))
        known = vlib.load_known_findings()
        pending_patch = any(f.get("property") == "C19" and f.get("key") in ("split-minor-loss-duplicated", "split-closed-pipe-opened-by-control")
                            for f in known.get("findings", [])) and not os.environ.get("C19_NO_COPYING")
        if again and not pending_patch:  # the two findings are recorded as fixed: only the repaired model is accepted
            for (d, case, v0, sl, res, rep, diff) in again:
                broken.append(Broken("correspondence", "M9 split result", "case %s\n%s" % (case, diff)))
                self.chk.save_corpus(dict(kind="split", net=d, case=case))
            again = []
        if again:
            # the code before fixes/C19-split-neutral-new-pipe.patch copies minor loss and status to the new pipe (the two recorded
            # hydraulic findings): such a result must equal the `splitCopying` model exactly
            mo = vlib.lean_run(DRIVER, "\n".join(split_line(v0, case, sl, pinned=True) for (d, case, v0, sl, res, rep, diff) in again) + "\n")
            for (d, case, v0, sl, res, rep, diff), ml in zip(again, mo):
                m = parse_split(ml)
                if m[0] == "ok" and cmp_split_view(m[1], res[1]) is None:
                    self.ctx.count("split:matches-copying-model")
                    continue
                broken.append(Broken("correspondence", "M9 split result", "case %s\n%s" % (case, diff)))
                self.chk.save_corpus(dict(kind="split", net=d, case=case))
        self.lines, self.pending = [], []


# ----------------------------------------------------------------------------- hydraulics before / after a split


def simulate(wntr, wn):
    try:
        with warnings.catch_warnings():
            warnings.simplefilter("ignore")
            sim = wntr.sim.WNTRSimulator(wn)
            # HW_approx="piecewise": the head-loss rows are k*g(q), linear in the resistance k and hence additive over the two parts.
            # The default approximation adds the regulariser eps*sqrt(k)*q (eps = 1e-5), which is not additive in the length and
            # moves heads by ~1e-6 m after ANY split; that is an artefact of the solver's smoothing, not of split_pipe.
            res = sim.run_sim(solver_options={"TOL": 1e-10, "MAXITER": 300}, convergence_error=True, HW_approx="piecewise")
        return res
    except Exception as e:
        return "%s: %s" % (type(e).__name__, str(e)[:100])


def hyd_compare(r0, r1, d, case):
    """None | (key, what).  Heads at every original node and flows in every other link; the two parts carry the original flow."""
    import numpy as np

    h0, h1 = r0.node["head"], r1.node["head"]
    q0, q1 = r0.link["flowrate"], r1.link["flowrate"]
    if list(h0.index) != list(h1.index):
        return ("split-changes-hydraulics", "different report times %s vs %s" % (list(h0.index), list(h1.index)))
    st0 = r0.link["status"]
    worst = None
    for t in h0.index:
        # a closed split pipe leaves junctions that hang only on it without a head in both runs: compare where both are defined
        for n in h0.columns:
            a, b = float(h0.loc[t, n]), float(h1.loc[t, n])
            if abs(a - b) > HEAD_TOL * max(1.0, abs(a) / 100):
                if worst is None or abs(a - b) > worst[0]:
                    worst = (abs(a - b), "head at node %s, t=%s: %.9g before, %.9g after the split" % (n, t, a, b))
        for l in q0.columns:
            a = float(q0.loc[t, l])
            bs = [float(q1.loc[t, l])] + ([float(q1.loc[t, case["new_pipe"]])] if l == case["pipe"] else [])
            for b in bs:
                if abs(a - b) > FLOW_TOL:
                    if worst is None or abs(a - b) * 1e3 > worst[0]:
                        worst = (abs(a - b) * 1e3, "flow in link %s, t=%s: %.9g before, %.9g after the split" % (l, t, a, b))
    if worst is None:
        return None
    p = [q for q in d["pipes"] if q["name"] == case["pipe"]][0]
    opened = p["status"] == "CLOSED" and any(c["target"] == p["name"] and c["status"] == "OPEN" for c in d["controls"])
    # the classes of the two recorded findings first (each is sufficient for a difference); everything else is unclassified
    key = "split-closed-pipe-opened-by-control" if opened else "split-minor-loss-duplicated" if p["minor"] > 0 else "split-changes-hydraulics"
    return (key, worst[1] + " (split pipe: minor_loss=%r, check_valve=%r, %s)" % (p["minor"], p["cv"], p["status"]))


# ----------------------------------------------------------------------------- skeletonize


def dem_view(j):
    return [(float(t.base_value), "~" if t.pattern_name is None else str(t.pattern_name), "~" if t.category is None else str(t.category))
            for t in j.demand_timeseries_list]


def view_skel(wn):
    nodes = []
    for name, n in wn.nodes():
        k = KIND[n.node_type]
        nodes.append((name, k, dem_view(n) if k == "J" else []))
    links = []
    for name, l in wn.links():
        if l.link_type == "Pipe":
            links.append((name, l.start_node_name, l.end_node_name, True, float(l.diameter), float(l.length), float(l.minor_loss), int(l.status), bool(l.check_valve)))
        else:
            links.append((name, l.start_node_name, l.end_node_name, False, 0.0, 0.0, 0.0, int(l.status) if l.status is not None else 0, False))
    return dict(nodes=nodes, links=links)


def control_refs(wn):
    jr, pr, other = set(), set(), set()
    for _, ctl in wn.controls():
        for req in ctl.requires():
            t = getattr(req, "node_type", None) or getattr(req, "link_type", None)
            if t == "Junction":
                jr.add(req.name)
            elif t == "Pipe":
                pr.add(req.name)
            elif t is not None:
                other.add(req.name)
    return jr, pr, other


def fmt_snodes(nodes):
    return ";".join("%s,%s,%s" % (n[0], n[1], " ".join("%s:%s:%s" % (_fr(b), p, c) for b, p, c in n[2])) for n in nodes)


def fmt_slinks(links):
    return ";".join("%s,%s,%s,%d,%s,%s,%s,%d,%d" % (l[0], l[1], l[2], int(l[3]), _fr(l[4]), _fr(l[5]), _fr(l[6]), l[7], int(l[8])) for l in links)


def fmt_map(m):
    return ";".join("%s=%s" % (k, " ".join(v)) for k, v in m)


def pipe_attrs_of(p):
    return (float(p.length), float(p.diameter), float(p.roughness), float(p.minor_loss), int(p.status))


def props_of(r):
    return (float(r["length"]), float(r["diameter"]), float(r["roughness"]), float(r["minorloss"]), int(r["status"]))


def f2b(x):
    import struct

    return str(struct.unpack("<Q", struct.pack("<d", x))[0])


def b2f(s_):
    import struct

    return struct.unpack("<d", struct.pack("<Q", int(s_)))[0]


def merge_line(kind, a, b):
    return "merge | %s | %s | %s" % (kind, ",".join([f2b(v) for v in a[:4]] + [str(a[4])]), ",".join([f2b(v) for v in b[:4]] + [str(b[4])]))


def merge_check(ctx, records, broken):
    """real _series_merge_properties / _parallel_merge_properties vs the Lean Float transliteration (driver `merge`)"""
    if not records:
        return
    mo = vlib.lean_run(DRIVER, "\n".join(merge_line(k, a, b) for k, a, b, _ in records) + "\n")
    if len(mo) != len(records):
        raise vlib.Infra("MorphDriver returned %d lines for %d merge requests" % (len(mo), len(records)))
    dev = ctx.cov.setdefault("series_merge_resistance_rel_dev_max", {"code_exponents": 0.0, "simulator_exponents": 0.0})
    for (k, a, b, r), ml in zip(records, mo):
        t = ml.split()
        ctx.count("merge:%s:%s" % (k, "tie" if a[1] == b[1] else "dom0" if a[1] > b[1] else "dom1"))
        if len(t) != 6 or t[0] != "ok":
            broken.append(Broken("correspondence", "M9 merge properties", "driver answered %r" % ml[:200]))
            continue
        m = (b2f(t[1]), b2f(t[2]), b2f(t[3]), b2f(t[4]), int(t[5]))
        ok = m[0] == r[0] and m[1] == r[1] and m[3] == r[3] and m[4] == r[4] and (m[2] == r[2] or abs(m[2] - r[2]) <= 1e-13 * abs(r[2]))
        if not ok:
            broken.append(Broken("correspondence", "M9 %s merge properties" % ("series" if k == "s" else "parallel"),
                                 "pipes %s %s\nmodel (length, diameter, roughness, minorloss, status) %s\nimpl  %s" % (a, b, m, r)))
            continue
        if k == "s" and min(a[:3] + b[:3]) > 0:
            for name, (ea, eb) in (("code_exponents", (4.87, 1.85)), ("simulator_exponents", (4.871, 1.852))):
                res = lambda L, D, C: L / (D ** ea * C ** eb)
                d = res(r[0], r[1], r[2]) / (res(*a[:3]) + res(*b[:3])) - 1.0
                dev[name] = max(dev[name], abs(d))


class Trace:
    """records remove_link / remove_node / add_pipe on WaterNetworkModel while skeletonize runs (no edit of /repo)"""

    def __init__(self, wntr):
        self.cls = wntr.network.model.WaterNetworkModel
        self.ev = []
        self.status = None  # link statuses when the first step starts, i.e. AFTER the hydraulic run of _Skeletonize.__init__
        self.skel = wntr.morph.skel._Skeletonize
        self.merges = []  # (kind, pipe0 attrs, pipe1 attrs, props) of every _series/_parallel_merge_properties call

    def __enter__(self):
        cls, ev = self.cls, self.ev
        self.orig = (cls.remove_link, cls.remove_node, cls.add_pipe)
        o_rl, o_rn, o_ap = self.orig

        def remove_link(wn, name, *a, **k):
            if self.status is None:
                self.status = {n: (int(l.status) if l.status is not None else 0) for n, l in wn.links()}
            ev.append(("rl", name))
            return o_rl(wn, name, *a, **k)

        def remove_node(wn, name, *a, **k):
            ev.append(("rn", name))
            return o_rn(wn, name, *a, **k)

        def add_pipe(wn, name, *a, **k):
            s = k.get("start_node_name", a[0] if a else None)
            e = k.get("end_node_name", a[1] if len(a) > 1 else None)
            ev.append(("ap", name, s, e))
            return o_ap(wn, name, *a, **k)

        cls.remove_link, cls.remove_node, cls.add_pipe = remove_link, remove_node, add_pipe
        self.orig_m = (self.skel._series_merge_properties, self.skel._parallel_merge_properties)
        o_s, o_p = self.orig_m

        def series(sk, p0, p1):
            r = o_s(sk, p0, p1)
            self.merges.append(("s", pipe_attrs_of(p0), pipe_attrs_of(p1), props_of(r)))
            return r

        def parallel(sk, p0, p1):
            r = o_p(sk, p0, p1)
            self.merges.append(("p", pipe_attrs_of(p0), pipe_attrs_of(p1), props_of(r)))
            return r

        self.skel._series_merge_properties, self.skel._parallel_merge_properties = series, parallel
        return self

    def __exit__(self, *a):
        self.cls.remove_link, self.cls.remove_node, self.cls.add_pipe = self.orig
        self.skel._series_merge_properties, self.skel._parallel_merge_properties = self.orig_m


def ops_from_trace(ev, v0, jx):
    """[(kind, ...)] for the Lean model, or None when the trace is not a sequence of trim / series / parallel steps"""
    ends = {l[0]: (l[1], l[2]) for l in v0["links"]}
    kinds = {n[0]: n[1] for n in v0["nodes"]}
    ops = []
    i = 0
    while i < len(ev):
        t = [e[0] for e in ev[i:i + 4]]
        if t[:2] == ["rl", "rn"]:
            ops.append(("t", ev[i + 1][1]))
            ends.pop(ev[i][1], None)
            i += 2
        elif t == ["rl", "rl", "rn", "ap"]:
            ops.append(("s", ev[i + 2][1], ev[i + 3][2], ev[i + 3][3]))
            ends.pop(ev[i][1], None)
            ends.pop(ev[i + 1][1], None)
            ends[ev[i + 3][1]] = (ev[i + 3][2], ev[i + 3][3])
            i += 4
        elif t[:3] == ["rl", "rl", "ap"]:
            p0, p1 = ev[i][1], ev[i + 1][1]
            if p0 not in ends:
                return None
            a, b = ends[p0]
            j, n = (a, b) if (kinds.get(a) == "J" and a not in jx) else (b, a)
            ops.append(("p", j, n, p0, p1))
            ends.pop(p0, None)
            ends.pop(p1, None)
            ends[ev[i + 2][1]] = (ev[i + 2][2], ev[i + 2][3])
            i += 3
        else:
            return None
    return ops


def ctl_parts(d):
    """what every control of the description refers to: [cond refs, then refs, else refs], ref = ("n"|"l", name)"""
    out = []
    for k in d["controls"]:
        cond = [("n", k["ref"])] if k["kind"] in ("tank", "rule") else [("l", k["ref"])] if k["kind"] == "pipecond" else []
        out.append(dict(cond=cond, then=[("l", k["target"])], els=[]))
    return out


def apply_history(wntr, wn, d, history, parts, ctx):
    """edits the controls of `wn` through their public update_* methods, interleaved with calls that make the model ask the
    controls for requires(); `parts` follows along at description level.  Returns the ctlrefs edit tokens, or None when a
    query unexpectedly changed the model (then the case is dropped: that is C14's subject)."""
    from wntr.network import controls as c
    from wntr.network.base import LinkStatus

    edits = []
    for h in history:
        if h["op"] == "query":
            ctx.count("skel:history:query-" + h["how"])
            if h["how"] == "requires":
                for _, ctl in wn.controls():
                    ctl.requires()
            elif h["how"] == "remove_refused":
                tg = [r[1] for p_ in parts for r in p_["then"] + p_["els"] if r[0] == "l"]
                if tg:
                    try:
                        wn.remove_link(tg[0])
                        return None
                    except Exception:
                        pass
            else:
                os.makedirs(SCRATCH, exist_ok=True)
                cwd = os.getcwd()
                os.chdir(SCRATCH)
                try:
                    with warnings.catch_warnings():
                        warnings.simplefilter("ignore")
                        wntr.morph.skeletonize(wn, 0.0, use_epanet=False, return_copy=False)
                except Exception:
                    pass
                finally:
                    os.chdir(cwd)
                wn.reset_initial_values()
            continue
        ctl = wn.get_control("c%d" % h["ctl"])
        ctx.count("skel:history:" + h["op"])
        if h["op"] in ("else", "then"):
            act = [c.ControlAction(wn.get_link(h["target"]), "status", LinkStatus[h["status"]])]
            if h["op"] == "else":
                ctl.update_else_actions(act)
                parts[h["ctl"]]["els"] = [("l", h["target"])]
                edits.append("e,%d,l:%s" % (h["ctl"], h["target"]))
            else:
                ctl.update_then_actions(act)
                parts[h["ctl"]]["then"] = [("l", h["target"])]
                edits.append("t,%d,l:%s" % (h["ctl"], h["target"]))
        elif h["op"] == "cond":
            if h.get("refl"):
                ctl.update_condition(c.ValueCondition(wn.get_link(h["refl"]), "flow", h["rel"], h["flow"]))
                parts[h["ctl"]]["cond"] = [("l", h["refl"])]
                edits.append("c,%d,l:%s" % (h["ctl"], h["refl"]))
            elif h.get("ref"):
                ctl.update_condition(c.ValueCondition(wn.get_node(h["ref"]), "pressure", h["rel"], h["pressure"]))
                parts[h["ctl"]]["cond"] = [("n", h["ref"])]
                edits.append("c,%d,n:%s" % (h["ctl"], h["ref"]))
            else:
                ctl.update_condition(c.SimTimeCondition(wn, "=", h["at"]))
                parts[h["ctl"]]["cond"] = []
                edits.append("c,%d," % h["ctl"])
        else:
            ctl.update_priority(c.ControlPriority(h["p"]))
            edits.append("p,%d" % h["ctl"])
    return edits


def gen_skel_cfg(rng, d, thorough=False):
    diams = sorted(set(p["diam"] for p in d["pipes"]))
    thr = rng.choice(diams + [0.0, 1.0, 0.12])
    pn = [p["name"] for p in d["pipes"]]
    jn = [n["name"] for n in d["nodes"] if n["kind"] == "J"]
    history = []
    if d["controls"] and rng.random() < 0.6:
        deg = {j: sum(1 for q in d["pipes"] if j in (q["a"], q["b"])) for j in jn}
        lowj = [j for j in jn if deg[j] <= 2] or jn
        small = [p["name"] for p in d["pipes"] if p["diam"] <= thr and (deg.get(p["a"], 9) <= 2 or deg.get(p["b"], 9) <= 2)] or pn
        queries = [dict(op="query", how=h) for h in ("requires", "requires", "remove_refused", "skel0")]
        for _ in range(rng.randint(1, 4)):
            i = rng.randrange(len(d["controls"]))
            if rng.random() < 0.6:
                history.append(rng.choice(queries))
            k = rng.choice(["else", "else", "then", "cond", "cond_pipe", "cond_time", "priority"])
            if k in ("else", "then"):
                history.append(dict(op=k, ctl=i, target=rng.choice(small if rng.random() < 0.8 else pn), status=rng.choice(["CLOSED", "OPEN"])))
            elif k == "cond":
                history.append(dict(op="cond", ctl=i, ref=rng.choice(lowj), pressure=rng.choice([5.0, 20.0]), rel=rng.choice(["<", ">"])))
            elif k == "cond_pipe":
                history.append(dict(op="cond", ctl=i, refl=rng.choice(small if rng.random() < 0.8 else pn), flow=rng.choice([0.001, 0.01]), rel=rng.choice(["<", ">"])))
            elif k == "cond_time":
                history.append(dict(op="cond", ctl=i, ref=None, at=3600 * rng.randint(1, 3)))
            else:
                history.append(dict(op="priority", ctl=i, p=rng.choice([0, 3, 6])))
        if rng.random() < 0.3:
            history.append(rng.choice(queries))
    return dict(history=history, thr=thr, branch=rng.random() < 0.8, series=rng.random() < 0.8, parallel=rng.random() < 0.8,
                max_cycles=rng.choice([None, None, 0, 1, 2]), use_epanet=(rng.random() < (0.5 if thorough else 0.2)),
                return_map=rng.random() < 0.8,
                pipes_excl=rng.sample(pn, rng.randint(0, min(2, len(pn)))) if rng.random() < 0.4 else [],
                juncs_excl=rng.sample(jn, rng.randint(0, min(2, len(jn)))) if rng.random() < 0.4 else [],
                return_copy=rng.random() < 0.7)


def total_expected(wntr, wn):
    # a whole period of every pattern (lengths 1..4, step 1 h -> 12 h), whatever the simulation duration is
    with warnings.catch_warnings():
        warnings.simplefilter("ignore")
        ed = wntr.metrics.expected_demand(wn, start_time=0, end_time=12 * 3600, timestep=3600)
    return [(int(t), float(ed.loc[t].sum())) for t in ed.index]


class SkelRunner:
    def __init__(self, chk, ctx, wntr):
        self.chk, self.ctx, self.wntr = chk, ctx, wntr
        self.lines, self.pending, self.merges, self.ctl_lines = [], [], [], []

    def random_merges(self, n):
        """the two property functions called directly on random pipes (equal diameters, extreme ratios)"""
        import types

        sk = object.__new__(self.wntr.morph.skel._Skeletonize)
        rng = self.ctx.rng
        for _ in range(n):
            ps = []
            for _ in range(2):
                ps.append(types.SimpleNamespace(length=rng.choice([1.0, 10.0, 64.0, 100.0, rng.uniform(0.5, 2000)]),
                                                diameter=rng.choice([0.05, 0.1, 0.15, 0.3, rng.uniform(0.02, 1.5)]),
                                                roughness=rng.choice([80.0, 100.0, 140.0, rng.uniform(40, 150)]),
                                                minor_loss=rng.choice([0.0, 0.5, 10.0]), status=rng.choice([0, 1]), name="x"))
            for k, fn in (("s", sk._series_merge_properties), ("p", sk._parallel_merge_properties)):
                self.merges.append((k, pipe_attrs_of(ps[0]), pipe_attrs_of(ps[1]), props_of(fn(ps[0], ps[1]))))

    def run(self, d, cfg, failures, broken):
        wntr, ctx = self.wntr, self.ctx
        wn = build(wntr, d)
        parts0 = ctl_parts(d)
        parts = [dict(cond=list(p_["cond"]), then=list(p_["then"]), els=list(p_["els"])) for p_ in parts0]
        edits = apply_history(wntr, wn, d, cfg.get("history", []), parts, ctx)
        if edits is None:
            ctx.count("skel:history:query-changed-the-model")
            return
        v0 = view_skel(wn)
        d0 = wn.to_dict()
        # the elements the controls refer to NOW, from the description and its edit history (not from requires())
        nk = {n[0]: n[1] for n in v0["nodes"]}
        lk = {l[0]: l[3] for l in v0["links"]}
        refs = [r for p_ in parts for r in p_["cond"] + p_["then"] + p_["els"]]
        jr = set(x for t, x in refs if t == "n" and nk.get(x) == "J")
        pr = set(x for t, x in refs if t == "l" and lk.get(x) is True)
        rj, rp, _ = control_refs(wn)
        if (rj, rp) != (jr, pr):
            ctx.count("skel:requires-differs-from-current-controls")
            broken.append(Broken("correspondence", "Rule/Control.requires() vs the elements the current controls refer to",
                                 "history %s\nrequires(): junctions %s pipes %s\ncurrent controls: junctions %s pipes %s" % (cfg.get("history"), sorted(rj), sorted(rp), sorted(jr), sorted(pr))))
        fr = lambda rs: " ".join("%s:%s" % r for r in rs)
        self.ctl_lines.append(("ctlrefs | %s | %s | %s | %s" % (fmt_snodes(v0["nodes"]), fmt_slinks(v0["links"]),
                                                            ";".join("%s,%s,%s" % (fr(p_["cond"]), fr(p_["then"]), fr(p_["els"])) for p_ in parts0), ";".join(edits)),
                               sorted(jr), sorted(pr), cfg.get("history")))
        jx = sorted(jr | set(cfg["juncs_excl"]))
        px = sorted(pr | set(cfg["pipes_excl"]))
        ted0 = total_expected(wntr, wn)
        rep = dict(kind="skel", net=d, cfg=cfg)
        os.makedirs(SCRATCH, exist_ok=True)
        cwd = os.getcwd()
        os.chdir(SCRATCH)
        try:
            with Trace(wntr) as tr, warnings.catch_warnings():
                warnings.simplefilter("ignore")
                try:
                    want_map = cfg.get("return_map", True)
                    out = wntr.morph.skeletonize(wn, cfg["thr"], branch_trim=cfg["branch"], series_pipe_merge=cfg["series"],
                                                 parallel_pipe_merge=cfg["parallel"], max_cycles=cfg["max_cycles"], use_epanet=cfg["use_epanet"],
                                                 pipes_to_exclude=list(cfg["pipes_excl"]), junctions_to_exclude=list(cfg["juncs_excl"]),
                                                 return_map=want_map, return_copy=cfg["return_copy"])
                    if want_map:
                        w2, smap = out
                    else:  # only the model comes back; the map is what the model predicts (checked against SkelInv all the same)
                        w2, smap = out, None
                        if isinstance(out, tuple):
                            failures.append(Failure("skel-return-map", "skeletonize(return_map=False) returned a tuple", rep))
                            return
                except Exception as e:
                    ctx.count("skel:raised:%s" % type(e).__name__)
                    return
        finally:
            os.chdir(cwd)
        ctx.case(hashlib.sha256(json.dumps([d, cfg], sort_keys=True, default=str).encode()).hexdigest()[:16], bool(tr.ev))
        self.merges += tr.merges
        v1 = view_skel(w2)
        # `_series/_parallel_merge_properties` read the CURRENT status, which the WNTRSimulator run of __init__ may have changed
        # (a check-valve pipe closed at t=0, a valve gone from Active to Open): the model gets the statuses the steps really saw
        st = tr.status if tr.status is not None else {l[0]: l[7] for l in v1["links"]}
        v0 = dict(nodes=v0["nodes"], links=[l[:7] + (st.get(l[0], l[7]),) + l[8:] for l in v0["links"]])
        if any(a[7] != b[7] for a, b in zip(view_skel(build(wntr, d))["links"], v0["links"])):
            ctx.count("skel:status-changed-by-internal-run")
        # ---- the statement on the real result
        have_n = {n[0]: n[1] for n in v1["nodes"]}
        have_l = {l[0]: l for l in v1["links"]}
        for n in v0["nodes"]:
            why = "a %s" % {"T": "tank", "R": "reservoir"}[n[1]] if n[1] != "J" else "referenced by a control" if n[0] in jr else \
                "listed in junctions_to_exclude" if n[0] in cfg["juncs_excl"] else None
            if why and have_n.get(n[0]) != n[1]:
                failures.append(Failure("skel-drops-%s" % ("tank-reservoir" if n[1] != "J" else "control-junction" if n[0] in jr else "excluded-junction"),
                                        "skeletonize removed node %s (%s)" % (n[0], why), dict(rep, observed="node %s missing" % n[0])))
        for l in v0["links"]:
            why = "a pump/valve" if not l[3] else "referenced by a control" if l[0] in pr else "listed in pipes_to_exclude" if l[0] in cfg["pipes_excl"] else None
            if why and l[0] not in have_l:
                failures.append(Failure("skel-drops-%s" % ("pump-valve" if not l[3] else "control-pipe" if l[0] in pr else "excluded-pipe"),
                                        "skeletonize removed link %s (%s)" % (l[0], why), dict(rep, observed="link %s missing" % l[0])))
            elif why and (have_l[l[0]][:4] != l[:4] or [x for x in w2.to_dict()["links"] if x["name"] == l[0]] != [x for x in d0["links"] if x["name"] == l[0]]):
                failures.append(Failure("skel-alters-%s" % ("pump-valve" if not l[3] else "control-pipe" if l[0] in pr else "excluded-pipe"),
                                        "skeletonize replaced link %s (%s) by a different one: %s -> %s" % (l[0], why, l, have_l[l[0]]), rep))
        ted1 = total_expected(wntr, w2)
        if [t for t, _ in ted0] != [t for t, _ in ted1]:
            failures.append(Failure("skel-demand", "expected-demand times changed", rep))
        else:
            for (t, a), (_, b) in zip(ted0, ted1):
                if abs(a - b) > 1e-12 * max(1.0, abs(a)) + 1e-15:
                    failures.append(Failure("skel-demand", "total expected demand at t=%d: %.12g before, %.12g after skeletonize" % (t, a, b),
                                            dict(rep, observed=[t, a, b])))
                    break
        orig_names = [n[0] for n in v0["nodes"]]
        ctx.count("skel:return_map=%s" % (smap is not None))
        if smap is None:  # no map returned: a placeholder partition lets the driver judge retention and demands only
            kept = [n for n in orig_names if n in have_n]
            smap = {n: ([n] if n in have_n else []) for n in orig_names}
            if kept:
                smap[kept[0]] = smap[kept[0]] + [n for n in orig_names if n not in have_n]
            no_map = True
        else:
            no_map = False
        flat = [x for k in smap for x in smap[k]]
        if sorted(flat) != sorted(orig_names) or sorted(smap.keys()) != sorted(orig_names):
            miss = sorted(set(orig_names) - set(flat))
            dup = sorted(x for x in set(flat) if flat.count(x) > 1)
            failures.append(Failure("skel-map-partition", "skeleton map: original nodes missing from every list %s, listed more than once %s" % (miss[:5], dup[:5]),
                                    dict(rep, observed=dict(smap))))
        bad = [k for k in smap if smap[k] and k not in have_n]
        if bad:
            failures.append(Failure("skel-map-partition", "skeleton map: removed nodes %s have a non-empty list" % bad[:5], dict(rep, observed=dict(smap))))
        if cfg["return_copy"] and wn.to_dict() != d0:
            ctx.count("skel:input-changed-with-return-copy")
        # ---- correspondence: the trace through the Lean model, and SkelInv (executable) on the real data
        ops = ops_from_trace(tr.ev, v0, set(jx))
        for o in (ops or []):
            ctx.count("skel:op:" + o[0])
        ctx.count("skel:ops:%s" % ("0" if not tr.ev else "1-3" if len(ops or []) <= 3 else "4+"))
        ctx.count("skel:%s%s%s" % ("B" if cfg["branch"] else "-", "S" if cfg["series"] else "-", "P" if cfg["parallel"] else "-"))
        if cfg["use_epanet"]:
            ctx.count("skel:use_epanet")
        if ops is None:
            broken.append(Broken("correspondence", "M9 skeletonize trace", "mutation trace is not a sequence of trim/series/parallel steps: %s" % (tr.ev[:12],)))
            return
        # the pass structure of `run` (model: cyclePass / runLoop): trims, then series merges, then parallel merges, junctions in
        # junction_name_list order inside a pass; `max_cycles = k` allows k + 1 passes; switched-off operations never occur
        jpos = {n[0]: i for i, n in enumerate(v0["nodes"])}
        cyc, last = (1 if ops else 0), (-1, -1)
        for o in ops:
            key = ({"t": 0, "s": 1, "p": 2}[o[0]], jpos.get(o[1], -1) if o[0] != "p" else 0)
            if key < last or (key == last and o[0] != "p"):
                cyc += 1
            last = key
        ctx.count("skel:passes-with-steps:%s" % min(cyc, 4))
        off = [k for k, on in (("t", cfg["branch"]), ("s", cfg["series"]), ("p", cfg["parallel"])) if not on and any(o[0] == k for o in ops)]
        if off or (cfg["max_cycles"] is not None and cyc > cfg["max_cycles"] + 1):
            broken.append(Broken("correspondence", "M9 runLoop / cyclePass vs _Skeletonize.run",
                                 "steps %s need %d passes; max_cycles=%s options %s" % (ops[:20], cyc, cfg["max_cycles"], (cfg["branch"], cfg["series"], cfg["parallel"]))))
        mkeys = [(k, list(smap[k])) for k in orig_names if k in smap]
        head = "%s | %s | %s | %s" % (fmt_snodes(v0["nodes"]), fmt_slinks(v0["links"]), " ".join(jx), " ".join(px))
        self.lines.append("skelrun | %s | %s | %s" % (head, _fr(cfg["thr"]), ";".join(",".join(o) for o in ops)))
        self.lines.append("skelora | %s | %s | %s | %s" % (head, fmt_snodes(v1["nodes"]), fmt_slinks(v1["links"]), fmt_map(mkeys)))
        self.pending.append((d, cfg, v1, None if no_map else mkeys, ops, rep))
        if len(ctx.samples) < 4 and ops:
            ctx.sample(dict(kind="skeletonize", cfg=cfg, nodes_before=len(v0["nodes"]), nodes_after=len(v1["nodes"]), ops=ops[:8],
                            map={k: v for k, v in mkeys if len(v) > 1}))

    def flush(self, failures, broken):
        merge_check(self.ctx, self.merges, broken)
        self.merges = []
        if self.ctl_lines:
            mo = vlib.lean_run(DRIVER, "\n".join(l[0] for l in self.ctl_lines) + "\n")
            for (line, jr, pr, hist), ml in zip(self.ctl_lines, mo):
                exp = "ok J=%s P=%s" % (" ".join(jr), " ".join(pr))
                got = ml.strip()
                if got.startswith("ok J="):
                    a, b = got[5:].split(" P=") if " P=" in got else (got[5:], "")
                    got = "ok J=%s P=%s" % (" ".join(sorted(set(a.split()))), " ".join(sorted(set(b.split()))))
                if got != exp:
                    broken.append(Broken("correspondence", "M9 ctlJunctions / ctlPipes vs the edited controls", "history %s\nmodel %s\nexpected %s" % (hist, got, exp)))
            self.ctl_lines = []
        if not self.lines:
            return
        mo = vlib.lean_run(DRIVER, "\n".join(self.lines) + "\n")
        if len(mo) != len(self.lines):
            raise vlib.Infra("MorphDriver returned %d lines for %d requests" % (len(mo), len(self.lines)))
        for k, (d, cfg, v1, mkeys, ops, rep) in enumerate(self.pending):
            run, ora = mo[2 * k].strip(), mo[2 * k + 1].strip()
            if ora != "ok":
                # SkelInv is false of the real result; the Python oracle above names the concrete violation when the statement is hit
                broken.append(Broken("correspondence", "skelOracle (executable SkelInv) on the implementation's result", "%s for cfg %s ops %s" % (ora, cfg, ops)))
                self.chk.save_corpus(dict(kind="skel", net=d, cfg=cfg))
            diff = self.cmp_run(run, v1, mkeys)
            if diff:
                broken.append(Broken("correspondence", "M9 Skel.run vs skeletonize", "cfg %s\nops %s\n%s" % (cfg, ops, diff)))
                self.chk.save_corpus(dict(kind="skel", net=d, cfg=cfg))
        self.lines, self.pending = [], []

    @staticmethod
    def cmp_run(line, v1, mkeys):
        if not line.startswith("ok N="):
            return "driver answered %r" % line[:200]
        body = line[3:]
        i, j = body.index(" L="), body.index(" M=")
        ns, ls, ms = body[2:i], body[i + 3:j], body[j + 3:]
        mn = []
        for t in ns.split(";"):
            if t:
                a = t.split(",")
                mn.append((a[0], a[1], [(Fraction(x.split(":")[0]), x.split(":")[1], x.split(":")[2]) for x in a[2].split(" ") if x]))
        rn = [(n[0], n[1], [(Fraction(b), p, c) for b, p, c in n[2]]) for n in v1["nodes"]]
        if mn != rn:
            for a, b in zip(mn, rn):
                if a != b:
                    return "node: model %s impl %s" % ((a[0], a[1], [(float(x), y, z) for x, y, z in a[2]]), (b[0], b[1], [(float(x), y, z) for x, y, z in b[2]]))
            return "nodes: model %s impl %s" % ([a[0] for a in mn], [b[0] for b in rn])
        ml = {}
        for t in ls.split(";"):
            if t:
                a = t.split(",")
                ml[a[0]] = (a[1], a[2], a[3] == "1", Fraction(a[4]), Fraction(a[5]), Fraction(a[6]), int(a[7]), a[8] == "1")
        rl = {l[0]: l[1:] for l in v1["links"]}
        if sorted(ml) != sorted(rl):
            return "links: model %s impl %s" % (sorted(ml), sorted(rl))
        for k in ml:
            a, b = ml[k], rl[k]
            if a[:3] != b[:3] or a[6:] != b[6:] or not all(close(a[i], b[i]) for i in (3, 4, 5)):
                return "link %s: model %s impl %s" % (k, [str(x) if isinstance(x, Fraction) else x for x in a], b)
        mm = [(t.split("=")[0], [x for x in t.split("=")[1].split(" ") if x]) for t in ms.split(";") if t]
        if mkeys is not None and mm != mkeys:
            return "skeleton map: model %s impl %s" % (mm, mkeys)
        return None


# ----------------------------------------------------------------------------- the check


class C19(Check):
    pid = "C19"
    level = "proof"
    prop_modules = ["WntrModel.Props.C19"]
    extra_targets = ["WntrModel.Model.Morph", "WntrModel.Gen.MorphShape"]
    manifest = dict(
        category="proof",
        text="Lean theorems over the model of _split_or_break_pipe and of _Skeletonize, for every network state, pipe, fraction in [0,1] "
        "(0 and 1 included), either end, vertex list, threshold, exclusion list, iteration order and max_cycles: the split succeeds "
        "(split_total) and returns splitResult, whose two parts keep the total length (split_preserves_length), the minor loss "
        "(split_preserves_minor), every other node/pump/valve/pipe (split_preserves_others) and the original's attributes "
        "(split_old_pipe_keeps); the new pipe has no check valve, no minor loss and is open (split_new_pipe_no_cv); the new junctions sit "
        "at the interpolated elevation and at arc length f of the vertex polyline (split_new_junctions, junctionElevation_interp, "
        "crossing_eq_pointAt, split_junction_on_polyline), on the end node for f = 1 and on the vertex when f falls on one, zero-length "
        "segments included (pointAt_total, pointAt_vertex, split_junction_at_one, split_junction_on_vertex); vertices are cut into a prefix "
        "and the remaining suffix (split_vertices_partition); break differs from split only in the junctions; the head loss and the "
        "open/closed state of the two parts in series equal the original's at every flow, control schedule and time "
        "(split_hydraulics_unchanged, split_status_unchanged; the statements for the code that copies minor loss and status are kept with "
        "their counterexamples). Skeletonize: skeleton_invariants for every step sequence and skeleton_result_independent_properties for "
        "the whole run under EVERY junction / neighbour / edge-key order (termination by run_terminates): tanks, reservoirs, pumps, valves "
        "and control-referenced / excluded elements retained, demand entries permuted (skeleton_total_demand_conserved), the skeleton map "
        "a partition of the original nodes over retained nodes; skeleton_outputs_depend_on_order shows what does depend on the order (map "
        "representative, receiver of the demand, name and direction of the merged pipe). Merged pipes: series_merge_resistance (exact when "
        "e*b = 1), series_merge_resistance_general + code_series_exponents_inconsistent (0.54*1.85 = 0.999: the code's series formula is "
        "off by A^0.001*S^0.999, measured <= 0.94 %), parallel_merge_conductance (exact for any exponents), powLaws_real, "
        "series_merge_status_counterexample; the two formulas are regenerated from the source as expression trees (Gen.seriesMX / parallelMX, "
        "series_rough_is_source, parallel_rough_is_source, merge_props_are_source) and stated over the reals as written: "
        "parallel_merge_source_exact, series_merge_source_general. Controls: skeleton_keeps_control_referenced (every element the condition, a "
        "THEN or an ELSE action of any control refers to AFTER any update_* history is retained). Translator tie: split_shape_is_source, "
        "skel_shape_is_source. The tie is a differential run of the real split_pipe / break_pipe / skeletonize / "
        "_series_merge_properties / _parallel_merge_properties against the Lean driver plus the statement evaluated on the real results "
        "(to_dict, expected_demand, WNTRSimulator before/after a split).",
        design_ref="DESIGN.md §5 C19, §4 M9",
        note="trusted: Lean kernel, axioms {propext, Classical.choice, Quot.sound}; the correspondence harness. Modelled, not verified: binary64 "
        "arithmetic (the model computes in Q; the Euclidean segment lengths of a vertex polyline enter as given non-negative numbers computed by "
        "the harness with the code's own formula), copy.deepcopy (return_copy is compared on the implementation only), the order in which "
        "_Skeletonize visits junctions and networkx lists neighbours (the theorems hold for EVERY step sequence; the observed sequence is "
        "replayed), the hydraulic run inside _Skeletonize.__init__ (its result is not used by the code). "
        "'Splitting leaves the hydraulics unchanged' is a theorem for the head loss and the open/closed state of the split pipe; the "
        "network-level claim is the simulation comparison. The split model follows fixes/C19-split-neutral-new-pipe.patch (new pipe open, no "
        "minor loss); a result that equals the `splitCopying` model (the code before that patch) is accepted by the tie and shows up as the "
        "two recorded findings. The iteration orders of dict / networkx are parameters (`Order`), not derived from the source. Outside the statement (answered alike by model and code): a pipe between two reservoirs (AttributeError), "
        "self-loop pipes, equal names for the two break junctions.",
        technique="Lean 4 proof (invariant preserved by every step, induction over the step sequence) + differential run against the Lean driver",
    )
    rule = (
        "obligations: theorems of Props/C19.lean. correspondence cases: one (network, pipe, fraction, end, split|break) call compared with the "
        "Lean driver, return_copy both ways, or one (network, skeletonize configuration) run; distinct = distinct generated inputs; non-trivial = "
        "interior fraction / at least one skeletonization step performed"
    )
    trusted_base = [
        "translator harness/props/c19_translate.py (ast of wntr/morph/link.py, wntr/morph/skel.py -> Gen/MorphShape.lean)",
        "correspondence harness harness/props/c19.py (incl. the in-process recording of remove_link/remove_node/add_pipe during skeletonize)",
        "binary64 sqrt / products of the implementation are compared with the rational model at relative 1e-9",
        "WNTRSimulator (Newton, TOL 1e-10) for the before/after comparison of a split; wntr.metrics.expected_demand for the demand totals",
    ]
    assumptions = [
        "element names are valid WNTR names; the two junction names of a break are distinct; no pipe joins a node to itself",
        "the pipe to split does not join two reservoirs (the code raises AttributeError: a reservoir has no elevation)",
        "hydraulic comparison: judged only when both runs converge; demand-driven, HW_approx='piecewise' (the default approximation adds a regulariser eps*sqrt(k)*q that is not additive in the pipe length); heads 1e-7 m, flows 1e-9 m3/s",
    ]

    def translate(self, ctx):
        """wntr/morph/link.py + skel.py -> Gen/MorphShape.lean (new-pipe argument sources, length / vertex assignments, comparison
        operators, and verbatim guards / statements of every operation); Props/C19 proves it equal to the shape the model evaluates"""
        import c19_translate

        try:
            text = c19_translate.gen_file(vlib.REPO)
        except (c19_translate.Bad, SyntaxError, KeyError, IndexError) as e:
            raise vlib.BrokenTie("c19_translate cannot read wntr/morph/link.py / skel.py: %s" % e)
        vlib.write_if_changed(os.path.join(vlib.GEN, "MorphShape.lean"), text)
        ctx.cov["translator"] = "Gen/MorphShape.lean: %d lines from wntr/morph/link.py, wntr/morph/skel.py" % text.count("\n")

    def save_corpus(self, item):
        d = os.path.join(vlib.CORPUS, "C19")
        os.makedirs(d, exist_ok=True)
        s = json.dumps(item, sort_keys=True)
        p = os.path.join(d, "auto-%s.json" % hashlib.sha256(s.encode()).hexdigest()[:10])
        if not os.path.exists(p) and len([f for f in os.listdir(d) if f.startswith("auto-")]) < 20:
            open(p, "w").write(s)

    # ---- hydraulics
    def hydraulics(self, ctx, wntr, failures, n_nets, per_net):
        for _ in range(n_nets):
            d = gen_net(ctx.rng, hyd=True)
            wn = build(wntr, d)
            r0 = simulate(wntr, wn)
            if isinstance(r0, str):
                ctx.count("hyd:base-not-solved")
                continue
            pipes = list(d["pipes"])
            ctx.rng.shuffle(pipes)
            lossy = [p for p in pipes if p["minor"] > 0][:1]
            plain = [p for p in pipes if p["minor"] == 0]
            plain.sort(key=lambda p: -int(p["cv"]) - int(p["status"] == "CLOSED"))
            for p in lossy + plain[:per_net]:
                case = dict(pipe=p["name"], new_pipe="NP", newj=["NJ"], at_end=ctx.rng.random() < 0.5, brk=False,
                            f=ctx.rng.choice([0.5, ctx.rng.randint(1, 63) / 64.0, ctx.rng.random(), 0.0, 1.0, 2.0 ** -20]))
                self.hyd_case(ctx, wntr, d, wn, r0, case, failures)

    def hyd_case(self, ctx, wntr, d, wn, r0, case, failures):
        res = call_split(wntr, build(wntr, d), case, True)  # a fresh model: `wn` carries the state of the base run
        if res[0] != "ok":
            return
        r1 = simulate(wntr, res[1])
        p = [q for q in d["pipes"] if q["name"] == case["pipe"]][0]
        cls = "minor" if p["minor"] > 0 else "cv" if p["cv"] else "closed" if p["status"] == "CLOSED" else "plain"
        if isinstance(r1, str):
            ctx.count("hyd:after-not-solved:%s" % ("f01" if case["f"] in (0.0, 1.0) else "mid"))
            return
        ctx.case(("hyd", json.dumps([d["nodes"], d["pipes"], case], sort_keys=True, default=str)))
        v = hyd_compare(r0, r1, d, case)
        ctx.count("hyd:%s:%s" % (cls, "same" if v is None else "differs"))
        if v is not None:
            failures.append(Failure(v[0], "split_pipe %s at %r changes the hydraulics of the rest of the network: %s" % (case["pipe"], case["f"], v[1]),
                                    dict(kind="hyd", net=d, case=case, observed=v[1])))

    # ---- run
    def _run(self, ctx, failures, broken, n_split, n_skel, n_hyd, thorough):
        wntr = vlib.import_wntr()
        sr = SplitRunner(self, ctx, wntr)
        kr = SkelRunner(self, ctx, wntr)
        for _, item in vlib.corpus_items("C19"):
            self.run_item(ctx, wntr, item, sr, kr, failures, broken)
        for i in range(n_split):
            d = gen_net(ctx.rng)
            sr.run_net(d, failures, broken, npipes=3, nfr=6 if ctx.quick else 8)
            if i % 2 == 0:  # malformed stream: not a pipe, fraction outside [0,1], names in use
                pn = d["pipes"][0]["name"]
                other = (d["pumps"] + d["valves"] + [dict(name="nosuch")])[0]["name"]
                others = [o["name"] for o in d["pumps"] + d["valves"]]
                special = [n["name"] for n in d["nodes"] if n["kind"] != "J"]
                bad = [dict(pipe=pn, new_pipe=o, newj=["NJ", "NK"] if b_ else ["NJ"], at_end=ae, f=0.25, brk=b_)
                       for o in others[:2] for ae, b_ in ((True, False), (False, True))]
                bad += [dict(pipe=pn, new_pipe="NP", newj=[special[-1]], at_end=True, f=0.5, brk=False),
                        dict(pipe=pn, new_pipe="NP", newj=["NJ", special[0]], at_end=False, f=0.5, brk=True)]
                bad += [dict(pipe=other, new_pipe="NP", newj=["NJ"], at_end=True, f=0.5, brk=False),
                       dict(pipe=pn, new_pipe="NP", newj=["NJ"], at_end=True, f=ctx.rng.choice([-0.25, 1.5]), brk=False),
                       dict(pipe=pn, new_pipe="NP", newj=["J1"], at_end=False, f=0.5, brk=False),
                       dict(pipe=pn, new_pipe=pn, newj=["NJ", "NK"], at_end=False, f=0.5, brk=True),
                       dict(pipe=pn, new_pipe="NP", newj=["NJ", "R1"], at_end=True, f=2.0, brk=True)]
                sr.run_net(d, failures, broken, 0, 0, cases=bad)
        import time
        t0 = time.time()
        sr.flush(failures, broken)
        t1 = time.time()
        self.hydraulics(ctx, wntr, failures, n_hyd, 2)
        t2 = time.time()
        for i in range(n_skel):
            d = gen_net(ctx.rng, big=True, hyd=True)
            # _Skeletonize.__init__ runs WNTRSimulator with its default 3000 Newton iterations: a network on which 400 iterations do
            # not converge (a minute of wall time per call) is skeletonized with use_epanet=True only
            wn = build(wntr, d)
            wn.options.time.duration = 0
            try:
                with warnings.catch_warnings():
                    warnings.simplefilter("ignore")
                    wntr.sim.WNTRSimulator(wn).run_sim(solver_options={"MAXITER": 400}, convergence_error=True)
                easy = True
            except Exception:
                easy = False
                ctx.count("skel:net-hard-for-WNTRSimulator")
            for _ in range(2):
                cfg = gen_skel_cfg(ctx.rng, d, thorough)
                if not easy:
                    cfg["use_epanet"] = True
                    cfg["history"] = [h for h in cfg["history"] if h.get("how") != "skel0"]
                kr.run(d, cfg, failures, broken)
        kr.random_merges(100 if ctx.quick else 1000)
        kr.flush(failures, broken)
        ctx.cov["phase_seconds"] = dict(split_impl=round(t0 - ctx.t0, 1), split_driver=round(t1 - t0, 1), hydraulics=round(t2 - t1, 1),
                                        skeletonize=round(time.time() - t2, 1))

    def run_item(self, ctx, wntr, item, sr, kr, failures, broken):
        if item.get("kind") == "split":
            sr.run_net(item["net"], failures, broken, 0, 0, cases=[item["case"]])
        elif item.get("kind") == "skel":
            kr.run(item["net"], item["cfg"], failures, broken)
        elif item.get("kind") == "hyd":
            wn = build(wntr, item["net"])
            r0 = simulate(wntr, wn)
            if not isinstance(r0, str):
                self.hyd_case(ctx, wntr, item["net"], wn, r0, item["case"], failures)

    def correspondence(self, ctx):
        failures, broken = [], []
        if ctx.quick:
            self._run(ctx, failures, broken, n_split=10, n_skel=45, n_hyd=22, thorough=False)
        else:
            self._run(ctx, failures, broken, n_split=150, n_skel=800, n_hyd=250, thorough=True)
        return failures, broken

    def search(self, ctx, broken):
        failures, b2 = [], []
        self._run(ctx, failures, b2, n_split=25, n_skel=120, n_hyd=30, thorough=False)
        return failures

    def replay(self, ctx, path):
        r = json.load(open(path if os.path.isabs(path) else os.path.join(vlib.VERIF, path)))
        print(json.dumps(r, indent=1)[:3000])
        failures, broken = [], []
        item = r.get("replay")
        if item and item.get("kind"):
            wntr = vlib.import_wntr()
            sr, kr = SplitRunner(self, ctx, wntr), SkelRunner(self, ctx, wntr)
            self.run_item(ctx, wntr, item, sr, kr, failures, broken)
            sr.flush(failures, broken)
            kr.flush(failures, broken)
        else:
            failures, broken = self.correspondence(ctx)
        hit = [f for f in failures if f.key == r.get("key")] or failures
        print("replay: %s" % ("REPRODUCED " + hit[0].what if hit else "not reproduced on the current tree"))
        return 1 if hit else 0


if __name__ == "__main__":
    vlib.run_check(C19)
